package nebula

// C17 — overlay source and destination addresses are authentic, regardless of rules and conntrack state.
//
// Oracle (property statement only): whenever Firewall.Drop returns nil for peer P on node N,
//   remote ∈ (P's certified addresses ∩ N's overlay networks) ∪ (P's certified unsafe networks)   and
//   local  ∈ N's certified addresses ∪ N's certified unsafe networks.
// (c16Gate in verif_c16ref_test.go computes exactly these two predicates from the plain peer/node records.)
// The workload tries to get an unauthentic pair through: allow-everything rule sets, connection-tracking
// entries and routine-local cache entries that already hold the very tuple (seeded directly or created by
// another peer's genuine flow), multi-address peers, peers with unsafe networks, neighbour addresses.

import (
	"fmt"
	"math/rand/v2"
	"net/netip"
	"testing"

	"github.com/slackhq/nebula/firewall"
	"github.com/slackhq/nebula/verifkit"
)

func c17AllowAll() []c16Rule {
	return []c16Rule{
		{Incoming: true, Proto: "any", PortKind: c16PortAny, Host: "any", LocalCidr: "any"},
		{Incoming: false, Proto: "any", PortKind: c16PortAny, Host: "any", LocalCidr: "any"},
	}
}

func c17RemoteClass(node *c16Node, peer *c16Peer, others []*c16Peer, a netip.Addr) string {
	if a.Is4In6() {
		return "4in6-mapped"
	}
	own, inside, unsafe := false, false, false
	for _, x := range peer.Addrs {
		if x.Addr() == a {
			own = true
			for _, n := range node.Networks {
				if c16Contains(n, a) {
					inside = true
				}
			}
		}
	}
	for _, u := range peer.Unsafe {
		if c16Contains(u, a) {
			unsafe = true
		}
	}
	switch {
	case own && inside:
		return "own-inside"
	case own && unsafe:
		return "own-outside-in-own-unsafe"
	case own:
		return "own-outside"
	case unsafe:
		return "in-own-unsafe"
	}
	for _, n := range node.Networks {
		if n.Addr() == a {
			return "node-address"
		}
	}
	for _, o := range others {
		if o == peer {
			continue
		}
		for _, x := range o.Addrs {
			if x.Addr() == a {
				return "other-peer-address"
			}
		}
		for _, u := range o.Unsafe {
			if c16Contains(u, a) {
				return "other-peer-unsafe"
			}
		}
	}
	for _, n := range node.Networks {
		if c16Contains(n, a) {
			return "stray-in-overlay"
		}
	}
	return "stray"
}

func c17LocalClass(node *c16Node, a netip.Addr) string {
	if a.Is4In6() {
		return "4in6-mapped"
	}
	for _, n := range node.Networks {
		if n.Addr() == a {
			return "node-address"
		}
	}
	for _, u := range node.Unsafe {
		if c16Contains(u, a) {
			return "node-unsafe"
		}
	}
	for _, n := range node.Networks {
		if c16Contains(n, a) {
			return "other-in-overlay"
		}
	}
	return "stray"
}

type c17Checker struct {
	r *verifkit.Reporter
	w *c16World
}

// observe calls the real Drop and judges a nil result. Returns whether the packet was let through.
func (c *c17Checker) observe(node *c16Node, peer *c16Peer, h *HostInfo, others []*c16Peer, fw *Firewall, cache firewall.ConntrackCache, p firewall.Packet, incoming bool, rulesDesc string, hist func() any) bool {
	r := c.r
	remoteOK, localOK, _ := c16Gate(node, peer, p)
	fw.Conntrack.Lock()
	_, inCT := fw.Conntrack.Conns[p]
	fw.Conntrack.Unlock()
	_, inCache := cache[p]
	var err error
	rec := func() any {
		return map[string]any{"node": node.describe(), "peer": peer.describe(), "packet": c16PktMap(p, incoming), "rules": rulesDesc,
			"tuple_in_conntrack_before_call": inCT, "tuple_in_local_cache_before_call": inCache, "remote_authentic": remoteOK, "local_authentic": localOK, "history": hist()}
	}
	if c16Guard(r, "C17/drop-panics", rec, func() { err = fw.Drop(p, incoming, h, c.w.pool, cache) }) {
		return false
	}
	r.Eval(1)
	passed := err == nil
	rc, lc := c17RemoteClass(node, peer, others, p.RemoteAddr), c17LocalClass(node, p.LocalAddr)
	shape := "simple"
	if len(peer.Addrs) > 1 || len(peer.Unsafe) > 0 {
		shape = "multi"
	}
	r.DistinctClass(fmt.Sprintf("peer=%s remote=%s local=%s ct=%v cache=%v in=%v pass=%v", shape, rc, lc, inCT, inCache, incoming, passed))
	r.DistinctU64(c17Hash(node.Label, peer, p, incoming, inCT, inCache))
	if !(remoteOK && localOK) {
		r.Count("unauthentic_attempts", 1)
		if inCT {
			r.Count("unauthentic_attempts_with_tuple_in_conntrack", 1)
		}
		if inCache {
			r.Count("unauthentic_attempts_with_tuple_in_local_cache", 1)
		}
	}
	if !passed {
		r.Count("dropped", 1)
		if remoteOK && localOK && rulesDesc == "allow-everything" {
			r.Count("authentic_pair_dropped_under_allow_everything("+rc+")", 1) // informational: C17 is one-directional
		}
		return false
	}
	r.Count("passed", 1)
	if inCT || inCache {
		r.Count("passed_on_tracked_state", 1)
	}
	via := ""
	switch {
	case inCache:
		via = "-via-local-cache"
	case inCT:
		via = "-via-conntrack"
	}
	if !remoteOK {
		r.Violation("C17/remote-address-not-authentic"+via, fmt.Sprintf("Drop returned nil for remote %s (%s) which is neither a certified address of the peer inside the node's networks nor inside the peer's unsafe networks (peer addrs %v unsafe %v, node %s)", p.RemoteAddr, rc, peer.Addrs, peer.Unsafe, node.Label), rec())
	}
	if !localOK {
		r.Violation("C17/local-address-not-authentic"+via, fmt.Sprintf("Drop returned nil for local %s (%s) which is neither a certified address of the node nor inside its unsafe networks (node networks %v unsafe %v)", p.LocalAddr, lc, node.Networks, node.Unsafe), rec())
	}
	return true
}

func c17Hash(label string, peer *c16Peer, p firewall.Packet, incoming, ct, cache bool) uint64 {
	h := uint64(1469598103934665603)
	mix := func(b []byte) {
		for _, x := range b {
			h ^= uint64(x)
			h *= 1099511628211
		}
	}
	mix([]byte(label))
	for _, a := range peer.Addrs {
		mix(a.Addr().AsSlice())
		mix([]byte{byte(a.Bits())})
	}
	for _, a := range peer.Unsafe {
		mix(a.Addr().AsSlice())
		mix([]byte{byte(a.Bits()), 0xee})
	}
	mix(p.RemoteAddr.AsSlice())
	mix(p.LocalAddr.AsSlice())
	f := byte(0)
	for i, b := range []bool{incoming, ct, cache} {
		if b {
			f |= 1 << i
		}
	}
	mix([]byte{f})
	return h
}

func c17Map(a netip.Addr) netip.Addr {
	if a.Is4() {
		return netip.AddrFrom16(a.As16())
	}
	return a
}

// c17CraftedPeers: the address shapes the statement distinguishes.
func c17CraftedPeers(w *c16World) []*c16Peer {
	mk := func(name string, addrs, unsafe []string, ca int) *c16Peer {
		var a, u []netip.Prefix
		for _, s := range addrs {
			a = append(a, c16P(s))
		}
		for _, s := range unsafe {
			u = append(u, c16P(s))
		}
		p := w.newPeer(name, []string{"g1"}, a, u, ca)
		if p == nil {
			panic("crafted peer refused: " + name)
		}
		return p
	}
	return []*c16Peer{
		mk("one-inside", []string{"10.0.1.5/16"}, nil, 0),
		mk("one-outside", []string{"172.16.0.5/24"}, nil, 1),
		mk("inside+outside", []string{"10.0.1.7/16", "172.16.0.5/24"}, nil, 0),
		mk("three", []string{"10.0.2.5/16", "10.0.5.9/24", "fd00::5/64"}, nil, 2),
		mk("inside+unsafe", []string{"10.0.1.5/16"}, []string{"192.168.50.0/24"}, 0),
		mk("unsafe-covers-overlay", []string{"10.0.1.7/16"}, []string{"10.0.0.0/16"}, 1),
		mk("outside+unsafe-covering-it", []string{"10.0.2.5/16", "172.16.0.5/24"}, []string{"172.16.0.0/16"}, 0),
		mk("v6", []string{"fd00::5/64", "fd77::5/64"}, []string{"fd50::/64"}, 0),
		mk("unsafe-overlaps-node-unsafe", []string{"10.0.0.9/24"}, []string{"192.168.0.0/25"}, 2),
	}
}

// TestVerifC17Grid enumerates, for every node variant and crafted peer, every (remote, local) pair of a fixed
// address alphabet in both directions under allow-everything rules, with no state, with the tuple already in
// conntrack (as if another flow had created it) and with the tuple in the routine-local cache.
func TestVerifC17Grid(t *testing.T) {
	r := verifkit.NewReporter(t, "C17", "grid",
		"EXHAUSTIVE: 6 node variants x 9 crafted peers (one/many addresses inside/outside the node networks, unsafe networks incl. ones covering the overlay, the node's unsafe network or the peer's own outside address) x every remote address in {all certified addresses of all crafted peers, their successors, members of every unsafe network, node addresses, strays, 4in6-mapped forms} x every local address in {node addresses, node unsafe members, neighbours, strays, 4in6-mapped} x 2 directions x {no state, tuple pre-seeded in conntrack, tuple pre-seeded in conntrack+routine-local cache}, allow-everything rules; distinct = distinct (node, peer, remote, local, direction, state) tuples")
	defer r.Done()
	w := c16NewWorld()
	c := &c17Checker{r: r, w: w}
	nodes := w.nodes()
	peers := c17CraftedPeers(w)
	var remotes, locals []netip.Addr
	add := func(l *[]netip.Addr, a netip.Addr) {
		for _, x := range *l {
			if x == a {
				return
			}
		}
		*l = append(*l, a)
	}
	for _, p := range peers {
		for _, a := range p.Addrs {
			add(&remotes, a.Addr())
			add(&remotes, a.Addr().Next())
			add(&remotes, c17Map(a.Addr()))
		}
		for _, u := range p.Unsafe {
			add(&remotes, u.Addr().Next())
			b := u.Addr().AsSlice()
			b[len(b)-1] |= 0x7f
			x, _ := netip.AddrFromSlice(b)
			add(&remotes, x)
			add(&remotes, x.Next())
		}
	}
	for _, s := range c16StrayRemote {
		add(&remotes, c16A(s))
	}
	for _, n := range nodes {
		for _, a := range n.Networks {
			add(&remotes, a.Addr())
			add(&locals, a.Addr())
			add(&locals, a.Addr().Next())
			add(&locals, c17Map(a.Addr()))
		}
		for _, u := range n.Unsafe {
			add(&locals, u.Addr())
			add(&locals, u.Addr().Next())
			b := u.Addr().AsSlice()
			b[len(b)-1] |= 0xff
			x, _ := netip.AddrFromSlice(b)
			add(&locals, x)
			add(&locals, x.Next())
		}
	}
	for _, s := range c16StrayLocal {
		add(&locals, c16A(s))
	}
	rules := c17AllowAll()
	idx := 0
	for _, node := range nodes {
		for _, peer := range peers {
			h := peer.hostInfo(node)
			for _, ra := range remotes {
				for _, la := range locals {
					idx++
					if !verifkit.Mine(idx) {
						continue
					}
					for _, incoming := range []bool{true, false} {
						p := firewall.Packet{LocalAddr: la, RemoteAddr: ra, Protocol: 6, LocalPort: 80, RemotePort: 40000}
						for state := 0; state < 3; state++ {
							fw, err := w.buildFirewall(node, rules)
							if err != nil {
								t.Fatal(err)
							}
							var cache firewall.ConntrackCache
							if state >= 1 {
								fw.addConn(p, incoming) // the tuple is already tracked, e.g. by a genuine flow of another peer
							}
							if state == 2 {
								cache = firewall.ConntrackCache{p: struct{}{}}
							}
							c.observe(node, peer, h, peers, fw, cache, p, incoming, "allow-everything", func() any { return []string{fmt.Sprintf("state=%d", state)} })
						}
					}
				}
			}
		}
	}
	r.Exhaustive(fmt.Sprintf("6 nodes x 9 peers x %d remote x %d local addresses x 2 directions x 3 tracking states under allow-everything rules", len(remotes), len(locals)))
	r.Sample(map[string]any{"remotes": c16Strs(remotes), "locals": c16Strs(locals)})
}

// TestVerifC17Walks runs PRNG histories on one firewall shared by several peers.
func TestVerifC17Walks(t *testing.T) {
	r := verifkit.NewReporter(t, "C17", "walks",
		"PRNG histories of 48 Drop calls on one firewall shared by 2..4 peers (crafted + generated, 1..3 addresses, unsafe networks), rule set = allow-everything (half) or a generated C16 rule set plus optional allow-all-inbound, with or without one routine-local cache shared by all peers (as a routine does), 0..6 tuples pre-seeded into conntrack/cache; each step is a fresh hostile packet (stray, neighbour, other peer's, node's, 4in6-mapped addresses) or the replay of a tuple that already passed for ANOTHER peer / was seeded; distinct = distinct (node, peer shape, remote, local, direction, tracked-state) hashes, classes kept verbatim")
	defer r.Done()
	w := c16NewWorld()
	c := &c17Checker{r: r, w: w}
	nodes := w.nodes()
	pool := c17CraftedPeers(w)
	prng := verifkit.NewRand("C17peers")
	for len(pool) < 40 {
		pool = append(pool, c16GenPeer(prng, w))
	}
	cases := verifkit.Scale(40_000, 2_000_000)
	type tup struct {
		p        firewall.Packet
		incoming bool
		owner    int
	}
	for cs := 0; cs < cases; cs++ {
		if !verifkit.Mine(cs) {
			continue
		}
		rng := verifkit.SubRand("C17walks", cs)
		node := c16Pick(rng, nodes)
		var peers []*c16Peer
		for n := 2 + rng.IntN(3); len(peers) < n; {
			peers = append(peers, c16Pick(rng, pool))
		}
		his := make([]*HostInfo, len(peers))
		for i, p := range peers {
			his[i] = p.hostInfo(node)
		}
		var rules []c16Rule
		desc := "allow-everything"
		if rng.IntN(2) == 0 {
			rules = c17AllowAll()
		} else {
			rules = c16GenRules(rng, w, 4)
			if rng.IntN(2) == 0 {
				rules = append(rules, c17AllowAll()[0])
			}
			desc = fmt.Sprint(rules)
		}
		fw, err := w.buildFirewall(node, rules)
		if err != nil {
			t.Fatal(err)
		}
		var cache firewall.ConntrackCache
		if rng.IntN(3) > 0 {
			cache = firewall.ConntrackCache{}
		}
		var hist []string
		var known []tup
		r.Pre("case %d node=%s rules=%s", cs, node.Label, desc)
		for k := rng.IntN(7); k > 0; k-- {
			pi := rng.IntN(len(peers))
			p, incoming := c17GenPacket(rng, node, peers[pi], peers)
			fw.addConn(p, incoming)
			into := "conntrack"
			if cache != nil && rng.IntN(2) == 0 {
				cache[p] = struct{}{}
				into = "conntrack+cache"
			}
			known = append(known, tup{p, incoming, -1})
			hist = append(hist, fmt.Sprintf("seed %s %v in=%v", into, p, incoming))
		}
		for step := 0; step < 48; step++ {
			pi := rng.IntN(len(peers))
			var p firewall.Packet
			var incoming bool
			if len(known) > 0 && rng.IntN(3) == 0 {
				kt := known[rng.IntN(len(known))]
				p, incoming = kt.p, kt.incoming
				if rng.IntN(2) == 0 {
					incoming = !incoming
				}
				if kt.owner == pi {
					pi = (pi + 1) % len(peers) // somebody else claims the flow
				}
				r.Count("replays_of_known_tuple_by_another_peer", 1)
			} else {
				p, incoming = c17GenPacket(rng, node, peers[pi], peers)
			}
			hist = append(hist, fmt.Sprintf("drop peer=%d %v in=%v", pi, p, incoming))
			if len(hist) > 60 {
				hist = hist[len(hist)-60:]
			}
			if c.observe(node, peers[pi], his[pi], peers, fw, cache, p, incoming, desc, func() any { return append([]string(nil), hist...) }) {
				known = append(known, tup{p, incoming, pi})
			}
		}
		if cs < 2 {
			r.Sample(map[string]any{"node": node.describe(), "peers": []any{peers[0].describe(), peers[1].describe()}, "rules": desc, "history_tail": hist[max(0, len(hist)-6):]})
		}
	}
}

// c17GenPacket is the C16 generator in hostile mode, plus addresses of the other peers and 4in6-mapped forms.
func c17GenPacket(rng *rand.Rand, node *c16Node, peer *c16Peer, others []*c16Peer) (firewall.Packet, bool) {
	p, incoming := c16GenPacket(rng, node, peer, true)
	switch rng.IntN(12) {
	case 0, 1:
		o := c16Pick(rng, others)
		p.RemoteAddr = c16Pick(rng, o.Addrs).Addr()
	case 2:
		o := c16Pick(rng, others)
		if len(o.Unsafe) > 0 {
			p.RemoteAddr = c16Pick(rng, o.Unsafe).Addr().Next()
		}
	case 3:
		p.RemoteAddr = c17Map(p.RemoteAddr)
	case 4:
		p.LocalAddr = c17Map(p.LocalAddr)
	case 5:
		p.RemoteAddr = c16Pick(rng, node.Networks).Addr()
	}
	return p, incoming
}
