package nebula

// C11 — the replay window accepts each counter exactly once when in range.
//
// Reference model (written from the property statement): seen = {0}, max = 0.
// accept(c) <=> c not in seen AND (c > max OR c + W > max)   (integer arithmetic, no wrap)
// on accept: seen += {c}; max = max(max, c).
// Check(c) must equal what Update(c) returns and must not change any state.

import (
	"fmt"
	"log/slog"
	"math"
	"slices"
	"testing"

	"github.com/slackhq/nebula/verifkit"
)

type c11Model struct {
	w    uint64
	max  uint64
	seen map[uint64]struct{}
}

func newC11Model(w uint64) *c11Model {
	return &c11Model{w: w, seen: map[uint64]struct{}{0: {}}}
}

func (m *c11Model) inRange(c uint64) bool {
	if c > m.max {
		return true
	}
	return m.max-c < m.w // c + W > max without overflow
}

func (m *c11Model) accept(c uint64) bool {
	if _, dup := m.seen[c]; dup {
		return false
	}
	return m.inRange(c)
}

func (m *c11Model) update(c uint64) bool {
	if !m.accept(c) {
		return false
	}
	m.seen[c] = struct{}{}
	if c > m.max {
		m.max = c
		// forget what can never matter again (keeps the map small on long walks)
		if len(m.seen) > 4*int(m.w)+64 {
			for k := range m.seen {
				if m.max-k >= m.w && k != 0 {
					delete(m.seen, k)
				}
			}
		}
	}
	return true
}

func (m *c11Model) clone() *c11Model {
	n := &c11Model{w: m.w, max: m.max, seen: make(map[uint64]struct{}, len(m.seen))}
	for k := range m.seen {
		n.seen[k] = struct{}{}
	}
	return n
}

func c11CloneBits(b *Bits) *Bits {
	n := *b
	n.bits = slices.Clone(b.bits)
	return &n
}

func c11StateHash(b *Bits, c uint64) uint64 {
	h := uint64(1469598103934665603)
	mix := func(v uint64) {
		h ^= v
		h *= 1099511628211
		h ^= h >> 29
	}
	mix(b.length)
	mix(b.current)
	for _, w := range b.bits {
		mix(w)
	}
	mix(c)
	return h
}

// c11Key names the witness class of a disagreement.
func c11Key(m *c11Model, c uint64) string {
	if m.max > math.MaxUint64-m.w || c > math.MaxUint64-m.w {
		return "C11/counter-space-end"
	}
	return "C11/window-mismatch"
}

// c11Step applies one counter to the real window and to the model and judges the outcome.
func c11Step(r *verifkit.Reporter, l *slog.Logger, b *Bits, m *c11Model, c uint64, hist func() any) bool {
	want := m.accept(c)
	cur, bitsBefore := b.current, slices.Clone(b.bits)
	chk := b.Check(l, c)
	if b.current != cur || !slices.Equal(b.bits, bitsBefore) {
		r.Violation("C11/check-mutates", fmt.Sprintf("Check(%d) changed window state", c), hist())
		return false
	}
	key := c11Key(m, c)
	upd := b.Update(l, c)
	m.update(c)
	r.Eval(1)
	if chk != want || upd != want {
		r.Violation(key, fmt.Sprintf("W=%d counter=%d: model says accept=%v, Check=%v Update=%v (highest accepted=%d)", m.w, c, want, chk, upd, cur), hist())
		return false
	}
	return true
}

func TestVerifC11Exhaustive(t *testing.T) {
	r := verifkit.NewReporter(t, "C11", "exhaustive",
		"every counter sequence up to length L over the alphabet 0..2W+2 for small windows W (DFS with cloned state); distinct = distinct (window state, next counter) pairs reached")
	defer r.Done()
	l := slog.New(slog.DiscardHandler)
	type cfg struct {
		w      uint64
		length int
	}
	cfgs := []cfg{{1, 8}, {2, 7}, {4, 6}, {8, 5}, {16, 4}, {64, 3}}
	if verifkit.Thorough() {
		cfgs = []cfg{{1, 10}, {2, 9}, {4, 7}, {8, 6}, {16, 5}, {32, 4}, {64, 4}, {128, 3}}
	}
	for _, c := range cfgs {
		alpha := 2*c.w + 3
		seq := make([]uint64, 0, c.length)
		var dfs func(b *Bits, m *c11Model, depth int) bool
		dfs = func(b *Bits, m *c11Model, depth int) bool {
			if depth == c.length {
				return true
			}
			for x := uint64(0); x < alpha; x++ {
				nb, nm := c11CloneBits(b), m.clone()
				seq = append(seq, x)
				r.DistinctU64(c11StateHash(nb, x))
				ok := c11Step(r, l, nb, nm, x, func() any {
					return map[string]any{"window": c.w, "sequence": slices.Clone(seq)}
				})
				if ok {
					ok = dfs(nb, nm, depth+1)
				}
				seq = seq[:len(seq)-1]
				if !ok && r.NViolations() > 3 {
					return false
				}
			}
			return true
		}
		dfs(NewBits(c.w), newC11Model(c.w), 0)
		r.Exhaustive(fmt.Sprintf("W=%d: all sequences of length<=%d over counters 0..%d", c.w, c.length, alpha-1))
		r.Sample(map[string]any{"window": c.w, "max_len": c.length, "alphabet": alpha})
	}
}

func TestVerifC11Walks(t *testing.T) {
	r := verifkit.NewReporter(t, "C11", "walks",
		"PRNG walks on the production 8192-slot window and on 64..1024-slot windows, biased to word boundaries, jumps of W-1/W/W+1/2W, replays of recent and evicted counters, from bases 0, 2^32, 2^63 and the end of the counter space; distinct = distinct (move kind, model verdict, base class, window) classes plus distinct (state, counter) hashes")
	defer r.Done()
	l := slog.New(slog.DiscardHandler)
	rng := verifkit.NewRand("C11walks")
	walks := verifkit.Scale(400, 20000)
	steps := verifkit.Scale(3000, 3000)
	bases := []uint64{0, 0, 0, 1 << 32, 1 << 63, math.MaxUint64 - 3*8192, math.MaxUint64 - 8192 - 2, math.MaxUint64 - 8192, math.MaxUint64 - 100, math.MaxUint64 - 1}
	for wk := 0; wk < walks; wk++ {
		if !verifkit.Mine(wk) {
			rng.Uint64()
			continue
		}
		w := []uint64{ReplayWindow, ReplayWindow, 64, 128, 1024}[rng.IntN(5)]
		base := bases[rng.IntN(len(bases))]
		b, m := NewBits(w), newC11Model(w)
		var hist []uint64
		sub := verifkit.SubRand("C11walk", wk)
		recent := make([]uint64, 0, 64)
		first := true
		for s := 0; s < steps; s++ {
			var c uint64
			kind := sub.IntN(12)
			cur := m.max
			add := func(a, d uint64) uint64 { // saturating
				if a > math.MaxUint64-d {
					return math.MaxUint64
				}
				return a + d
			}
			subf := func(a, d uint64) uint64 {
				if a < d {
					return 0
				}
				return a - d
			}
			switch {
			case first:
				c = base + uint64(sub.IntN(3))
				first = false
				kind = 100
			case kind <= 3:
				c = add(cur, 1)
			case kind == 4:
				c = add(cur, uint64(1+sub.IntN(130)))
			case kind == 5:
				c = add(cur, []uint64{w - 1, w, w + 1, 2 * w, 2*w + 1, 63, 64, 65}[sub.IntN(8)])
			case kind == 6:
				c = subf(cur, uint64(sub.IntN(int(w)+3)))
			case kind == 7:
				c = subf(cur, []uint64{w - 1, w, w + 1, 63, 64, 65, 1, 0}[sub.IntN(8)])
			case kind == 8 && len(recent) > 0:
				c = recent[sub.IntN(len(recent))]
			case kind == 9:
				// word boundary around the current position
				c = (cur &^ 63) + uint64(sub.IntN(3)) - 1
			case kind == 10:
				c = uint64(sub.IntN(int(2*w + 3)))
			default:
				c = add(cur, uint64(sub.IntN(int(3*w))))
			}
			hist = append(hist, c)
			if len(hist) > 400 {
				hist = hist[len(hist)-400:]
			}
			want := m.accept(c)
			cls := "mid"
			if m.max < w {
				cls = "warmup"
			} else if m.max > math.MaxUint64-w {
				cls = "end"
			}
			r.DistinctClass(fmt.Sprintf("w=%d kind=%d accept=%v phase=%s", w, kind, want, cls))
			r.DistinctU64(c11StateHash(b, c))
			if !c11Step(r, l, b, m, c, func() any {
				return map[string]any{"window": w, "base": base, "walk": wk, "last_counters": slices.Clone(hist), "note": "replay by re-running the walk with this seed"}
			}) {
				break
			}
			if len(recent) < cap(recent) {
				recent = append(recent, c)
			} else {
				recent[sub.IntN(len(recent))] = c
			}
		}
		if wk < 3 {
			r.Sample(map[string]any{"window": w, "base": base, "first_counters": slices.Clone(hist[:min(len(hist), 24)])})
		}
	}
}
