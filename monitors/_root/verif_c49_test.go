//go:build e2e_testing

package nebula

// C49 — stopping a node at any point of its life releases everything.
//
// Real nodes (nebula.Main) run inside testing/synctest bubbles on the channel-backed tester udp transport. The overlay
// device is handed to Main through its DeviceFactory parameter: c49Tun (below), or nebula's own disabled tun for nodes
// configured with tun.disabled. A free-running harness "network" (one pump goroutine per node, NOT a node goroutine)
// keeps every node's udp and tun output channels drained and routes udp packets according to a programmable policy
// (deliver / drop / hold), so a node can never park on a full tester channel: those channels are an artefact of the
// transport, not a property of nebula.
//
// Every call into a node (Main, Start, reload, control calls) is made under runtime/pprof goroutine labels
// {"c49node": "<world>/<node>"}; labels are inherited by every goroutine a goroutine creates, so the goroutine profile
// (debug=1 prints the labels of each group) gives per-node attribution with several live nodes in one bubble.
//
// Oracle (from the statement and the documented contract of Control.Stop / Control.Wait):
//   - Stop, and then Wait, return within c49Bound of *virtual* time (the stopper runs on its own goroutine; the harness
//     waits for quiescence, sleeps the bound in fake time, waits for quiescence again: not returned = hang);
//   - at the quiescent point after Wait returned the node owns no goroutine (checked again after a virtual grace period to
//     tell "still running when Wait returned" from "never stops");
//   - every udp writer and the tun device report closed, the node's context is dead;
//   - a further Stop / Wait returns at once, Start is refused, and nothing comes back to life.
//
// Stop points: the phase boundaries of the scenarios below (fault enumeration) and PRNG virtual instants of a C34-like
// stress workload. Because virtual time only advances when everything is idle, concurrency with the stop request is
// created explicitly: at the stop instant the harness releases a burst (traffic on all generators, a reload, held
// packets) and calls Stop after a PRNG number of scheduler yields, without waiting for quiescence.

import (
	"context"
	"encoding/binary"
	"errors"
	"fmt"
	"io"
	"log/slog"
	"math/rand/v2"
	"net/netip"
	"os"
	"reflect"
	"runtime"
	"runtime/pprof"
	"strings"
	"sync"
	"sync/atomic"
	"testing"
	"testing/synctest"
	"time"
	"unsafe"

	"github.com/slackhq/nebula/cert"
	"github.com/slackhq/nebula/config"
	"github.com/slackhq/nebula/header"
	"github.com/slackhq/nebula/overlay"
	"github.com/slackhq/nebula/overlay/tio"
	"github.com/slackhq/nebula/routing"
	"github.com/slackhq/nebula/udp"
	"github.com/slackhq/nebula/verifkit"
	"go.yaml.in/yaml/v3"
)

const (
	c49Bound = 30 * time.Second // virtual time Stop+Wait may take ("promptly", generous)
	c49Grace = 30 * time.Second // virtual time after which a goroutine still alive is "never stops"
)

// ---------------------------------------------------------------------------------------------
// evidence per stop class

type c49ClassStat struct {
	Stops        int     `json:"stops"`
	MinStopMs    float64 `json:"min_stop_virtual_ms"`
	MaxStopMs    float64 `json:"max_stop_virtual_ms"`
	MaxWaitMs    float64 `json:"max_stop_plus_wait_virtual_ms"`
	MinGoBefore  int     `json:"min_goroutines_before"`
	MaxGoBefore  int     `json:"max_goroutines_before"`
	MaxGoAfter   int     `json:"max_goroutines_after"`
	NeededVirtTm int     `json:"stops_that_needed_virtual_time"`
}

type c49Mon struct {
	r        *verifkit.Reporter
	mu       sync.Mutex
	classes  map[string]*c49ClassStat
	seq      atomic.Int64
	stranded atomic.Bool // the current bubble holds goroutines parked for ever (already reported)
}

func (mo *c49Mon) record(class string, stopD, waitD time.Duration, before, after int, neededTime bool) {
	mo.mu.Lock()
	defer mo.mu.Unlock()
	cs := mo.classes[class]
	sm, wm := float64(stopD)/1e6, float64(waitD)/1e6
	if cs == nil {
		cs = &c49ClassStat{MinStopMs: sm, MinGoBefore: before}
		mo.classes[class] = cs
	}
	cs.Stops++
	cs.MinStopMs = min(cs.MinStopMs, sm)
	cs.MaxStopMs = max(cs.MaxStopMs, sm)
	cs.MaxWaitMs = max(cs.MaxWaitMs, wm)
	cs.MinGoBefore = min(cs.MinGoBefore, before)
	cs.MaxGoBefore = max(cs.MaxGoBefore, before)
	cs.MaxGoAfter = max(cs.MaxGoAfter, after)
	if neededTime {
		cs.NeededVirtTm++
	}
}

// ---------------------------------------------------------------------------------------------
// the world: nodes + free-running network

const (
	c49Deliver = iota
	c49Drop
	c49Hold
)

type c49World struct {
	t     *testing.T
	mo    *c49Mon
	r     *verifkit.Reporter
	name  string
	tag   string
	rng   *rand.Rand
	ca    *vnCA
	nodes []*c49Node

	mu     sync.Mutex
	byAddr map[netip.AddrPort]*c49Node
	policy func(from *c49Node, h *header.H, hok bool, p *udp.Packet) int
	held   []*udp.Packet

	stopPumps chan struct{}
	pumpWg    sync.WaitGroup

	genCtx    context.Context
	genCancel context.CancelFunc
	genWg     sync.WaitGroup
	burst     atomic.Pointer[chan struct{}]

	udpMoved, udpDropped, relayFwd, tunInjected, reloadsDone, chaosOps atomic.Int64
	stranded                                                           bool
}

type c49Node struct {
	*vnNode
	w           *c49World
	label       string
	role        string
	gate        sync.Mutex
	off         bool // no new harness-initiated work (tun injection, reload, control calls) for this node
	tunOut      atomic.Int64
	inReload    atomic.Int32
	sent        atomic.Int64
	checked     bool
	paused      atomic.Bool   // the underlay does not take this node's udp output for now (a send buffer that is full)
	wake        chan struct{} // kicks the pump after paused changed
	dev         *c49Tun       // nil when the node runs nebula's own disabled tun
	disabledTun bool
}

// c49Tun is the overlay device handed to nebula.Main through its DeviceFactory parameter. It is channel-backed like the
// repository's TestTun but never closes its data channels: Close closes a done channel that Read, Write and the harness's
// Send select on. (TestTun.Close closes the packet channels, so a Write or Send that overlaps with Close panics with
// "send on closed channel" and is reported by the race detector - an artefact of that test transport, see the report.)
// A Read after Close fails at once, like a read on a closed descriptor.
type c49Tun struct {
	nets   []netip.Prefix
	rx     chan []byte // into nebula
	tx     chan []byte // out of nebula
	done   chan struct{}
	once   sync.Once
	closes atomic.Int32
	reads  atomic.Int64 // frames nebula took
	writes atomic.Int64 // frames nebula delivered
}

func c49NewTun(nets []netip.Prefix) *c49Tun {
	return &c49Tun{nets: nets, rx: make(chan []byte, 10), tx: make(chan []byte, 10), done: make(chan struct{})}
}

func (t *c49Tun) isClosed() bool {
	select {
	case <-t.done:
		return true
	default:
		return false
	}
}

// Send hands a frame to nebula; false when the device is closed.
func (t *c49Tun) Send(pkt []byte) bool {
	b := append([]byte(nil), pkt...)
	select {
	case <-t.done:
		return false
	case t.rx <- b:
		return true
	}
}

func (t *c49Tun) Read(b []byte) (int, error) {
	if t.isClosed() {
		return 0, os.ErrClosed
	}
	select {
	case <-t.done:
		return 0, os.ErrClosed
	case p := <-t.rx:
		t.reads.Add(1)
		return copy(b, p), nil
	}
}

func (t *c49Tun) Write(b []byte) (int, error) {
	if t.isClosed() {
		return 0, io.ErrClosedPipe
	}
	p := append([]byte(nil), b...)
	select {
	case <-t.done:
		return 0, io.ErrClosedPipe
	case t.tx <- p:
		t.writes.Add(1)
		return len(b), nil
	}
}

func (t *c49Tun) Close() error {
	t.closes.Add(1)
	t.once.Do(func() { close(t.done) })
	return nil
}

func (t *c49Tun) Activate() error                       { return nil }
func (t *c49Tun) Networks() []netip.Prefix              { return t.nets }
func (t *c49Tun) Name() string                          { return "c49tun" }
func (t *c49Tun) RoutesFor(netip.Addr) routing.Gateways { return routing.Gateways{} }
func (t *c49Tun) Queues(int) ([]tio.Queue, error) {
	return []tio.Queue{tio.NewSingleQueue(t, udp.MTU)}, nil
}

func c49NewWorld(t *testing.T, mo *c49Mon, name string, rng *rand.Rand) *c49World {
	w := &c49World{t: t, mo: mo, r: mo.r, name: name, rng: rng, byAddr: map[netip.AddrPort]*c49Node{}, stopPumps: make(chan struct{})}
	w.tag = fmt.Sprintf("%s#%d", name, mo.seq.Add(1))
	curve := cert.Curve_CURVE25519
	if rng.IntN(4) == 0 {
		curve = cert.Curve_P256
	}
	w.ca = vnNewCA(cert.Version2, curve)
	w.genCtx, w.genCancel = context.WithCancel(context.Background())
	ch := make(chan struct{})
	w.burst.Store(&ch)
	return w
}

func (n *c49Node) do(f func()) {
	pprof.Do(context.Background(), pprof.Labels("c49node", n.label), func(context.Context) { f() })
}

// add builds a node with nebula.Main under the node's label and starts its pump. The node is not started.
func (w *c49World) add(name, role, nets, addr string, over m) *c49Node {
	id := w.ca.issue([]cert.Version{cert.Version2}, name, nets, "", []string{role})
	n := &c49Node{w: w, label: w.tag + "/" + name, role: role, wake: make(chan struct{}, 1)}
	ap := netip.MustParseAddrPort(addr)
	mc := vnBaseConfig(id, []*vnCA{w.ca}, ap)
	if over != nil {
		mc = vnMerge(mc, over)
	}
	cb, err := yaml.Marshal(mc)
	if err != nil {
		panic(err)
	}
	l := vnLogger()
	c := config.NewC(l)
	if err := c.LoadString(string(cb)); err != nil {
		panic(err)
	}
	var factory overlay.DeviceFactory = func(_ *config.C, _ *slog.Logger, nets []netip.Prefix, _ int) (overlay.Device, error) {
		n.dev = c49NewTun(nets)
		return n.dev, nil
	}
	if c.GetBool("tun.disabled", false) {
		// the production device for nodes without a tun (lighthouses): channel-backed, no system calls, fine in a bubble
		factory = nil
		n.disabledTun = true
	}
	n.do(func() {
		ctrl, err := Main(c, false, "verif", l, factory)
		if err != nil {
			panic(fmt.Sprintf("Main(%s): %v", name, err))
		}
		n.vnNode = &vnNode{Name: name, C: ctrl, F: ctrl.f, Cfg: c, Addr: ap, Ident: id}
	})
	a := n.Addr.Addr()
	n.C.SetLocalAddrsFn(func(*LocalAllowList) []netip.Addr { return []netip.Addr{a} })
	w.mu.Lock()
	w.byAddr[n.Addr] = n
	w.mu.Unlock()
	w.nodes = append(w.nodes, n)
	w.pumpWg.Add(1)
	go w.pump(n)
	return n
}

func (n *c49Node) start() {
	n.do(func() { n.Start() })
}

func (w *c49World) pump(n *c49Node) {
	defer w.pumpWg.Done()
	utx := n.udp().TxPackets
	var ttx chan []byte
	if n.dev != nil {
		ttx = n.dev.tx
	}
	for {
		u := utx
		if n.paused.Load() {
			u = nil
		}
		select {
		case <-w.stopPumps:
			return
		case <-n.wake:
		case p := <-u:
			w.route(n, p)
		case <-ttx:
			n.tunOut.Add(1)
		}
	}
}

func (w *c49World) route(from *c49Node, p *udp.Packet) {
	var h header.H
	hok := h.Parse(p.Data) == nil
	w.udpMoved.Add(1)
	if hok && h.Type == header.Message && h.Subtype == header.MessageRelay && from.role == "relay" {
		w.relayFwd.Add(1)
	}
	w.mu.Lock()
	v := c49Deliver
	if w.policy != nil {
		v = w.policy(from, &h, hok, p)
	}
	if v == c49Hold {
		w.held = append(w.held, p)
		w.mu.Unlock()
		return
	}
	dst := w.byAddr[p.To]
	w.mu.Unlock()
	if v == c49Drop || dst == nil {
		p.Release()
		w.udpDropped.Add(1)
		return
	}
	w.deliver(dst, p)
}

func (w *c49World) deliver(dst *c49Node, p *udp.Packet) {
	select {
	case dst.udp().RxPackets <- p:
	default:
		p.Release() // receiver queue full: the network drops
		w.udpDropped.Add(1)
	}
}

// slowUnderlay(true) stops taking the node's udp output: its writers park once the (ten-slot) socket queue is full, like
// on a blocking socket whose send buffer does not drain. slowUnderlay(false) lets it drain again.
func (n *c49Node) slowUnderlay(on bool) {
	n.paused.Store(on)
	select {
	case n.wake <- struct{}{}:
	default:
	}
}

// parkedIn counts the node's goroutines (by entry function) that have fn on their stack.
func (n *c49Node) parkedIn(fn string) map[string]int {
	out := map[string]int{}
	_, groups := c49Alive(n.label, false)
	for _, g := range groups {
		for _, f := range g.Funcs {
			if strings.HasSuffix(f, fn) {
				s := g.sig()
				out[s[strings.Index(s, "<-")+2:]] += g.N
				break
			}
		}
	}
	return out
}

func (w *c49World) setPolicy(f func(from *c49Node, h *header.H, hok bool, p *udp.Packet) int) {
	w.mu.Lock()
	w.policy = f
	w.mu.Unlock()
}

func (w *c49World) takeHeld() []*udp.Packet {
	w.mu.Lock()
	defer w.mu.Unlock()
	h := w.held
	w.held = nil
	return h
}

func (w *c49World) releaseHeld() int {
	k := 0
	for _, p := range w.takeHeld() {
		w.mu.Lock()
		dst := w.byAddr[p.To]
		w.mu.Unlock()
		if dst == nil {
			p.Release()
			continue
		}
		w.deliver(dst, p)
		k++
	}
	return k
}

// tunSend injects a tun frame; false once the device is closed. Injection is not fenced against the stop request: frames
// keep arriving while the node goes down.
func (n *c49Node) tunSend(pkt []byte) bool {
	if n.dev == nil || !n.dev.Send(pkt) {
		return false
	}
	n.w.tunInjected.Add(1)
	return true
}

// ctl runs a control-plane call into the node (labelled) unless its stop was already requested. The call in flight when
// the stop is requested overlaps with it.
func (n *c49Node) ctl(f func()) bool {
	n.gate.Lock()
	if n.off {
		n.gate.Unlock()
		return false
	}
	n.inReload.Add(1)
	n.gate.Unlock()
	n.do(f)
	n.inReload.Add(-1)
	return true
}

func (n *c49Node) sendTo(dst netip.Addr, k int) {
	for i := 0; i < k; i++ {
		pkt, _ := vnUDP4(n.Ident.Addr(), dst, uint16(2000+i), 80, int(n.sent.Add(1)*37%200))
		n.tunSend(pkt)
	}
}

func (n *c49Node) hasTunnel(to netip.Addr) bool {
	return n.F.hostMap.QueryVpnAddr(to) != nil
}

func (n *c49Node) pendingCount() int {
	hm := n.F.handshakeManager
	hm.RLock()
	defer hm.RUnlock()
	return len(hm.vpnIps)
}

// advanceUntil moves virtual time in steps until cond holds (bounded); returns whether it held.
func (w *c49World) advanceUntil(step time.Duration, steps int, cond func() bool) bool {
	for i := 0; i < steps; i++ {
		synctest.Wait()
		if cond() {
			return true
		}
		time.Sleep(step)
	}
	synctest.Wait()
	return cond()
}

// fireBurst wakes every generator / reloader for one burst.
func (w *c49World) fireBurst() {
	nch := make(chan struct{})
	old := w.burst.Swap(&nch)
	close(*old)
}

// traffic starts a generator src->dst: a packet every few virtual ms, and a back-to-back burst when fireBurst is called.
func (w *c49World) traffic(src *c49Node, dst netip.Addr, k int) { w.trafficKind(src, dst, k, false) }

// c49Ping builds an ICMPv4 echo request (what a node without a tun answers by itself).
func c49Ping(src, dst netip.Addr, seq uint16, extra int) []byte {
	b := make([]byte, 28+extra)
	b[0] = 0x45
	binary.BigEndian.PutUint16(b[2:], uint16(len(b)))
	b[8] = 64
	b[9] = 1
	s4, d4 := src.As4(), dst.As4()
	copy(b[12:16], s4[:])
	copy(b[16:20], d4[:])
	b[20] = 8
	binary.BigEndian.PutUint16(b[24:], 0x4949)
	binary.BigEndian.PutUint16(b[26:], seq)
	return b
}

func (w *c49World) trafficKind(src *c49Node, dst netip.Addr, k int, ping bool) {
	w.genWg.Add(1)
	rng := rand.New(rand.NewPCG(w.rng.Uint64(), uint64(k)))
	go func() {
		defer w.genWg.Done()
		for {
			b := *w.burst.Load()
			tm := time.NewTimer(time.Duration(3+rng.IntN(40)) * time.Millisecond)
			n := 1
			select {
			case <-w.genCtx.Done():
				tm.Stop()
				return
			case <-b:
				tm.Stop()
				n = 60 + rng.IntN(200) // long enough to still be running while the node goes down
			case <-tm.C:
			}
			for i := 0; i < n; i++ {
				var pkt []byte
				if ping {
					pkt = c49Ping(src.Ident.Addr(), dst, uint16(i), rng.IntN(300))
				} else {
					pkt, _ = vnUDP4(src.Ident.Addr(), dst, uint16(1000+k), uint16(80+rng.IntN(3)), rng.IntN(300))
				}
				if !src.tunSend(pkt) {
					return
				}
			}
		}
	}()
}

// reloader applies configuration changes through the real reload path: on every burst and every few hundred virtual ms.
func (w *c49World) reloader(n *c49Node, k int, onlyBurst bool) {
	w.genWg.Add(1)
	rng := rand.New(rand.NewPCG(w.rng.Uint64(), uint64(k)+77))
	go func() {
		defer w.genWg.Done()
		gen := 0
		for {
			b := *w.burst.Load()
			d := time.Duration(150+rng.IntN(500)) * time.Millisecond
			if onlyBurst {
				d = time.Hour
			}
			tm := time.NewTimer(d)
			select {
			case <-w.genCtx.Done():
				tm.Stop()
				return
			case <-b:
				tm.Stop()
			case <-tm.C:
			}
			gen++
			ch := c49ReloadChange(rng, gen, n.role == "lighthouse")
			if !n.ctl(func() { n.Reload(ch) }) {
				return
			}
			w.reloadsDone.Add(1)
		}
	}()
}

// c49ReloadChange picks a reloadable change. The firewall is left alone: replacing it races with the packet routines
// (known finding C34/race:firewall-pointer-replaced-on-reload-without-synchronisation) and this unit runs under -race.
func c49ReloadChange(rng *rand.Rand, gen int, lighthouse bool) m {
	switch rng.IntN(7) {
	case 0:
		return m{"preferred_ranges": []string{fmt.Sprintf("192.0.%d.0/24", gen%4)}}
	case 1:
		return m{"punchy": m{"punch": gen%2 == 0, "respond": gen%3 == 0, "delay": fmt.Sprintf("%dms", 100+gen%5*100)}}
	case 2:
		return m{"tunnels": m{"drop_inactive": gen%2 == 0, "inactivity_timeout": fmt.Sprintf("%ds", 3+gen%5)}}
	case 3:
		return m{"listen": m{"send_recv_error": []string{"always", "never", "private"}[gen%3], "accept_recv_error": []string{"always", "never", "private"}[(gen/3)%3]}}
	case 4:
		return m{"counters": m{"try_promote": 1 + gen%7, "requery_every_packets": 5 + gen%11}, "timers": m{"requery_wait_duration": fmt.Sprintf("%dms", 100+gen%9*50)}}
	default:
		if lighthouse {
			return m{"lighthouse": m{"remote_allow_list": m{"0.0.0.0/0": true, fmt.Sprintf("203.0.113.%d/32", gen%200): false}}}
		}
		// a changed interval cancels the update worker and starts a new one
		return m{"lighthouse": m{"interval": 1 + gen%4, "remote_allow_list": m{"0.0.0.0/0": true, fmt.Sprintf("203.0.113.%d/32", gen%200): false}}}
	}
}

// chaos: tunnel churn, re-handshakes, rebinds against PRNG peers.
func (w *c49World) chaos(n *c49Node, k int) {
	w.genWg.Add(1)
	rng := rand.New(rand.NewPCG(w.rng.Uint64(), uint64(k)+1234))
	go func() {
		defer w.genWg.Done()
		for {
			b := *w.burst.Load()
			tm := time.NewTimer(time.Duration(200+rng.IntN(800)) * time.Millisecond)
			select {
			case <-w.genCtx.Done():
				tm.Stop()
				return
			case <-b:
				tm.Stop()
			case <-tm.C:
			}
			o := w.nodes[rng.IntN(len(w.nodes))]
			if o == n {
				continue
			}
			ok := true
			switch rng.IntN(5) {
			case 0:
				ok = n.ctl(func() { n.C.CloseTunnel(o.Ident.Addr(), rng.IntN(2) == 0) })
			case 1:
				ok = n.ctl(func() { n.C.ReHandshake(o.Ident.Addr()) })
			case 2:
				ok = n.ctl(func() { n.C.RebindUDPServer() })
			case 3:
				ok = n.ctl(func() { n.C.CloseAllTunnels(rng.IntN(2) == 0) })
			default:
				// only the main hostmap: listing the pending one races with the handshake manager (see the report; a C34 matter)
				ok = n.ctl(func() { n.C.ListHostmapHosts(false) })
			}
			if !ok {
				return
			}
			w.chaosOps.Add(1)
		}
	}()
}

// ---------------------------------------------------------------------------------------------
// the stop under test

const (
	c49Single = iota
	c49Twice
	c49Concurrent
	c49WaitFirst
	c49NModes
)

var c49ModeNames = []string{"stop,wait", "stop,stop,wait", "2x(stop,wait) concurrently", "wait-first then stop,wait"}

func c49ClosedChan(conn udp.Conn) (closed, ok bool) {
	tc, isT := conn.(*udp.TesterConn)
	if !isT {
		return false, false
	}
	v := reflect.ValueOf(tc).Elem().FieldByName("done")
	if !v.IsValid() || v.Kind() != reflect.Chan {
		return false, false
	}
	ch := *(*chan struct{})(unsafe.Pointer(v.UnsafeAddr()))
	select {
	case <-ch:
		return true, true
	default:
		return false, true
	}
}

type c49StopOpts struct {
	mode     int
	yields   int    // scheduler yields between the burst and the Stop call
	noBurst  bool   // do not fire a burst right before Stop
	inflight bool   // after the burst, yield until a control call (reload) into the node is in flight (bounded)
	preStop  func() // runs right before the Stop call (after the burst), on the harness goroutine
	lateWork func() // runs after the node stopped and was checked: work arriving for a dead node
	also     chan struct{}
}

// stop requests the stop of n at the current point, applies the oracle and records evidence under class.
// It returns false when the node could not be brought down even by rescue (its goroutines stay parked; the bubble then ends
// with the runtime's deadlock panic, which c49Bubble expects after a reported stranding).
func (w *c49World) stop(n *c49Node, class string, o c49StopOpts) bool {
	r := w.r
	if n.checked {
		return true
	}
	n.checked = true
	r.Pre("world=%s node=%s class=%s mode=%s", w.tag, n.Name, class, c49ModeNames[o.mode])
	rec := func(extra map[string]any) map[string]any {
		out := map[string]any{"world": w.tag, "node": n.Name, "role": n.role, "class": class, "mode": c49ModeNames[o.mode], "virtual_now": time.Now().Format(time.RFC3339Nano), "started": n.started}
		for k, v := range extra {
			out[k] = v
		}
		return out
	}

	before, _ := c49Alive(n.label, false)
	// no new harness-initiated control calls for this node; whatever is in flight overlaps with the stop
	if !o.noBurst {
		w.fireBurst()
	}
	if o.inflight {
		for i := 0; i < 200000 && n.inReload.Load() == 0; i++ {
			runtime.Gosched()
		}
	}
	for i := 0; i < o.yields; i++ {
		runtime.Gosched()
	}
	n.gate.Lock()
	n.off = true
	inflight := n.inReload.Load()
	n.gate.Unlock()
	if inflight > 0 {
		r.Count("stops_with_control_call_in_flight", 1)
	}
	if o.preStop != nil {
		o.preStop()
	}
	t0 := time.Now()
	var reads0, writes0 int64
	if n.dev != nil {
		reads0, writes0 = n.dev.reads.Load(), n.dev.writes.Load()
	}

	var mu sync.Mutex
	var stopD, waitD time.Duration
	var stopsReturned, stopsCalled, waitsReturned, waitsCalled int
	mark := func(d *time.Duration, cnt *int) {
		mu.Lock()
		*d = max(*d, time.Since(t0))
		*cnt++
		mu.Unlock()
	}
	called := func(cnt *int) {
		mu.Lock()
		*cnt++
		mu.Unlock()
	}
	var wg sync.WaitGroup
	stopper := func(f func()) {
		wg.Add(1)
		go func() {
			defer wg.Done()
			pprof.Do(context.Background(), pprof.Labels("c49node", n.label, "c49role", "stopper"), func(context.Context) { f() })
		}()
	}
	doStop := func() { called(&stopsCalled); n.C.Stop(); mark(&stopD, &stopsReturned) }
	doWait := func() { called(&waitsCalled); n.C.Wait(); mark(&waitD, &waitsReturned) }
	switch o.mode {
	case c49Single:
		stopper(func() { doStop(); doWait() })
	case c49Twice:
		stopper(func() { doStop(); doStop(); doWait() })
	case c49Concurrent:
		stopper(func() { doStop(); doWait() })
		stopper(func() { doStop(); doWait() })
	case c49WaitFirst:
		stopper(func() { doWait() })
		runtime.Gosched()
		stopper(func() { doStop(); doWait() })
	}
	done := make(chan struct{})
	go func() { wg.Wait(); close(done) }()

	isDone := func() bool {
		select {
		case <-done:
			return true
		default:
			return false
		}
	}
	r.Eval(1)
	r.DistinctClass(class)
	r.Count("stops", 1)
	r.Count("mode."+c49ModeNames[o.mode], 1)
	synctest.Wait()
	needed := false
	if !isDone() {
		// everything is durably blocked and the stop has not completed: it waits for virtual time, or for ever
		needed = true
		time.Sleep(c49Bound)
		synctest.Wait()
	}
	if !isDone() {
		_, groups := c49Alive(n.label, true)
		_, own := c49Alive(n.label, false)
		mu.Lock()
		which := "wait-never-returns"
		if stopsReturned < stopsCalled {
			which = "stop-never-returns"
		}
		mu.Unlock()
		key := "C49/goroutine-never-stops:" + strings.Join(c49Leafs(own), ",")
		if len(own) == 0 {
			key = "C49/wait-never-returns-although-no-goroutine-is-left"
		}
		if which == "stop-never-returns" {
			key = "C49/stop-never-returns:" + strings.Join(c49Leafs(groups), ",")
		}
		r.Violation(key, fmt.Sprintf("%s node %s (%s): %s after %v of virtual time with every goroutine durably blocked; node goroutines still alive: %v", class, n.Name, c49ModeNames[o.mode], which, c49Bound, c49Sigs(own)),
			rec(map[string]any{"node_goroutines": c49Dump(groups), "goroutines_before": before, "full_dump": c49FullDump()}))
		w.mo.record(class, c49Bound, c49Bound, before, len(own), true)
		return w.rescue(n, done)
	}
	if n.dev != nil {
		if d := n.dev.reads.Load() - reads0; d > 0 {
			r.Count("stops_overlapping_tun_input", 1)
			r.Count("tun_frames_taken_after_stop_request", int(d))
		}
		if d := n.dev.writes.Load() - writes0; d > 0 {
			r.Count("stops_overlapping_tun_output", 1)
		}
	}
	if needed {
		r.Count("stops_that_needed_virtual_time", 1)
	}

	// the node must own no goroutine now that Wait has returned
	synctest.Wait()
	after, groups := c49Alive(n.label, true)
	okAll := true
	if after > 0 {
		time.Sleep(c49Grace)
		synctest.Wait()
		after2, groups2 := c49Alive(n.label, true)
		if after2 > 0 {
			r.Violation("C49/goroutine-never-stops:"+strings.Join(c49Leafs(groups2), ","),
				fmt.Sprintf("%s node %s: Stop and Wait returned but %d goroutine(s) of the node are still alive %v of virtual time later: %v", class, n.Name, after2, c49Grace, c49Sigs(groups2)),
				rec(map[string]any{"node_goroutines": c49Dump(groups2), "goroutines_before": before}))
			okAll = w.rescue(n, nil)
		} else {
			r.Violation("C49/goroutine-still-running-when-wait-returned:"+strings.Join(c49Leafs(groups), ","),
				fmt.Sprintf("%s node %s: %d goroutine(s) of the node were still alive at the quiescent point after Stop and Wait returned (gone %v of virtual time later): %v", class, n.Name, after, c49Grace, c49Sigs(groups)),
				rec(map[string]any{"node_goroutines": c49Dump(groups), "goroutines_before": before}))
		}
	}
	w.mo.record(class, stopD, waitD, before, after, needed)

	// sockets and devices
	for i, u := range n.F.writers {
		if u == nil {
			continue
		}
		closed, known := c49ClosedChan(u)
		if !known {
			r.Inconclusive("cannot observe the closed state of the tester udp conn")
		} else if !closed {
			r.Violation("C49/udp-socket-open-after-stop", fmt.Sprintf("%s node %s: udp writer %d is not closed after Stop and Wait returned", class, n.Name, i), rec(nil))
		} else {
			r.Count("udp_conns_seen_closed", 1)
		}
	}
	if n.dev == nil {
		// nebula's own disabled tun has no observable closed state; what matters (its readers are gone) is checked above
		r.Count("stops_of_nodes_with_nebulas_disabled_tun", 1)
	} else if !n.dev.isClosed() {
		r.Violation("C49/tun-open-after-stop", fmt.Sprintf("%s node %s: the overlay device was not closed although Stop and Wait returned (Close calls: %d)", class, n.Name, n.dev.closes.Load()), rec(nil))
	} else {
		r.Count("tun_devices_seen_closed", 1)
	}
	if n.C.Context().Err() == nil {
		r.Violation("C49/context-alive-after-stop", fmt.Sprintf("%s node %s: Control.Context() is not cancelled after Stop", class, n.Name), rec(nil))
	}
	if st := n.C.State(); st != StateStopped {
		r.Violation("C49/state-not-stopped", fmt.Sprintf("%s node %s: state %d after Stop and Wait", class, n.Name, st), rec(nil))
	}

	// work arriving for the dead node, then a further Stop / Wait / Start
	if o.lateWork != nil {
		o.lateWork()
	}
	var startErr error
	again := make(chan struct{})
	go func() {
		defer close(again)
		n.do(func() {
			n.C.Stop()
			n.C.Wait()
			startErr = n.C.Start()
			n.C.Stop()
		})
	}()
	synctest.Wait()
	select {
	case <-again:
		if !errors.Is(startErr, ErrAlreadyStopped) {
			r.Violation("C49/start-after-stop-not-refused", fmt.Sprintf("%s node %s: Start after Stop returned %v", class, n.Name, startErr), rec(nil))
		}
		r.Count("second_stops", 1)
	default:
		_, g := c49Alive(n.label, true)
		r.Violation("C49/second-stop-blocks", fmt.Sprintf("%s node %s: Stop/Wait/Start on the stopped node did not return", class, n.Name), rec(map[string]any{"node_goroutines": c49Dump(g)}))
		return false
	}
	time.Sleep(time.Second)
	synctest.Wait()
	if k, g := c49Alive(n.label, true); k > 0 {
		r.Violation("C49/goroutine-after-second-stop:"+strings.Join(c49Leafs(g), ","), fmt.Sprintf("%s node %s: %d goroutine(s) alive after late work / second Stop on the stopped node: %v", class, n.Name, k, c49Sigs(g)), rec(map[string]any{"node_goroutines": c49Dump(g)}))
		okAll = w.rescue(n, nil) && okAll
	}
	return okAll
}

// rescue tries to get a node that did not stop cleanly out of the way so that the bubble can end: close the devices,
// cancel the context, and let anything blocked on the lighthouse query / handshake trigger queues through.
func (w *c49World) rescue(n *c49Node, done chan struct{}) bool {
	n.C.cancel()
	for _, u := range n.F.writers {
		if u != nil {
			u.Close()
		}
	}
	n.F.inside.Close()
	stopDrain := make(chan struct{})
	drained := make(chan struct{})
	go func() {
		defer close(drained)
		for {
			select {
			case <-stopDrain:
				return
			case <-n.F.lightHouse.queryChan:
			case <-n.F.handshakeManager.trigger:
			}
		}
	}()
	synctest.Wait()
	time.Sleep(c49Grace)
	synctest.Wait()
	close(stopDrain)
	<-drained
	k, _ := c49Alive(n.label, true)
	if k > 0 {
		// Nothing more can be done for these goroutines. They do no harm to what follows: virtual time stops when the bubble's
		// main goroutine returns, and the bubble then ends with the runtime's deadlock panic, which c49Bubble expects.
		w.r.Count("nodes_left_stranded", 1)
		w.mo.stranded.Store(true)
		w.stranded = true
		return false
	}
	w.r.Count("rescued_nodes", 1)
	return true
}

// finish stops every remaining node (each under the oracle, class "<scenario>/remaining-<role>"), then the harness.
func (w *c49World) finish(scn string) {
	ok := true
	for _, n := range w.nodes {
		if n.checked {
			continue
		}
		cl := scn + "/remaining-" + n.role
		if !n.started {
			cl += "-never-started"
		}
		if !w.stop(n, cl, c49StopOpts{mode: w.rng.IntN(c49NModes), yields: w.rng.IntN(20)}) {
			ok = false
		}
	}
	w.genCancel()
	w.fireBurst()
	w.genWg.Wait()
	for _, p := range w.takeHeld() {
		p.Release()
	}
	close(w.stopPumps)
	w.pumpWg.Wait()
	synctest.Wait()
	if !ok || w.stranded {
		return
	}
	// nothing created on behalf of this world may be left in the bubble
	for _, g := range c49Profile() {
		if strings.HasPrefix(g.node(), w.tag+"/") {
			w.r.Violation("C49/goroutine-left-at-end-of-scenario:"+g.sig(), fmt.Sprintf("%s: goroutine %s (%s) alive after every node was stopped", w.tag, g.sig(), g.Labels), map[string]any{"world": w.tag, "goroutine": g.Text})
			w.mo.stranded.Store(true)
		}
	}
	w.r.Count("udp_packets_moved", int(w.udpMoved.Load()))
	w.r.Count("tun_packets_injected", int(w.tunInjected.Load()))
	w.r.Count("relay_packets_forwarded", int(w.relayFwd.Load()))
	w.r.Count("config_reloads", int(w.reloadsDone.Load()))
	w.r.Count("chaos_ops", int(w.chaosOps.Load()))
}

// ---------------------------------------------------------------------------------------------
// topologies

func c49Static(peers ...*[2]string) m {
	sm := m{}
	for _, p := range peers {
		sm[p[0]] = []string{p[1]}
	}
	return m{"static_host_map": sm}
}

// pair: a and b know each other's underlay address statically.
func (w *c49World) pair(extraA, extraB m, startNodes bool) (a, b *c49Node) {
	oa := vnMerge(c49Static(&[2]string{"10.1.0.2", "192.0.2.2:4242"}), extraA)
	ob := vnMerge(c49Static(&[2]string{"10.1.0.1", "192.0.2.1:4242"}), extraB)
	a = w.add("a", "peer", "10.1.0.1/16", "192.0.2.1:4242", oa)
	b = w.add("b", "peer", "10.1.0.2/16", "192.0.2.2:4242", ob)
	if startNodes {
		a.start()
		b.start()
	}
	return
}

// triangle: a reaches b only through relay r.
func (w *c49World) triangle(extra m) (a, r, b *c49Node) {
	use := vnMerge(m{"relay": m{"use_relays": true}}, extra)
	am := vnMerge(m{"relay": m{"am_relay": true}}, extra)
	a = w.add("a", "peer", "10.1.0.1/16", "192.0.2.1:4242", use)
	r = w.add("r", "relay", "10.1.0.128/16", "192.0.2.128:4242", am)
	b = w.add("b", "peer", "10.1.0.2/16", "192.0.2.2:4242", use)
	a.C.InjectLightHouseAddr(r.Ident.Addr(), r.Addr)
	a.C.InjectRelays(b.Ident.Addr(), []netip.Addr{r.Ident.Addr()})
	r.C.InjectLightHouseAddr(b.Ident.Addr(), b.Addr)
	r.C.InjectLightHouseAddr(a.Ident.Addr(), a.Addr)
	b.C.InjectLightHouseAddr(r.Ident.Addr(), r.Addr)
	b.C.InjectRelays(a.Ident.Addr(), []netip.Addr{r.Ident.Addr()})
	a.start()
	r.start()
	b.start()
	return
}

// mesh: lighthouse + k peers that learn about each other only through it. peers[0] is also the relay.
func (w *c49World) mesh(k int, extra m, startLH bool) (l *c49Node, peers []*c49Node) {
	l = w.add("lh", "lighthouse", "10.1.0.100/16", "192.0.2.100:4242", vnMerge(m{"lighthouse": m{"am_lighthouse": true}}, extra))
	for i := 0; i < k; i++ {
		over := m{
			"lighthouse":      m{"hosts": []string{"10.1.0.100"}, "interval": 2},
			"static_host_map": m{"10.1.0.100": []string{"192.0.2.100:4242"}},
			"relay":           m{"relays": []string{"10.1.0.1"}, "use_relays": true},
			"punchy":          m{"punch": true, "respond": true},
			"firewall":        m{"conntrack": m{"routine_cache_timeout": "100ms"}},
		}
		role := "peer"
		if i == 0 {
			over["relay"] = m{"am_relay": true}
			role = "relay"
		}
		nets := fmt.Sprintf("10.1.0.%d/16", i+1)
		if i == 2 {
			nets += ",10.1.1.3/16"
		}
		peers = append(peers, w.add(fmt.Sprintf("p%d", i+1), role, nets, fmt.Sprintf("192.0.2.%d:4242", i+1), vnMerge(over, extra)))
	}
	if startLH {
		l.start()
	}
	for _, p := range peers {
		p.start()
	}
	return
}

// ---------------------------------------------------------------------------------------------
// scenarios. Each returns after w.finish.

type c49Case struct {
	scn, phase string
	run        func(w *c49World, class string)
}

func c49Opts(w *c49World) c49StopOpts {
	return c49StopOpts{mode: w.rng.IntN(c49NModes), yields: w.rng.IntN(40)}
}

var c49NodeVariants = []struct {
	name string
	over m
}{
	{"plain", nil},
	{"lighthouse-client", m{"lighthouse": m{"hosts": []string{"10.1.0.100"}, "interval": 1}, "static_host_map": m{"10.1.0.100": []string{"192.0.2.100:4242"}}}},
	{"am-lighthouse", m{"lighthouse": m{"am_lighthouse": true}}},
	{"am-relay", m{"relay": m{"am_relay": true}}},
	{"routines-2", m{"routines": 2}},
	{"punchy-conntrack-cache", m{"punchy": m{"punch": true, "respond": true}, "firewall": m{"conntrack": m{"routine_cache_timeout": "50ms"}}}},
	{"tun-disabled", m{"tun": m{"disabled": true}}},
	{"tun-disabled-am-lighthouse-routines-2", m{"tun": m{"disabled": true}, "lighthouse": m{"am_lighthouse": true}, "routines": 2}},
	{"query-buffer-0", m{"handshakes": m{"query_buffer": 0, "trigger_buffer": 1}, "lighthouse": m{"hosts": []string{"10.1.0.100"}}, "static_host_map": m{"10.1.0.100": []string{"192.0.2.100:4242"}}}},
}

func c49Cases() []c49Case {
	var cs []c49Case
	add := func(scn, phase string, f func(w *c49World, class string)) {
		cs = append(cs, c49Case{scn, phase, f})
	}

	// (a) built by Main, never started
	for _, v := range c49NodeVariants {
		for _, ph := range []string{"at-once", "after-idle-60s", "with-queued-input"} {
			add("never-started", v.name+"/"+ph, func(w *c49World, class string) {
				n := w.add("a", "peer", "10.1.0.1/16", "192.0.2.1:4242", v.over)
				switch ph {
				case "after-idle-60s":
					time.Sleep(60 * time.Second)
				case "with-queued-input":
					n.sendTo(netip.MustParseAddr("10.1.0.2"), 3+w.rng.IntN(7))
					for i := 0; i < 5; i++ {
						w.deliver(n, &udp.Packet{To: n.Addr, From: netip.MustParseAddrPort("192.0.2.9:4242"), Data: header.Encode(make([]byte, header.Len), header.Version, header.Test, 0, 1, 1)})
					}
				}
				o := c49Opts(w)
				w.stop(n, class, o)
				w.finish("never-started")
			})
		}
	}

	// (b) right after Start
	for _, v := range c49NodeVariants {
		for _, ph := range []string{"no-yield", "settled", "after-idle", "start-racing-stop"} {
			add("after-start", v.name+"/"+ph, func(w *c49World, class string) {
				n := w.add("a", "peer", "10.1.0.1/16", "192.0.2.1:4242", v.over)
				o := c49Opts(w)
				switch ph {
				case "no-yield":
					n.start()
					o.yields = 0
				case "settled":
					n.start()
					synctest.Wait()
				case "after-idle":
					n.start()
					time.Sleep(time.Duration(w.rng.IntN(30000)) * time.Millisecond)
				case "start-racing-stop":
					n.started = true // Wait is legal either way; Start may lose the race and be refused
					started := make(chan struct{})
					go func() {
						defer close(started)
						n.do(func() { n.C.Start() })
					}()
					o.lateWork = func() { <-started }
				}
				w.stop(n, class, o)
				if ph == "start-racing-stop" {
					synctest.Wait()
				}
				w.finish("after-start")
			})
		}
	}

	// (c) handshake pending to a peer that never answers
	for _, ph := range []string{"tun-packet-queued", "first-message-sent", "after-some-retries", "after-timeout", "many-pending", "unknown-peer-query-only"} {
		add("handshake-pending", ph, func(w *c49World, class string) {
			over := vnMerge(c49Static(&[2]string{"10.1.0.9", "192.0.2.9:4242"}, &[2]string{"10.1.0.100", "192.0.2.100:4242"}), m{"lighthouse": m{"hosts": []string{"10.1.0.100"}}})
			n := w.add("a", "peer", "10.1.0.1/16", "192.0.2.1:4242", over)
			n.start()
			synctest.Wait()
			dead := netip.MustParseAddr("10.1.0.9")
			o := c49Opts(w)
			want := 1
			switch ph {
			case "tun-packet-queued":
				n.sendTo(dead, 1+w.rng.IntN(9))
				want = 0
				o.noBurst = true
			case "first-message-sent":
				n.sendTo(dead, 1+w.rng.IntN(5))
				synctest.Wait()
			case "after-some-retries":
				n.sendTo(dead, 1+w.rng.IntN(5))
				time.Sleep(time.Duration(1+w.rng.IntN(9)) * 100 * time.Millisecond)
				if w.rng.IntN(2) == 0 {
					synctest.Wait()
				}
			case "after-timeout":
				n.sendTo(dead, 2)
				time.Sleep(20 * time.Second)
				synctest.Wait()
				want = 0
			case "many-pending":
				for i := 0; i < 40; i++ {
					n.sendTo(netip.AddrFrom4([4]byte{10, 1, 2, byte(i + 1)}), 1)
				}
				n.sendTo(dead, 2)
				synctest.Wait()
				want = 20
			case "unknown-peer-query-only":
				n.sendTo(netip.MustParseAddr("10.1.0.77"), 3)
				synctest.Wait()
			}
			if pc := n.pendingCount(); pc >= want && want > 0 {
				w.r.Count("phase.handshake-pending.pending-at-stop", 1)
			}
			w.stop(n, class, o)
			w.finish("handshake-pending")
		})
	}

	// (c') between the two handshake messages: the responder's reply is held by the network
	for _, ph := range []string{"stop-initiator", "stop-responder", "stop-initiator-as-reply-arrives", "stop-responder-as-retransmit-arrives"} {
		add("between-handshake-messages", ph, func(w *c49World, class string) {
			a, b := w.pair(nil, nil, true)
			synctest.Wait()
			w.setPolicy(func(from *c49Node, h *header.H, hok bool, p *udp.Packet) int {
				if hok && h.Type == header.Handshake && h.MessageCounter == 2 {
					return c49Hold
				}
				return c49Deliver
			})
			a.sendTo(b.Ident.Addr(), 1+w.rng.IntN(6))
			ok := w.advanceUntil(50*time.Millisecond, 20, func() bool {
				w.mu.Lock()
				defer w.mu.Unlock()
				return len(w.held) > 0
			})
			if ok && a.pendingCount() == 1 && !a.hasTunnel(b.Ident.Addr()) && b.hasTunnel(a.Ident.Addr()) {
				w.r.Count("phase.between-handshake-messages.reply-held", 1)
			}
			o := c49Opts(w)
			switch ph {
			case "stop-initiator":
				o.lateWork = func() { w.setPolicy(nil); w.releaseHeld(); synctest.Wait() }
				w.stop(a, class, o)
			case "stop-responder":
				o.lateWork = func() { w.setPolicy(nil); w.releaseHeld(); synctest.Wait() }
				w.stop(b, class, o)
				if a.hasTunnel(b.Ident.Addr()) {
					w.r.Count("phase.between-handshake-messages.initiator-completed-with-dead-responder", 1)
				}
			case "stop-initiator-as-reply-arrives":
				o.preStop = func() { w.setPolicy(nil); w.releaseHeld() }
				w.stop(a, class, o)
			case "stop-responder-as-retransmit-arrives":
				o.preStop = func() { a.sendTo(b.Ident.Addr(), 3); time.Sleep(100 * time.Millisecond) }
				w.stop(b, class, o)
			}
			w.finish("between-handshake-messages")
		})
	}

	// (d) live direct tunnels carrying traffic
	for _, ph := range []string{"stop-initiator", "stop-responder", "stop-both-together"} {
		add("live-direct", ph, func(w *c49World, class string) {
			a, b := w.pair(nil, nil, true)
			w.traffic(a, b.Ident.Addr(), 1)
			w.traffic(b, a.Ident.Addr(), 2)
			if w.advanceUntil(100*time.Millisecond, 50, func() bool { return a.tunOut.Load() > 3 && b.tunOut.Load() > 3 }) {
				w.r.Count("phase.live-direct.traffic-both-ways", 1)
			}
			time.Sleep(c49Instant(w.rng, 8*time.Second))
			o := c49Opts(w)
			switch ph {
			case "stop-initiator":
				w.stop(a, class, o)
			case "stop-responder":
				w.stop(b, class, o)
			case "stop-both-together":
				o.preStop = func() { o.also = w.stopAlso(b) }
				w.stop(a, class, o)
				w.joinAlso(b, o.also, class+"/the-other-end")
			}
			time.Sleep(c49Instant(w.rng, 5*time.Second)) // the survivor keeps talking to a dead peer
			w.finish("live-direct")
		})
	}

	// (d') a node without a tun (nebula's own disabled tun, the usual lighthouse set-up) answering pings by itself
	for _, ph := range []string{"stop-tunless-node", "stop-pinging-peer"} {
		add("tunless-node-answering-pings", ph, func(w *c49World, class string) {
			a := w.add("a", "peer", "10.1.0.1/16", "192.0.2.1:4242", c49Static(&[2]string{"10.1.0.2", "192.0.2.2:4242"}))
			d := w.add("d", "tunless", "10.1.0.2/16", "192.0.2.2:4242", vnMerge(c49Static(&[2]string{"10.1.0.1", "192.0.2.1:4242"}), m{"tun": m{"disabled": true}}))
			a.start()
			d.start()
			w.trafficKind(a, d.Ident.Addr(), 1, true)
			w.trafficKind(a, d.Ident.Addr(), 2, true)
			if w.advanceUntil(100*time.Millisecond, 50, func() bool { return a.tunOut.Load() > 5 }) {
				w.r.Count("phase.tunless-node.echo-replies-flowing", 1)
			}
			time.Sleep(c49Instant(w.rng, 5*time.Second))
			o := c49Opts(w)
			if ph == "stop-tunless-node" {
				w.stop(d, class, o)
			} else {
				w.stop(a, class, o)
			}
			w.finish("tunless-node-answering-pings")
		})
	}

	// (e) relayed tunnels: stop each of the three roles
	for _, ph := range []string{"stop-a", "stop-relay", "stop-b"} {
		add("relayed", ph, func(w *c49World, class string) {
			a, rl, b := w.triangle(nil)
			// a and b cannot reach each other directly
			w.setPolicy(func(from *c49Node, h *header.H, hok bool, p *udp.Packet) int {
				if (from == a && p.To == b.Addr) || (from == b && p.To == a.Addr) {
					return c49Drop
				}
				return c49Deliver
			})
			w.traffic(a, b.Ident.Addr(), 1)
			w.traffic(b, a.Ident.Addr(), 2)
			if w.advanceUntil(100*time.Millisecond, 80, func() bool { return a.tunOut.Load() > 3 && b.tunOut.Load() > 3 && w.relayFwd.Load() > 6 }) {
				w.r.Count("phase.relayed.traffic-through-relay", 1)
			}
			time.Sleep(c49Instant(w.rng, 6*time.Second))
			o := c49Opts(w)
			w.stop(map[string]*c49Node{"stop-a": a, "stop-relay": rl, "stop-b": b}[ph], class, o)
			time.Sleep(c49Instant(w.rng, 5*time.Second))
			w.finish("relayed")
		})
	}

	// (f) a configuration reload racing with the stop
	for _, ph := range []string{"reload-fired-with-stop", "reload-stream", "reload-after-stop"} {
		add("mid-reload", ph, func(w *c49World, class string) {
			l, peers := w.mesh(2, nil, true)
			a, b := peers[0], peers[1]
			w.traffic(a, b.Ident.Addr(), 1)
			w.traffic(b, a.Ident.Addr(), 2)
			w.advanceUntil(100*time.Millisecond, 50, func() bool { return a.tunOut.Load() > 1 && b.tunOut.Load() > 1 })
			victim := []*c49Node{a, b, l}[w.rng.IntN(3)]
			o := c49Opts(w)
			switch ph {
			case "reload-fired-with-stop":
				w.reloader(victim, 1, true)
				synctest.Wait()
				o.inflight = true
				o.yields = w.rng.IntN(200)
			case "reload-stream":
				for i, n := range w.nodes {
					w.reloader(n, i, false)
				}
				time.Sleep(c49Instant(w.rng, 5*time.Second))
			case "reload-after-stop":
				o.lateWork = func() {
					for g := 1; g <= 6; g++ {
						ch := c49ReloadChange(w.rng, g, victim.role == "lighthouse")
						victim.do(func() { victim.Reload(ch) })
						w.r.Count("reloads_after_stop", 1)
					}
					synctest.Wait()
				}
			}
			class += "/" + victim.role
			w.stop(victim, class, o)
			w.finish("mid-reload")
		})
	}

	// (g) queued lighthouse work: the lighthouse never answers, many distinct destinations are being looked up
	for _, qb := range []int{64, 2, 0} {
		for _, ph := range []string{"settled", "with-stop", "lighthouse-tunnel-up", "frames-between-cancel-and-close(forced-interleaving)"} {
			add("lighthouse-queries-queued", fmt.Sprintf("query-buffer-%d/%s", qb, ph), func(w *c49World, class string) {
				extra := m{"handshakes": m{"query_buffer": qb}}
				l, peers := w.mesh(2, extra, ph == "lighthouse-tunnel-up")
				p := peers[1]
				if ph == "lighthouse-tunnel-up" {
					// the lighthouse is reachable and tunnelled, but it stops answering: queries are really encrypted and sent
					w.advanceUntil(100*time.Millisecond, 50, func() bool { return p.hasTunnel(l.Ident.Addr()) })
					w.setPolicy(func(from *c49Node, h *header.H, hok bool, pk *udp.Packet) int {
						if from == l {
							return c49Drop
						}
						return c49Deliver
					})
				}
				dests := 30 + w.rng.IntN(90)
				feed := func(from, k int) {
					for i := from; i < from+k; i++ {
						pkt, _ := vnUDP4(p.Ident.Addr(), netip.AddrFrom4([4]byte{10, 1, byte(3 + i/200), byte(1 + i%200)}), 2000, 80, i%100)
						if !p.tunSend(pkt) {
							return
						}
					}
				}
				o := c49Opts(w)
				switch ph {
				case "settled", "lighthouse-tunnel-up":
					feed(0, dests)
					synctest.Wait()
				case "with-stop":
					// a feeder keeps the tun queue full of frames for further new destinations while the stop request is made
					feed(0, dests/2)
					w.genWg.Add(1)
					go func() { defer w.genWg.Done(); feed(dests/2, 4000) }()
					o.noBurst = true
				case "frames-between-cancel-and-close(forced-interleaving)":
					// The schedule in which the goroutine running Stop is preempted between its first step (cancelling the node's
					// context) and its last (closing the devices), forced instead of waited for: cancel, let every context watcher
					// react, let frames for new destinations arrive, then call Stop.
					feed(0, 12)
					synctest.Wait()
					p.do(func() { p.C.cancel() })
					synctest.Wait()
					w.genWg.Add(1)
					go func() { defer w.genWg.Done(); feed(12, qb+8) }()
					synctest.Wait()
					w.r.Count("phase.lighthouse-queries-queued.forced-window", 1)
					o.noBurst = true
				}
				if p.pendingCount() >= 10 {
					w.r.Count("phase.lighthouse-queries-queued.many-lookups-pending", 1)
				}
				w.stop(p, class, o)
				w.finish("lighthouse-queries-queued")
			})
		}
	}

	// (g') stop while routines are parked on internal queues: the underlay is slow (the node's udp output is not taken for a
	// while), the single lighthouse query worker parks in its udp write, the query queue fills, and the tun reader (and,
	// given time, the handshake manager) park in QueryServer waiting for room BEFORE the stop request lands. The underlay
	// drains again two virtual seconds after the stop request (Stop itself writes close messages to the same socket), or,
	// in the third phase, at the very instant of the request.
	// Whether a parked caller survives a broken wake-up depends on what the leaving worker happens to take from the queue
	// on its way out, so every point of this family is visited three times per repetition.
	for _, qb := range []int{64, 2, 0, 64, 2, 0, 64, 2, 0} {
		for _, ph := range []string{"tun-reader-parked", "tun-reader-and-handshake-manager-parked", "lighthouse-tunnel-dropped-locally-underlay-stays-slow", "parked-then-underlay-drains-with-stop"} {
			add("parked-on-query-queue", fmt.Sprintf("query-buffer-%d/%s", qb, ph), func(w *c49World, class string) {
				l, peers := w.mesh(2, m{"handshakes": m{"query_buffer": qb}}, true)
				p := peers[1]
				w.advanceUntil(100*time.Millisecond, 50, func() bool { return p.hasTunnel(l.Ident.Addr()) })
				p.slowUnderlay(true)
				synctest.Wait()
				w.genWg.Add(1)
				go func() {
					defer w.genWg.Done()
					for i := 0; i < qb+60; i++ {
						pkt, _ := vnUDP4(p.Ident.Addr(), netip.AddrFrom4([4]byte{10, 1, byte(5 + i/200), byte(1 + i%200)}), 2000, 80, i%100)
						if !p.tunSend(pkt) {
							return
						}
					}
				}()
				synctest.Wait()
				if ph != "tun-reader-parked" && ph != "parked-then-underlay-drains-with-stop" {
					// the handshake manager re-queries a destination on its fifth attempt
					time.Sleep(time.Duration(1600+w.rng.IntN(1500)) * time.Millisecond)
					synctest.Wait()
				}
				worker := p.parkedIn("udp.(*TesterConn).WriteTo")
				parked := p.parkedIn("nebula.(*LightHouse).QueryServer")
				nParked := 0
				for entry, k := range parked {
					nParked += k
					switch {
					case strings.Contains(entry, "run.func2"):
						w.r.Count("phase.parked-on-query-queue.tun-reader-parked-in-QueryServer", 1)
					case strings.Contains(entry, "HandshakeManager"):
						w.r.Count("phase.parked-on-query-queue.handshake-manager-parked-in-QueryServer", 1)
					default:
						w.r.Count("phase.parked-on-query-queue.other-routine-parked-in-QueryServer", 1)
					}
				}
				if worker["nebula.(*LightHouse).startQueryWorker.func1"] > 0 && nParked > 0 && len(p.F.lightHouse.queryChan) == qb {
					w.r.Count("phase.parked-on-query-queue.worker-on-the-wire-queue-full-callers-parked", 1)
				}
				o := c49Opts(w)
				o.noBurst = true
				switch ph {
				case "parked-then-underlay-drains-with-stop":
					o.preStop = func() { p.slowUnderlay(false) }
				case "lighthouse-tunnel-dropped-locally-underlay-stays-slow":
					// with no tunnel left Stop has nothing to write, so the socket may stay stuck until the node is down
					p.do(func() { p.C.CloseTunnel(l.Ident.Addr(), true) })
					o.lateWork = func() { p.slowUnderlay(false); synctest.Wait() }
				default:
					o.preStop = func() { time.AfterFunc(2*time.Second, func() { p.slowUnderlay(false) }) }
				}
				w.stop(p, class, o)
				w.finish("parked-on-query-queue")
			})
		}
	}

	// (i) the ways of asking: every mode at three points of the life cycle
	for mode := 0; mode < c49NModes; mode++ {
		for _, ph := range []string{"never-started", "started-idle", "live-tunnel"} {
			add("stop-calls", c49ModeNames[mode]+"/"+ph, func(w *c49World, class string) {
				a, b := w.pair(nil, nil, ph != "never-started")
				if ph == "live-tunnel" {
					w.traffic(a, b.Ident.Addr(), 1)
					w.traffic(b, a.Ident.Addr(), 2)
					w.advanceUntil(100*time.Millisecond, 50, func() bool { return a.tunOut.Load() > 1 && b.tunOut.Load() > 1 })
				}
				w.stop(a, class, c49StopOpts{mode: mode, yields: w.rng.IntN(30)})
				w.finish("stop-calls")
			})
		}
	}
	return cs
}

// stopAlso requests the stop of a second node at the same time as the one under test, on its own goroutine; joinAlso then
// applies the return / leftover-goroutine part of the oracle to it.
func (w *c49World) stopAlso(n *c49Node) chan struct{} {
	n.gate.Lock()
	n.off = true
	n.gate.Unlock()
	n.checked = true
	done := make(chan struct{})
	go func() {
		defer close(done)
		pprof.Do(context.Background(), pprof.Labels("c49node", n.label, "c49role", "stopper"), func(context.Context) {
			n.C.Stop()
			n.C.Wait()
		})
	}()
	return done
}

func (w *c49World) joinAlso(n *c49Node, done chan struct{}, class string) {
	isDone := func() bool {
		select {
		case <-done:
			return true
		default:
			return false
		}
	}
	synctest.Wait()
	if !isDone() {
		time.Sleep(c49Bound)
		synctest.Wait()
	}
	w.r.Eval(1)
	w.r.Count("stops", 1)
	w.r.DistinctClass(class)
	_, own := c49Alive(n.label, false)
	if !isDone() || len(own) > 0 {
		_, g := c49Alive(n.label, true)
		key := "C49/goroutine-never-stops:" + strings.Join(c49Leafs(own), ",")
		if len(own) == 0 {
			key = "C49/wait-never-returns-although-no-goroutine-is-left"
		}
		w.r.Violation(key, fmt.Sprintf("%s node %s (stopped together with its peer): returned=%v, node goroutines still alive: %v", class, n.Name, isDone(), c49Sigs(own)),
			map[string]any{"world": w.tag, "node": n.Name, "class": class, "node_goroutines": c49Dump(g)})
		w.rescue(n, done)
	}
}

// c49Instant picks a virtual instant: half of the time aligned with the nodes' own tickers (100 ms handshake timer,
// 1 s timers) so that their timer goroutines run at the very instant of the stop request.
func c49Instant(rng *rand.Rand, limit time.Duration) time.Duration {
	switch rng.IntN(4) {
	case 0:
		return time.Duration(rng.Int64N(int64(limit/(100*time.Millisecond)))+1) * 100 * time.Millisecond
	case 1:
		return time.Duration(rng.Int64N(int64(limit/time.Second))+1) * time.Second
	default:
		return time.Duration(rng.Int64N(int64(limit))) + time.Millisecond
	}
}

// c49Bubble runs fn in a bubble; a bubble that cannot end because goroutines stay blocked for ever is itself a witness.
func c49Bubble(t *testing.T, mo *c49Mon, what string, fn func(t *testing.T)) {
	r := mo.r
	mo.stranded.Store(false)
	defer func() {
		if e := recover(); e != nil {
			if mo.stranded.Load() && strings.Contains(fmt.Sprint(e), "deadlock") {
				r.Count("bubbles_ended_by_the_deadlock_panic_after_a_reported_stranding", 1)
				return
			}
			r.Violation("C49/bubble-cannot-end", fmt.Sprintf("%s: %v", what, e), map[string]any{"case": what, "panic": fmt.Sprint(e)})
		}
	}()
	synctest.Test(t, fn)
}

func c49Finish(mo *c49Mon) {
	mo.mu.Lock()
	// one entry per shard: the driver keeps the last value written under a name
	i, _ := verifkit.Shard()
	mo.r.Info(fmt.Sprintf("stop_classes.shard%d", i), mo.classes)
	mo.mu.Unlock()
}

func TestVerifC49Phases(t *testing.T) {
	r := verifkit.NewReporter(t, "C49", "phases",
		"case = one stop request injected at a phase boundary of a multi-node scenario (never started, right after Start, handshake pending / between the two messages, live direct and relayed tunnels, mid-reload, queued lighthouse lookups) under one of four calling patterns; distinct = (scenario, phase[, role]) classes, all of which must have been exercised; deciding observations: Stop/Wait returned within the virtual bound, goroutines carrying the node's pprof label at the following quiescent point, closed state of udp conns and tun, behaviour of a further Stop/Wait/Start")
	defer r.Done()
	mo := &c49Mon{r: r, classes: map[string]*c49ClassStat{}}
	defer c49Finish(mo)
	cases := c49Cases()
	reps := verifkit.Scale(2, 150)
	idx := 0
	for rep := 0; rep < reps; rep++ {
		for _, c := range cases {
			idx++
			if !verifkit.Mine(idx) {
				continue
			}
			class := c.scn + "/" + c.phase
			rng := verifkit.SubRand("C49phases", idx)
			t.Run(fmt.Sprintf("%s#%d", strings.ReplaceAll(class, " ", "_"), rep), func(t *testing.T) {
				c49Bubble(t, mo, class, func(t *testing.T) {
					w := c49NewWorld(t, mo, c.scn, rng)
					c.run(w, class)
				})
			})
		}
	}
	r.Info("cases", len(cases))
}

// TestVerifC49Stress: stop requests at PRNG virtual instants of a C34-like workload (five nodes, traffic on all ordered
// pairs, churn, reloads); one node after the other goes down while the rest keeps running.
func TestVerifC49Stress(t *testing.T) {
	r := verifkit.NewReporter(t, "C49", "stress",
		"case = one stop request at a PRNG virtual instant of a running five-node workload (lighthouse, relay, three peers; traffic on all ordered pairs, tunnel churn, rebinds, config reloads), nodes go down one after the other in PRNG order while the others keep running; distinct = (role, how many nodes were already down) classes; same oracle as the phases unit")
	defer r.Done()
	mo := &c49Mon{r: r, classes: map[string]*c49ClassStat{}}
	defer c49Finish(mo)
	runs := verifkit.Scale(4, 240)
	for run := 0; run < runs; run++ {
		if !verifkit.Mine(run) {
			continue
		}
		rng := verifkit.SubRand("C49stress", run)
		t.Run(fmt.Sprintf("run%d", run), func(t *testing.T) {
			c49Bubble(t, mo, fmt.Sprintf("stress run %d", run), func(t *testing.T) {
				w := c49NewWorld(t, mo, "stress", rng)
				l, peers := w.mesh(4, nil, true)
				_ = l
				k := 0
				for _, a := range w.nodes {
					for _, b := range w.nodes {
						if a != b {
							k++
							dsts := b.Ident.Addrs()
							w.traffic(a, dsts[rng.IntN(len(dsts))], k)
						}
					}
				}
				for i, n := range w.nodes {
					w.reloader(n, i, false)
					w.chaos(n, i)
				}
				_ = peers
				order := rng.Perm(len(w.nodes))
				for down, vi := range order {
					time.Sleep(c49Instant(rng, 6*time.Second))
					v := w.nodes[vi]
					if !w.stop(v, fmt.Sprintf("stress/%s/%d-down", v.role, down), c49Opts(w)) {
						break
					}
				}
				var out int64
				for _, n := range w.nodes {
					out += n.tunOut.Load()
				}
				r.Count("tun_packets_delivered", int(out))
				w.finish("stress")
			})
		})
	}
}
