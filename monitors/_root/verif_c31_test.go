//go:build e2e_testing

package nebula

// C31 — concurrent handshakes converge to one working tunnel.
//
// Two started nodes in a synctest bubble, serialized. Both start a handshake with each other at the same virtual
// instant or staggered. The router owns every handshake message and chooses which one to deliver next:
//   unit "orders": stateless depth-first enumeration of every delivery order of the first four handshake deliveries
//                  (x stagger x which side has the lower overlay address);
//   unit "random": PRNG schedules that also duplicate and drop handshake messages, hold data back and let virtual time
//                  (retransmissions, connection-manager checks) pass in between, plus a re-handshake racing the tunnel.
// Oracle:
//   (1) whenever both nodes hold a tunnel for each other, a packet injected on either side is delivered (data only is
//       delivered for this probe, handshake messages stay where the schedule left them);
//   (2) at most one of the two nodes ever re-promotes an older tunnel to primary (swap);
//   (3) after light traffic for a few check intervals and then a quiet period, each node holds exactly one tunnel for the
//       peer, A.local == B.remote and A.remote == B.local, and data still flows both ways.

import (
	"fmt"
	"os"
	"testing"
	"time"

	"github.com/slackhq/nebula/cert"
	"github.com/slackhq/nebula/header"
	"github.com/slackhq/nebula/verifkit"
)

type c31Run struct {
	r        *verifkit.Reporter
	label    string
	nw       *vnNet
	a, b     *vnNode
	swaps    map[string]int
	lastPrim map[string]uint32
	lastIdx  map[string]map[uint32]bool
	probes   int
	trace    []string
}

func (c *c31Run) peerOf(n *vnNode) *vnNode {
	if n == c.a {
		return c.b
	}
	return c.a
}

func (c *c31Run) tunnelsFor(n *vnNode) (prim uint32, idx map[uint32]bool) {
	idx = map[uint32]bool{}
	peer := c.peerOf(n).Ident.Addr()
	hm := n.F.hostMap
	hm.RLock()
	if h, ok := hm.Hosts[peer]; ok {
		prim = h.localIndexId
	}
	for i, h := range hm.Indexes {
		if len(h.vpnAddrs) > 0 && h.vpnAddrs[0] == peer {
			idx[i] = true
		}
	}
	hm.RUnlock()
	return
}

// observe detects primary swaps: the primary changed to a tunnel that already existed at the previous observation.
func (c *c31Run) observe() {
	for _, n := range []*vnNode{c.a, c.b} {
		prim, idx := c.tunnelsFor(n)
		// a swap is a re-promotion: the new primary already existed and the previous primary is still held
		// (a primary that was deleted simply falls back to the next tunnel, that is not a swap decision)
		if old := c.lastPrim[n.Name]; prim != 0 && old != 0 && prim != old && c.lastIdx[n.Name][prim] && idx[old] {
			c.swaps[n.Name]++
			c.trace = append(c.trace, fmt.Sprintf("%s swapped primary %d -> %d", n.Name, old, prim))
		}
		c.lastPrim[n.Name] = prim
		c.lastIdx[n.Name] = idx
	}
}

func (c *c31Run) rec(extra map[string]any) map[string]any {
	mm := map[string]any{"schedule": c.label, "trace": c.trace, "tunnels_a": vnTunnels(c.a), "tunnels_b": vnTunnels(c.b)}
	for k, v := range extra {
		mm[k] = v
	}
	return mm
}

// deliverData delivers every non-handshake packet in flight (repeatedly), leaving handshake packets alone.
func (c *c31Run) deliverData() {
	for i := 0; i < 200; i++ {
		var p *vnPacket
		for _, q := range c.nw.Inflight {
			if !(q.HOK && q.H.Type == header.Handshake) {
				p = q
				break
			}
		}
		if p == nil {
			return
		}
		c.nw.Deliver(p)
		c.observe()
	}
}

// probe sends one unique packet each way and reports which arrived.
func (c *c31Run) probe() (ab, ba bool) {
	pa, ida := vnUDP4(c.a.Ident.Addr(), c.b.Ident.Addr(), 7, 7, 0)
	pb, idb := vnUDP4(c.b.Ident.Addr(), c.a.Ident.Addr(), 8, 8, 0)
	c.nw.TunSend(c.a, pa)
	c.nw.TunSend(c.b, pb)
	c.deliverData()
	for _, o := range c.b.TunOut {
		if id, ok := vnPayloadID(o); ok && id == ida {
			ab = true
		}
	}
	for _, o := range c.a.TunOut {
		if id, ok := vnPayloadID(o); ok && id == idb {
			ba = true
		}
	}
	c.probes++
	return
}

// completePair reports whether some handshake is complete on both of its sides (matching local/remote indexes).
func (c *c31Run) completePair() bool {
	type lr struct{ l, r uint32 }
	var as []lr
	c.a.F.hostMap.RLock()
	for _, h := range c.a.F.hostMap.Indexes {
		as = append(as, lr{h.localIndexId, h.remoteIndexId})
	}
	c.a.F.hostMap.RUnlock()
	found := false
	c.b.F.hostMap.RLock()
	for _, h := range c.b.F.hostMap.Indexes {
		for _, x := range as {
			if x.l == h.remoteIndexId && x.r == h.localIndexId {
				found = true
			}
		}
	}
	c.b.F.hostMap.RUnlock()
	return found
}

func (c *c31Run) hsInflight() []*vnPacket {
	var out []*vnPacket
	for _, q := range c.nw.Inflight {
		if q.HOK && q.H.Type == header.Handshake {
			out = append(out, q)
		}
	}
	return out
}

// c31Scenario runs one schedule. choose(n) picks which of n in-flight handshake messages to deliver (or -1: let time pass).
// It returns the number of options seen at each scheduled step (for the DFS enumerator).
func c31Scenario(t *testing.T, r *verifkit.Reporter, label string, aLow bool, stagger time.Duration, depth int, choose func(step, n int) (idx int, dup, drop bool), rehandshake bool, traffic func(sec int) bool) (options []int) {
	vnRunBubble(t, func(t *testing.T) {
		ca := vnNewCA(cert.Version2, cert.Curve_CURVE25519)
		nw := vnNewNet(t)
		aAddr, bAddr := "10.1.0.1/16", "10.1.0.2/16"
		if !aLow {
			aAddr, bAddr = bAddr, aAddr
		}
		ida := ca.issue([]cert.Version{cert.Version2}, "a", aAddr, "", nil)
		idb := ca.issue([]cert.Version{cert.Version2}, "b", bAddr, "", nil)
		a := nw.AddNode(ida, []*vnCA{ca}, "192.0.2.1:4242", m{"static_host_map": m{idb.Addr().String(): []string{"192.0.2.2:4242"}}})
		b := nw.AddNode(idb, []*vnCA{ca}, "192.0.2.2:4242", m{"static_host_map": m{ida.Addr().String(): []string{"192.0.2.1:4242"}}})
		a.Start()
		b.Start()
		nw.Settle()
		defer nw.StopAll()
		c := &c31Run{r: r, label: label, nw: nw, a: a, b: b, swaps: map[string]int{}, lastPrim: map[string]uint32{}, lastIdx: map[string]map[uint32]bool{}}

		if rehandshake {
			// establish first, then race a re-handshake from both sides against the existing tunnel
			p0, _ := vnUDP4(a.Ident.Addr(), b.Ident.Addr(), 1, 1, 0)
			nw.TunSend(a, p0)
			nw.AdvanceFlushing(time.Second, 100*time.Millisecond)
			c.observe()
			a.C.ReHandshake(b.Ident.Addr())
			nw.Settle()
			if stagger > 0 {
				nw.Advance(stagger)
			}
			b.C.ReHandshake(a.Ident.Addr())
			nw.Settle()
		} else {
			p0, _ := vnUDP4(a.Ident.Addr(), b.Ident.Addr(), 1, 1, 0)
			nw.TunSend(a, p0)
			if stagger > 0 {
				nw.Advance(stagger)
			}
			p1, _ := vnUDP4(b.Ident.Addr(), a.Ident.Addr(), 2, 2, 0)
			nw.TunSend(b, p1)
		}

		firstComplete := false
		for step := 0; step < depth; step++ {
			// let timers produce handshake messages if nothing is in flight
			for w := 0; w < 40 && len(c.hsInflight()) == 0; w++ {
				nw.Advance(100 * time.Millisecond)
				c.observe()
			}
			hs := c.hsInflight()
			if len(hs) == 0 {
				break
			}
			options = append(options, len(hs))
			idx, dup, drop := choose(step, len(hs))
			if idx == -2 {
				// a handshake message is held back for several check intervals while whatever tunnel exists carries
				// traffic (late completion): the connection managers tick, test and mark tunnels in the meantime
				c.trace = append(c.trace, "hold handshake messages for 3..7 s with traffic")
				n := 3 + (step+len(c.trace))%5
				for k := 0; k < n; k++ {
					if c.completePair() {
						c.probe()
					}
					nw.Advance(time.Second)
					c.observe()
					c.deliverData()
				}
				continue
			}
			if idx < 0 {
				nw.Advance(150 * time.Millisecond)
				c.observe()
				continue
			}
			p := hs[idx%len(hs)]
			c.trace = append(c.trace, fmt.Sprintf("deliver %s->%s stage %d%s%s", p.Sender.Name, c.peerOf(p.Sender).Name, p.H.MessageCounter, map[bool]string{true: " (+dup)"}[dup], map[bool]string{true: " DROPPED"}[drop]))
			if drop {
				nw.Remove(p)
			} else {
				nw.Deliver(p)
				if dup {
					nw.DeliverCopy(p)
				}
			}
			r.Eval(1)
			c.observe()
			pa, _ := c.tunnelsFor(a)
			pb, _ := c.tunnelsFor(b)
			if pa != 0 || pb != 0 {
				firstComplete = true
			}
			if c.completePair() {
				// bounded progress: a handshake is complete on both of its sides. Half-complete tunnels from the other
				// handshake may still be primary somewhere and cost a probe each (recv_error tears them down), so allow a
				// small fixed number of probe rounds, with no time passing and no handshake message delivered in between.
				okAB, okBA := false, false
				rounds := 0
				for ; rounds < 4 && !(okAB && okBA); rounds++ {
					ab, ba := c.probe()
					okAB, okBA = okAB || ab, okBA || ba
				}
				r.DistinctClass(fmt.Sprintf("probe rounds needed after a complete handshake: %d", rounds))
				if !okAB || !okBA {
					r.Violation("C31/traffic-not-flowing-after-a-handshake-completed", fmt.Sprintf("schedule %s: a handshake is complete on both sides but after 4 probe rounds a->b delivered=%v b->a delivered=%v", label, okAB, okBA), c.rec(nil))
				}
			} else {
				c.deliverData()
			}
		}
		_ = firstComplete
		// bounded progress: deliver everything, light traffic for a few check intervals
		nw.Flush()
		c.observe()
		for i := 0; i < 8; i++ {
			nw.Advance(time.Second)
			c.observe()
			nw.Flush()
			c.observe()
			// traffic in some seconds, silence in others (a swap followed by a silent check interval is a schedule too);
			// the last two seconds always carry traffic so that a working tunnel is in use before the quiet period
			if i >= 6 || traffic == nil || traffic(i) {
				c.probe()
				nw.Flush()
				c.observe()
			}
		}
		// quiet period: no traffic, let the managers retire what is left
		for i := 0; i < 12; i++ {
			nw.Advance(time.Second)
			c.observe()
			nw.Flush()
			c.observe()
		}
		pa, ia := c.tunnelsFor(a)
		pb, ib := c.tunnelsFor(b)
		r.DistinctClass(fmt.Sprintf("aLow=%v stagger=%s rehandshake=%v swaps(a,b)=(%d,%d) final tunnels (a,b)=(%d,%d)", aLow, stagger, rehandshake, c.swaps["a"], c.swaps["b"], len(ia), len(ib)))
		r.Distinct(label)
		if c.swaps["a"] > 0 && c.swaps["b"] > 0 {
			r.Violation("C31/both-nodes-swapped-primary", fmt.Sprintf("schedule %s: both nodes re-promoted an older tunnel (a %d times, b %d times)", label, c.swaps["a"], c.swaps["b"]), c.rec(nil))
		}
		if c.swaps["a"]+c.swaps["b"] > 0 {
			r.Count("schedules_with_a_primary_swap", 1)
		}
		if len(ia) != 1 || len(ib) != 1 {
			r.Violation("C31/not-converged-to-single-tunnel", fmt.Sprintf("schedule %s: after the quiet period a holds %d and b holds %d tunnels", label, len(ia), len(ib)), c.rec(nil))
		} else {
			var ha, hb *HostInfo
			ha = a.F.hostMap.QueryIndex(pa)
			hb = b.F.hostMap.QueryIndex(pb)
			if ha == nil || hb == nil || ha.remoteIndexId != hb.localIndexId || hb.remoteIndexId != ha.localIndexId {
				r.Violation("C31/final-tunnel-indexes-do-not-match", fmt.Sprintf("schedule %s: a{local %d remote %d} b{local %d remote %d}", label, ha.localIndexId, ha.remoteIndexId, hb.localIndexId, hb.remoteIndexId), c.rec(nil))
			}
			ab, ba := c.probe()
			if !ab || !ba {
				r.Violation("C31/final-tunnel-does-not-carry-traffic", fmt.Sprintf("schedule %s: after convergence a->b=%v b->a=%v", label, ab, ba), c.rec(nil))
			}
			r.Count("schedules_converged", 1)
		}
		r.Count("traffic_probes", c.probes)
		if r.WantSample() {
			r.Sample(map[string]any{"schedule": label, "trace": c.trace, "swaps": c.swaps})
		}
	})
	return options
}

func TestVerifC31Orders(t *testing.T) {
	r := verifkit.NewReporter(t, "C31", "orders",
		"stateless DFS over every delivery order of the first four handshake deliveries, for each of: which node has the lower overlay address (2) x stagger {0, 60ms, 250ms} (3); distinct = distinct schedules (choice vectors)")
	defer r.Done()
	caseNo := 0
	for _, aLow := range []bool{true, false} {
		for _, stagger := range []time.Duration{0, 60 * time.Millisecond, 250 * time.Millisecond} {
			prefix := []int{}
			for {
				caseNo++
				label := fmt.Sprintf("order aLow=%v stagger=%s choices=%v", aLow, stagger, prefix)
				cur := prefix
				opts := c31Scenario(t, r, label, aLow, stagger, 4, func(step, n int) (int, bool, bool) {
					if step < len(cur) {
						return cur[step], false, false
					}
					return 0, false, false
				}, false, nil)
				if os.Getenv("VERIF_C31_FIRST") != "" {
					return
				}
				// next prefix in DFS order
				full := make([]int, len(opts))
				copy(full, prefix)
				i := len(full) - 1
				for ; i >= 0; i-- {
					if full[i]+1 < opts[i] {
						full[i]++
						full = full[:i+1]
						break
					}
				}
				if i < 0 {
					break
				}
				prefix = full
			}
			r.Exhaustive(fmt.Sprintf("aLow=%v stagger=%s: every order of the first 4 handshake deliveries", aLow, stagger))
		}
	}
	r.Info("schedules_enumerated", caseNo)
}

func TestVerifC31Random(t *testing.T) {
	r := verifkit.NewReporter(t, "C31", "random",
		"PRNG schedules of up to 10 steps with duplicated and dropped handshake messages, time passing between deliveries (retransmissions, manager checks), simultaneous and staggered starts, and re-handshakes racing an existing tunnel; distinct = schedules")
	defer r.Done()
	n := verifkit.Scale(40, 3000)
	for i := 0; i < n; i++ {
		if !verifkit.Mine(i) {
			continue
		}
		rng := verifkit.SubRand("C31random", i)
		aLow := rng.IntN(2) == 0
		stagger := []time.Duration{0, 0, 30 * time.Millisecond, 120 * time.Millisecond, 400 * time.Millisecond}[rng.IntN(5)]
		reh := rng.IntN(3) == 0
		label := fmt.Sprintf("random #%d aLow=%v stagger=%s rehandshake=%v", i, aLow, stagger, reh)
		c31Scenario(t, r, label, aLow, stagger, 10, func(step, n int) (int, bool, bool) {
			if rng.IntN(6) == 0 {
				return -1, false, false
			}
			if rng.IntN(7) == 0 {
				return -2, false, false
			}
			return rng.IntN(n), rng.IntN(5) == 0, rng.IntN(7) == 0
		}, reh, func(int) bool { return rng.IntN(2) == 0 })
	}
}

// c31Finish runs the common end game (light traffic, quiet period) and the final oracles.
func (c *c31Run) finish(label string, class string) {
	r, nw, a, b := c.r, c.nw, c.a, c.b
	for i := 0; i < 4; i++ {
		nw.Advance(time.Second)
		c.observe()
		nw.Flush()
		c.observe()
		c.probe()
		nw.Flush()
		c.observe()
	}
	for i := 0; i < 12; i++ {
		nw.Advance(time.Second)
		c.observe()
		nw.Flush()
		c.observe()
	}
	pa, ia := c.tunnelsFor(a)
	pb, ib := c.tunnelsFor(b)
	r.DistinctClass(fmt.Sprintf("%s swaps(a,b)=(%d,%d) final tunnels (a,b)=(%d,%d)", class, c.swaps["a"], c.swaps["b"], len(ia), len(ib)))
	r.Distinct(label)
	if c.swaps["a"] > 0 && c.swaps["b"] > 0 {
		r.Violation("C31/both-nodes-swapped-primary", fmt.Sprintf("schedule %s: both nodes re-promoted an older tunnel (a %d times, b %d times)", label, c.swaps["a"], c.swaps["b"]), c.rec(nil))
	}
	if len(ia) != 1 || len(ib) != 1 {
		r.Violation("C31/not-converged-to-single-tunnel", fmt.Sprintf("schedule %s: after the quiet period a holds %d and b holds %d tunnels", label, len(ia), len(ib)), c.rec(nil))
		return
	}
	ha, hb := a.F.hostMap.QueryIndex(pa), b.F.hostMap.QueryIndex(pb)
	if ha == nil || hb == nil || ha.remoteIndexId != hb.localIndexId || hb.remoteIndexId != ha.localIndexId {
		r.Violation("C31/final-tunnel-indexes-do-not-match", fmt.Sprintf("schedule %s: a{local %d remote %d} b{local %d remote %d}", label, ha.localIndexId, ha.remoteIndexId, hb.localIndexId, hb.remoteIndexId), c.rec(nil))
		return
	}
	ab, ba := c.probe()
	if !ab || !ba {
		r.Violation("C31/final-tunnel-does-not-carry-traffic", fmt.Sprintf("schedule %s: after convergence a->b=%v b->a=%v", label, ab, ba), c.rec(nil))
	}
	r.Count("schedules_converged", 1)
}

// TestVerifC31Late enumerates the "late completion" family: both sides start at once, both first messages are
// delivered, one side's reply is delivered at once and the other reply is held back (retransmissions dropped) for a
// time around the check / pending-deletion intervals, with or without traffic on the completed tunnel; then the held
// reply is delivered, the late side sends a few packets, and the network falls silent for 0..3 check intervals.
func TestVerifC31Late(t *testing.T) {
	r := verifkit.NewReporter(t, "C31", "late",
		"directed family, complete product of: lower-address side (2) x which side's reply is held (2) x hold time {1.5,2.5,3.5,4.5 s} x traffic during the hold (2) x packets sent by the late side after completion {0,1,3} x silent check intervals afterwards {0,1,2,3}; distinct = schedules")
	defer r.Done()
	n := 0
	for _, aLow := range []bool{true, false} {
		for _, holdB := range []bool{true, false} {
			for _, hold := range []time.Duration{1500 * time.Millisecond, 2500 * time.Millisecond, 3500 * time.Millisecond, 4500 * time.Millisecond} {
				for _, traffic := range []bool{true, false} {
					for _, late := range []int{0, 1, 3} {
						for _, silent := range []int{0, 1, 2, 3} {
							n++
							if !verifkit.Mine(n) {
								continue
							}
							label := fmt.Sprintf("late aLow=%v heldReplyFor=%s hold=%s trafficDuringHold=%v latePackets=%d silentIntervals=%d", aLow, map[bool]string{true: "b", false: "a"}[holdB], hold, traffic, late, silent)
							vnRunBubble(t, func(t *testing.T) {
								ca := vnNewCA(cert.Version2, cert.Curve_CURVE25519)
								nw := vnNewNet(t)
								aAddr, bAddr := "10.1.0.1/16", "10.1.0.2/16"
								if !aLow {
									aAddr, bAddr = bAddr, aAddr
								}
								ida := ca.issue([]cert.Version{cert.Version2}, "a", aAddr, "", nil)
								idb := ca.issue([]cert.Version{cert.Version2}, "b", bAddr, "", nil)
								a := nw.AddNode(ida, []*vnCA{ca}, "192.0.2.1:4242", m{"static_host_map": m{idb.Addr().String(): []string{"192.0.2.2:4242"}}})
								b := nw.AddNode(idb, []*vnCA{ca}, "192.0.2.2:4242", m{"static_host_map": m{ida.Addr().String(): []string{"192.0.2.1:4242"}}})
								a.Start()
								b.Start()
								nw.Settle()
								defer nw.StopAll()
								c := &c31Run{r: r, label: label, nw: nw, a: a, b: b, swaps: map[string]int{}, lastPrim: map[string]uint32{}, lastIdx: map[string]map[uint32]bool{}}
								p0, _ := vnUDP4(a.Ident.Addr(), b.Ident.Addr(), 1, 1, 0)
								nw.TunSend(a, p0)
								p1, _ := vnUDP4(b.Ident.Addr(), a.Ident.Addr(), 2, 2, 0)
								nw.TunSend(b, p1)
								for w := 0; w < 20 && len(c.hsInflight()) < 2; w++ {
									nw.Advance(100 * time.Millisecond)
								}
								// deliver both first messages
								for _, p := range c.hsInflight() {
									if p.H.MessageCounter == 1 {
										nw.Deliver(p)
										c.observe()
										r.Eval(1)
									}
								}
								// deliver one reply, hold the other
								var held *vnPacket
								heldTo := a
								if holdB {
									heldTo = b
								}
								for _, p := range c.hsInflight() {
									if p.H.MessageCounter != 2 {
										nw.Remove(p)
										continue
									}
									if nw.byAddr[p.To] == heldTo && held == nil {
										held = p
										nw.Remove(p)
										continue
									}
									nw.Deliver(p)
									c.observe()
									r.Eval(1)
								}
								if held == nil {
									r.Inconclusive("late: no reply to hold in " + label)
									return
								}
								c.trace = append(c.trace, fmt.Sprintf("reply to %s held for %s", heldTo.Name, hold))
								c.deliverData()
								// the hold: handshake retransmissions are dropped, data flows if asked
								for el := time.Duration(0); el < hold; el += 500 * time.Millisecond {
									nw.Advance(500 * time.Millisecond)
									c.observe()
									for _, p := range c.hsInflight() {
										nw.Remove(p)
									}
									if traffic {
										c.probe()
									} else {
										c.deliverData()
									}
								}
								nw.Deliver(held)
								c.observe()
								r.Eval(1)
								c.deliverData()
								for k := 0; k < late; k++ {
									pk, _ := vnUDP4(heldTo.Ident.Addr(), c.peerOf(heldTo).Ident.Addr(), 3, 3, 0)
									nw.TunSend(heldTo, pk)
									c.deliverData()
								}
								for k := 0; k < silent*2; k++ {
									nw.Advance(time.Second)
									c.observe()
									for _, p := range c.hsInflight() {
										nw.Deliver(p)
									}
									c.deliverData()
								}
								c.finish(label, fmt.Sprintf("late held=%s hold=%s traffic=%v", heldTo.Name, hold, traffic))
								if r.WantSample() {
									r.Sample(map[string]any{"schedule": label, "trace": c.trace, "swaps": c.swaps})
								}
							})
						}
					}
				}
			}
		}
	}
	r.Exhaustive("late-completion family: complete product of the six listed factors")
	r.Info("late_schedules", n)
}
