//go:build e2e_testing

package nebula

// C32 (tick stalls) — the linear back-off also holds when the handshake manager's loop was held up for a while.
//
// One started node in a synctest bubble with a pending handshake to a silent peer P. The manager's own routine is then
// delayed inside a build-tagged yield point (first transmission to a second silent peer Q, hs.afterAllocIndex) for a
// virtual duration shorter than, about, or several times longer than the timer wheel; time.Ticker drops the ticks it
// missed, so the next tick sees the whole gap at once. Oracle (lower bounds only, a stall can only make things later):
// attempt k+1 to P never comes sooner than k*try_interval after attempt k, no more than `retries` attempts are made, and
// the pending state for P is not given up before the last attempt's own delay has passed. One gap per stall is left
// unjudged (see below): the tick queued before the stall is delivered with its old time stamp.

import (
	"fmt"
	"net/netip"
	"testing"
	"time"

	"github.com/slackhq/nebula/cert"
	"github.com/slackhq/nebula/header"
	"github.com/slackhq/nebula/udp"
	"github.com/slackhq/nebula/verifkit"
)

type c32StallConn struct {
	udp.Conn
	stamps map[netip.AddrPort][]time.Time
}

func (c *c32StallConn) WriteTo(b []byte, addr netip.AddrPort) error {
	if len(b) >= header.Len && b[0]&0x0f == byte(header.Handshake) {
		c.stamps[addr] = append(c.stamps[addr], time.Now())
	}
	return c.Conn.WriteTo(b, addr)
}

func TestVerifC32Stall(t *testing.T) {
	r := verifkit.NewReporter(t, "C32", "stall",
		"one started node per case, pending handshake to a silent peer, the handshake manager routine delayed at a yield point for 0.3x .. 6x the timer wheel span at a PRNG attempt; try_interval in {50ms,100ms,333ms}, retries 3..10; distinct = (interval, retries, stall length class, stalled at attempt) classes")
	defer r.Done()
	cases := verifkit.Scale(48, 1500)
	for cs := 0; cs < cases; cs++ {
		if !verifkit.Mine(cs) {
			continue
		}
		rng := verifkit.SubRand("C32stall", cs)
		interval := []time.Duration{50 * time.Millisecond, 100 * time.Millisecond, 333 * time.Millisecond}[rng.IntN(3)]
		retries := 3 + rng.IntN(8)
		span := hsTimeout(int64(retries), interval)
		factor := []float64{0.3, 0.9, 1.1, 2.5, 6}[rng.IntN(5)]
		stall := time.Duration(float64(span) * factor)
		stallAfter := 1 + rng.IntN(retries-1) // Q is started once P has made this many attempts
		vnRunBubble(t, func(t *testing.T) {
			ca := vnNewCA(cert.Version2, cert.Curve_CURVE25519)
			nw := vnNewNet(t)
			a := nw.AddNode(ca.issue([]cert.Version{cert.Version2}, "a", "10.1.0.1/16", "", nil), []*vnCA{ca}, "192.0.2.1:4242",
				m{"handshakes": m{"try_interval": interval.String(), "retries": retries}})
			pAddr, qAddr := netip.MustParseAddrPort("192.0.2.9:4242"), netip.MustParseAddrPort("192.0.2.10:4242")
			pVpn, qVpn := netip.MustParseAddr("10.1.0.9"), netip.MustParseAddr("10.1.0.10")
			conn := &c32StallConn{Conn: a.F.handshakeManager.outside, stamps: map[netip.AddrPort][]time.Time{}}
			a.F.handshakeManager.outside = conn
			a.Start()
			a.C.InjectLightHouseAddr(pVpn, pAddr)
			a.C.InjectLightHouseAddr(qVpn, qAddr)
			nw.Settle()
			defer nw.StopAll()
			fired := false
			var stalledAt time.Time
			hook := func(id int) {
				if id != verifHsAfterAllocIndex || fired || len(conn.stamps[pAddr]) == 0 {
					return
				}
				// this is the manager's own routine making Q's first transmission: hold it up
				fired = true
				stalledAt = time.Now()
				time.Sleep(stall)
			}
			verifHook.Store(&hook)
			defer verifHook.Store(nil)
			hsm := a.F.handshakeManager
			start := time.Now()
			pk, _ := vnUDP4(a.Ident.Addr(), pVpn, 1, 1, 0)
			nw.TunSend(a, pk)
			startedQ := false
			var removedAt time.Time
			deadline := start.Add(span + stall + span + 10*interval)
			for time.Now().Before(deadline) {
				nw.Advance(interval / 4)
				nw.DropAll()
				if !startedQ && len(conn.stamps[pAddr]) >= stallAfter {
					startedQ = true
					qk, _ := vnUDP4(a.Ident.Addr(), qVpn, 2, 2, 0)
					nw.TunSend(a, qk)
				}
				hsm.RLock()
				_, pending := hsm.vpnIps[pVpn]
				hsm.RUnlock()
				if !pending && removedAt.IsZero() {
					removedAt = time.Now()
				}
				if !removedAt.IsZero() && time.Since(removedAt) > 2*interval {
					break
				}
			}
			// attempts = distinct virtual instants of transmissions to P
			var attempts []time.Time
			for _, s := range conn.stamps[pAddr] {
				if len(attempts) == 0 || !s.Equal(attempts[len(attempts)-1]) {
					attempts = append(attempts, s)
				}
			}
			since := func(ts []time.Time) []string {
				var out []string
				for _, x := range ts {
					out = append(out, x.Sub(start).String())
				}
				return out
			}
			rec := map[string]any{"case": cs, "try_interval": interval.String(), "retries": retries, "wheel_span": span.String(), "stall": stall.String(), "stall_began": stalledAt.Sub(start).String(),
				"attempt_times_since_start": since(attempts), "pending_removed_after": removedAt.Sub(start).String()}
			r.Eval(len(attempts))
			cls := "shorter-than-wheel"
			if factor > 1 {
				cls = "longer-than-wheel"
			}
			r.DistinctClass(fmt.Sprintf("interval=%s retries=%d stall=%s stalled-after-attempt=%d", interval, retries, cls, stallAfter))
			r.Distinct(fmt.Sprintf("case %d", cs))
			if !fired {
				r.Count("cases_where_the_stall_point_was_not_reached", 1)
				return
			}
			r.Count("stalls."+cls, 1)
			if r.WantSample() {
				r.Sample(rec)
			}
			// The tick that was already queued when the routine got stuck carries its old time stamp, so the first timer
			// expiry after the stall is handled "in the past" and the one after it catches up with the clock: the gap that
			// follows the first attempt after the stall (and a give-up that follows it directly) is not judged.
			stallEnd := stalledAt.Add(stall)
			firstAfter := -1
			for n, at := range attempts {
				if !at.Before(stallEnd) {
					firstAfter = n
					break
				}
			}
			for n := 1; n < len(attempts); n++ {
				gap := attempts[n].Sub(attempts[n-1])
				if n-1 == firstAfter {
					r.Count("catch_up_gaps_not_judged", 1)
					continue
				}
				if lo := time.Duration(n) * interval; gap < lo {
					r.Violation("C32/retransmitted-sooner-than-the-linear-delay", fmt.Sprintf("case %d: attempt %d came %s after attempt %d, the delay is %d x %s (routine stalled for %s, wheel span %s)", cs, n+1, gap, n, n, interval, stall, span), rec)
					break
				}
				r.Count("gaps_checked_lower_bound", 1)
			}
			if len(attempts) > retries {
				r.Violation("C32/attempt-count-differs-from-retries", fmt.Sprintf("case %d: %d attempts observed, retries=%d", cs, len(attempts), retries), rec)
			}
			if !removedAt.IsZero() && len(attempts) > 0 {
				last := attempts[len(attempts)-1]
				if len(attempts) < retries {
					r.Violation("C32/abandoned-before-the-configured-attempts", fmt.Sprintf("case %d: pending handshake given up after %d of %d attempts (routine stalled for %s)", cs, len(attempts), retries, stall), rec)
				} else if firstAfter == len(attempts)-1 {
					r.Count("catch_up_gaps_not_judged", 1)
				} else if d := removedAt.Sub(last); d < time.Duration(len(attempts))*interval-interval/2 {
					r.Violation("C32/give-up-time-out-of-bounds", fmt.Sprintf("case %d: pending state removed %s after the last attempt, its own delay is %s", cs, d, time.Duration(len(attempts))*interval), rec)
				}
				r.Count("give_ups_checked", 1)
			}
		})
	}
}
