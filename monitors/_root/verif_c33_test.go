package nebula

// C33 — the timer wheel fires each item exactly once, on time.
//
// Oracle (written from the property statement, DESIGN §3 C33). The clock is simulated: an int64
// nanosecond offset handed to Advance as a time.Time, the wheel never sees the wall clock.
// For an item added at simulated time A with timeout t to a wheel of tick T and span S:
//
//	d = ceil(min(max(t, T), S) / T)
//
//   - exactly once: every Purge output is an item that was added and not returned before, and
//     after a final Advance far past everything and a complete drain no item is outstanding;
//   - not early: (premise: the last Advance before the Add was Advance(A)) the item is never
//     returned by a Purge while the most recent Advance(now) had now < A + d*T;
//   - not late: (same premise) once an Advance(now) with now >= A + (d+2)*T has happened, a Purge
//     may not report "empty" while the item is still outstanding — however long the gap before
//     that Advance was.
//
// Items added without a preceding Advance to the current time are generated too, but only the
// exactly-once clause is judged for them.

import (
	"fmt"
	"testing"
	"time"

	"github.com/slackhq/nebula/verifkit"
)

type c33Wheel interface {
	Add(v uint64, timeout time.Duration) *TimeoutItem[uint64]
	Advance(now time.Time)
	Purge() (uint64, bool)
}

type c33Item struct {
	id       uint64
	addAt    int64
	timeout  int64
	d        int64
	low      int64 // A + d*T
	high     int64 // A + (d+2)*T
	premise  bool
	tcls     string
	returned bool
}

var c33Base = time.Date(2000, 1, 1, 0, 0, 0, 0, time.UTC)

// c33D is the statement's rounding: the timeout, raised to one tick, capped at the span, in whole ticks rounded up.
func c33D(timeout, tick, span int64) int64 {
	t := timeout
	if t < tick {
		t = tick
	}
	if t > span {
		t = span
	}
	d := t / tick
	if d*tick < t {
		d++
	}
	return d
}

type c33Run struct {
	r        *verifkit.Reporter
	w        c33Wheel
	raw      *TimerWheel[uint64]
	tick     int64
	span     int64
	clk      int64
	lastAdv  int64 // -1 = never advanced
	gapCls   string
	nextID   uint64
	items    map[uint64]*c33Item
	out      map[uint64]*c33Item // outstanding
	ops      []c33Op
	cfg      func() string
	quiet    bool // exhaustive unit: do not record per-purge distinct classes
	stop     bool
	ratioCls string
	caseIdx  int
}

// c33Op is one logged operation, formatted only when a replay record or sample is written.
type c33Op struct {
	format string
	a      [5]int64
	n      int
}

func (o c33Op) String() string {
	args := make([]any, o.n)
	for i := range args {
		args[i] = o.a[i]
	}
	return fmt.Sprintf(o.format, args...)
}

func (c *c33Run) logOp(format string, a ...int64) {
	if len(c.ops) >= 600 {
		copy(c.ops, c.ops[200:])
		c.ops = c.ops[:len(c.ops)-200]
		c.ops[0] = c33Op{format: "...(older ops dropped)"}
	}
	o := c33Op{format: format, n: len(a)}
	copy(o.a[:], a)
	c.ops = append(c.ops, o)
}

func (c *c33Run) opStrings(max int) []string {
	out := []string{}
	for i, o := range c.ops {
		if i >= max {
			break
		}
		out = append(out, o.String())
	}
	return out
}

func (c *c33Run) replay(extra map[string]any) any {
	m := map[string]any{"case": c.caseIdx, "config": c.cfg(), "tick_ns": c.tick, "span_ns": c.span, "clock_ns": c.clk,
		"last_advance_ns": c.lastAdv, "ops": c.opStrings(1 << 30),
		"note": "times are ns offsets of the simulated clock from 2000-01-01; replay by re-running the case with this seed"}
	for k, v := range extra {
		m[k] = v
	}
	return m
}

func (c *c33Run) add(timeout int64, tcls string) {
	id := c.nextID
	c.nextID++
	d := c33D(timeout, c.tick, c.span)
	it := &c33Item{id: id, addAt: c.clk, timeout: timeout, d: d, low: c.clk + d*c.tick, high: c.clk + (d+2)*c.tick,
		premise: c.lastAdv == c.clk, tcls: tcls}
	c.items[id] = it
	c.out[id] = it
	prem := int64(0)
	if it.premise {
		prem = 1
	}
	c.logOp("add id=%d timeout=%d (d=%d premise=%d) at %d", int64(id), timeout, d, prem, c.clk)
	c.w.Add(id, time.Duration(timeout))
	if it.premise {
		c.r.Count("premise_items", 1)
	} else {
		c.r.Count("nonpremise_items", 1)
	}
}

func (c *c33Run) advance(gap int64, gcls string) {
	c.clk += gap
	c.lastAdv = c.clk
	c.gapCls = gcls
	c.logOp("advance +%d -> %d", gap, c.clk)
	c.w.Advance(c33Base.Add(time.Duration(c.clk)))
	c.r.Eval(1)
}

// purge calls Purge once and judges the output. It returns false when the wheel reported empty.
func (c *c33Run) purge() bool {
	id, ok := c.w.Purge()
	c.r.Eval(1)
	if !ok {
		c.logOp("purge -> empty")
		// not late: nothing whose deadline an Advance already passed may still be outstanding
		for _, it := range c.out {
			if it.premise && c.lastAdv >= it.high {
				c.r.Violation("C33/late", fmt.Sprintf("item added at %d with timeout %d (tick %d, span %d, d=%d) still not returned although the wheel was advanced to %d >= %d = add + (d+2) ticks and Purge reports empty",
					it.addAt, it.timeout, c.tick, c.span, it.d, c.lastAdv, it.high), c.replay(map[string]any{"item": it.id}))
				c.stop = true
				break
			}
		}
		return false
	}
	c.logOp("purge -> %d", int64(id))
	it := c.items[id]
	if it == nil {
		c.r.Violation("C33/unknown-item", fmt.Sprintf("Purge returned %d which was never added", id), c.replay(nil))
		c.stop = true
		return true
	}
	if it.returned {
		c.r.Violation("C33/returned-twice", fmt.Sprintf("item %d (added at %d, timeout %d) returned a second time", id, it.addAt, it.timeout), c.replay(map[string]any{"item": id}))
		c.stop = true
		return true
	}
	it.returned = true
	delete(c.out, id)
	off := "n/a"
	if it.premise {
		if c.lastAdv < it.low {
			c.r.Violation("C33/early", fmt.Sprintf("item added at %d with timeout %d (tick %d, span %d, d=%d) returned while the wheel was only advanced to %d < %d = add + d ticks",
				it.addAt, it.timeout, c.tick, c.span, it.d, c.lastAdv, it.low), c.replay(map[string]any{"item": id}))
			c.stop = true
		}
		k := (c.lastAdv - it.low) / c.tick
		switch {
		case k <= 2:
			off = fmt.Sprint(k)
		default:
			off = ">2"
		}
	}
	if c.quiet {
		return true
	}
	c.r.DistinctClass(fmt.Sprintf("ratio=%s timeout=%s premise=%v fired_ticks_after_earliest=%s", c.ratioCls, it.tcls, it.premise, off))
	c.r.Distinct(fmt.Sprintf("%d/%d/%s/%s/%s/%v", c.tick, c.span, it.tcls, c.gapCls, off, it.premise))
	return true
}

func (c *c33Run) drain() {
	for !c.stop && c.purge() {
	}
}

func (c *c33Run) finish() {
	if c.stop {
		return
	}
	rev := c.span + 2*c.tick
	c.advance(10*rev+3*c.tick, "final")
	c.drain()
	if c.stop {
		return
	}
	for _, it := range c.out {
		c.r.Violation("C33/lost", fmt.Sprintf("item added at %d with timeout %d (tick %d span %d premise=%v) was never returned, even after advancing ten revolutions and draining",
			it.addAt, it.timeout, c.tick, c.span, it.premise), c.replay(map[string]any{"item": it.id}))
		break
	}
	// a second flush must not produce anything again
	c.advance(2*rev, "final2")
	c.drain()
}

func TestVerifC33Wheel(t *testing.T) {
	r := verifkit.NewReporter(t, "C33", "wheel",
		"PRNG add/advance/purge histories on the real TimerWheel and LockingTimerWheel over a simulated clock: tick in {1ns..1s}, span/tick in {1,1.5,2,7,100,random}, timeouts {negative,0,<tick,tick,k*tick-1,k*tick,k*tick+1,span-1,span,span+1,2*span,10*span,random}, advance gaps {0,1ns,<tick,tick-1,tick,tick+1,few ticks,1.5 rev,10 rev}, partial and complete drains, bursts of >50000 items to fill and recycle the item cache; one evaluation per Advance and per Purge; distinct = (tick, span, timeout class, gap class of the firing advance, ticks after the earliest allowed firing, premise) tuples")
	defer r.Done()

	cases := verifkit.Scale(24000, 1200000)
	ticks := []int64{1, 7, int64(333 * time.Microsecond), int64(time.Millisecond), int64(2 * time.Millisecond), int64(10 * time.Millisecond), int64(100 * time.Millisecond), int64(500 * time.Millisecond), int64(time.Second)}
	for ci := 0; ci < cases; ci++ {
		if !verifkit.Mine(ci) {
			continue
		}
		rng := verifkit.SubRand("C33wheel", ci)
		tick := ticks[rng.IntN(len(ticks))]
		var span int64
		var ratioCls string
		switch rng.IntN(7) {
		case 0:
			span, ratioCls = tick, "1"
		case 1:
			span, ratioCls = tick*3/2, "1.5"
		case 2:
			span, ratioCls = 2*tick, "2"
		case 3:
			span, ratioCls = 7*tick, "7"
		case 4:
			span, ratioCls = 100*tick, "100"
		case 5:
			span, ratioCls = tick*int64(1+rng.IntN(40))+rng.Int64N(tick), "n+frac"
		default:
			span, ratioCls = tick*int64(1+rng.IntN(40)), "n"
		}
		if span < tick {
			span = tick
		}
		locking := ci%4 == 3
		burst := ci%1000 == 7 || ci == 2
		c := &c33Run{r: r, tick: tick, span: span, lastAdv: -1, items: map[uint64]*c33Item{}, out: map[uint64]*c33Item{},
			ratioCls: ratioCls, caseIdx: ci, nextID: uint64(ci) << 32}
		if locking {
			lw := NewLockingTimerWheel[uint64](time.Duration(tick), time.Duration(span))
			c.w, c.raw = lw, lw.t
		} else {
			tw := NewTimerWheel[uint64](time.Duration(tick), time.Duration(span))
			c.w, c.raw = tw, tw
		}
		c.cfg = func() string {
			return fmt.Sprintf("tick=%s span=%s locking=%v burst=%v", time.Duration(tick), time.Duration(span), locking, burst)
		}
		r.Pre("C33 case %d %s", ci, c.cfg())
		c.clk = rng.Int64N(int64(time.Hour))
		rev := span + 2*tick

		pickTimeout := func() (int64, string) {
			kmax := span/tick + 3
			k := 1 + rng.Int64N(kmax)
			switch rng.IntN(14) {
			case 0:
				return 0, "0"
			case 1:
				return -1 - rng.Int64N(tick), "negative"
			case 2:
				return rng.Int64N(tick), "<tick"
			case 3:
				return tick, "tick"
			case 4:
				return k*tick - 1, "k*tick-1"
			case 5:
				return k * tick, "k*tick"
			case 6:
				return k*tick + 1, "k*tick+1"
			case 7:
				return span - 1, "span-1"
			case 8:
				return span, "span"
			case 9:
				return span + 1, "span+1"
			case 10:
				return 2 * span, "2*span"
			case 11:
				return 10*span + rng.Int64N(span), "10*span"
			default:
				return rng.Int64N(span + span/5 + 2), "random"
			}
		}
		pickGap := func() (int64, string) {
			switch rng.IntN(12) {
			case 0:
				return 0, "0"
			case 1:
				return 1, "1ns"
			case 2:
				return rng.Int64N(tick), "<tick"
			case 3:
				return tick - 1, "tick-1"
			case 4:
				return tick, "tick"
			case 5:
				return tick + 1, "tick+1"
			case 6, 7:
				return rng.Int64N(4*tick + 1), "few-ticks"
			case 8:
				return rev + rev/2, "1.5rev"
			case 9:
				return 10*rev + rng.Int64N(tick), "10rev"
			case 10:
				return rev - 1 + rng.Int64N(3), "rev+-1"
			default:
				return rng.Int64N(2*rev + 1), "random<=2rev"
			}
		}
		afterAdvance := func() {
			switch x := rng.IntN(10); {
			case x < 6:
				c.drain()
			case x < 8:
				for n := 1 + rng.IntN(4); n > 0 && !c.stop; n-- {
					if !c.purge() {
						break
					}
				}
			}
		}

		if burst {
			// fill the item cache beyond its capacity, then reuse the recycled items
			for round := 0; round < 2 && !c.stop; round++ {
				c.advance(rng.Int64N(3*tick+1), "few-ticks")
				c.drain()
				n := timerCacheMax + 1 + rng.IntN(20000)
				for i := 0; i < n && !c.stop; i++ {
					if i%1000 == 999 {
						g, gc := pickGap()
						if g > 2*tick {
							g, gc = rng.Int64N(2*tick+1), "few-ticks"
						}
						c.advance(g, gc)
						// no purge here: let the expired list grow
					}
					to, cls := pickTimeout()
					c.add(to, cls)
				}
				c.advance(rev+3*tick, "1.5rev")
				c.drain()
				if c.raw.itemsCached >= timerCacheMax {
					r.Count("cache_full", 1)
				}
				if c.raw.itemsCached > timerCacheMax {
					r.Violation("C33/cache-overfull", fmt.Sprintf("item cache holds %d > %d", c.raw.itemsCached, timerCacheMax), c.replay(nil))
				}
			}
			r.Count("burst_cases", 1)
		}

		steps := 40 + rng.IntN(360)
		for s := 0; s < steps && !c.stop; s++ {
			switch x := rng.IntN(100); {
			case x < 38:
				switch y := rng.IntN(100); {
				case y < 80:
					if c.lastAdv != c.clk {
						c.advance(0, "0")
						afterAdvance()
					}
				case y < 90 && c.lastAdv >= 0:
					// the clock moved on since the last Advance: premise does not hold
					c.clk += 1 + rng.Int64N(3*tick)
					c.logOp("clock +-> %d (no advance)", c.clk)
				}
				to, cls := pickTimeout()
				c.add(to, cls)
				// sometimes several adds at the same instant
				for rng.IntN(3) == 0 {
					to, cls = pickTimeout()
					c.add(to, cls)
				}
			case x < 75:
				g, gc := pickGap()
				c.advance(g, gc)
				afterAdvance()
			case x < 88:
				c.purge()
			case x < 96:
				c.drain()
			default:
				c.clk += rng.Int64N(2*tick + 1)
				c.logOp("clock +-> %d (no advance)", c.clk)
			}
		}
		c.finish()
		r.Count("histories", 1)
		if locking {
			r.Count("locking_histories", 1)
		}
		if r.WantSample() {
			r.Sample(map[string]any{"case": ci, "config": c.cfg(), "items": len(c.items), "first_ops": c.opStrings(12)})
		}
		if r.NViolations() > 6 {
			break
		}
	}
}

// TestVerifC33Small enumerates short histories completely on tiny wheels: every sequence of
// {add with each timeout of a small alphabet, advance by each gap of a small alphabet followed by a
// complete drain, advance without purge, single purge} up to a bounded length.
func TestVerifC33Small(t *testing.T) {
	r := verifkit.NewReporter(t, "C33", "small",
		"exhaustive enumeration of op sequences (adds with timeouts tick, tick+1ns, span, span+1ns; advances by 0, tick-1ns, tick, tick+1ns, more than a revolution with and without drain; single purge) up to a bounded length on wheels with span/tick in {1,1.5,2,3}; distinct = distinct op sequences (prefixes count once)")
	defer r.Done()
	const tick = int64(10)
	type wcfg struct {
		span   int64
		length int
	}
	cfgs := []wcfg{{10, 5}, {15, 5}, {20, 5}, {30, 5}}
	if verifkit.Thorough() {
		cfgs = []wcfg{{10, 6}, {15, 6}, {20, 6}, {30, 6}, {25, 6}}
	}
	for _, wc := range cfgs {
		span := wc.span
		timeouts := []int64{tick, tick + 1, span, span + 1}
		rev := span + 2*tick
		gaps := []int64{0, tick - 1, tick, tick + 1, rev + 1}
		nops := len(timeouts) + 2*len(gaps) + 1
		seq := make([]int, wc.length)
		total := 1
		for i := 0; i < wc.length; i++ {
			total *= nops
		}
		for n := 0; n < total; n++ {
			x := n
			for i := range seq {
				seq[i] = x % nops
				x /= nops
			}
			if !verifkit.Mine(n) {
				continue
			}
			tw := NewTimerWheel[uint64](time.Duration(tick), time.Duration(span))
			c := &c33Run{r: r, w: tw, raw: tw, tick: tick, span: span, lastAdv: -1, items: map[uint64]*c33Item{}, out: map[uint64]*c33Item{},
				quiet: true, caseIdx: n, cfg: func() string { return fmt.Sprintf("exhaustive tick=%d span=%d seq=%v", tick, span, seq) }}
			// the wheel starts advanced to time 3 (mid-tick phase is covered by the gap alphabet)
			c.clk = 3
			c.advance(0, "0")
			for _, op := range seq {
				switch {
				case op < len(timeouts):
					c.add(timeouts[op], "")
				case op < len(timeouts)+len(gaps):
					c.advance(gaps[op-len(timeouts)], "")
					c.drain()
				case op < len(timeouts)+2*len(gaps):
					c.advance(gaps[op-len(timeouts)-len(gaps)], "")
				default:
					c.purge()
				}
				if c.stop {
					break
				}
			}
			c.finish()
			r.DistinctU64(uint64(n)<<8 | uint64(span))
			if r.NViolations() > 6 {
				return
			}
		}
		r.Exhaustive(fmt.Sprintf("tick=%d span=%d: all %d op sequences of length %d over %d ops", tick, span, total, wc.length, nops))
	}
}
