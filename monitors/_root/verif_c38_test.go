package nebula

// C38 — allow lists use longest-prefix semantics with a safe default.
//
// Reference (written from the property statement and the remote_allow_list / remote_allow_ranges /
// local_allow_list paragraphs of examples/config.yml — not from allow_list.go):
//
//   - a list is a map CIDR -> allow/deny. A key whose address is IPv4-mapped IPv6 (::ffff:a.b.c.d/n, n >= 96)
//     is the IPv4 rule a.b.c.d/(n-96) ("IPv4-mapped addresses are treated as IPv4").
//   - per family: if a /0 rule exists it is the default; otherwise, if all rules of the family have the same
//     value the default is the opposite value; a family without any rule allows ("By default, any remote IPs
//     are allowed"); rules of both values without a /0 rule -> the whole list is refused.
//   - answer(addr) = value of the most specific rule of addr's family containing addr, else the family default;
//     an IPv4-mapped query address is answered as its IPv4 address.
//   - no list configured -> everything allowed.
//   - remote: Allow(vpn, udp) = global(udp) AND list-of-the-most-specific-range-containing(vpn)(udp);
//     AllowAll(vpns, udp) = global(udp) AND that for every vpn; AllowUnknownVpnAddr(a) = global(a).
//   - local: `interfaces` is a map regexp -> value, all values equal or the list is refused; a name is answered
//     with that value if some regexp matches the ENTIRE name, otherwise with the opposite; no rules -> allowed.
//
// Open cells (generated, executed, counted, not judged): IPv4-mapped keys with n < 96 (a true IPv6 prefix that
// merely has the mapped address as its base: the documentation does not say what that means).
// Nested remote_allow_ranges: the most specific range decides (longest prefix is the semantics of the feature).

import (
	"fmt"
	"log/slog"
	"math/rand/v2"
	"net/netip"
	"regexp"
	"strings"
	"testing"

	"github.com/slackhq/nebula/config"
	"github.com/slackhq/nebula/verifkit"
)

// ---------- reference ----------

type c38Rule struct {
	Key string `json:"key"`
	Val bool   `json:"value"`
}

type c38List struct {
	Rules []c38Rule `json:"rules"`
}

type c38Parsed struct {
	fam    int // 4 or 6
	pfx    netip.Prefix
	mapped bool // written as IPv4-mapped IPv6 with n >= 96
	open   bool // IPv4-mapped base address with n < 96: not judged
}

func c38ParseKey(key string) (c38Parsed, bool) {
	p, err := netip.ParsePrefix(key)
	if err != nil {
		return c38Parsed{}, false
	}
	a := p.Addr()
	switch {
	case a.Is4():
		return c38Parsed{fam: 4, pfx: p.Masked()}, true
	case a.Is4In6() && p.Bits() >= 96:
		return c38Parsed{fam: 4, pfx: netip.PrefixFrom(a.Unmap(), p.Bits()-96).Masked(), mapped: true}, true
	case a.Is4In6():
		return c38Parsed{fam: 6, pfx: p.Masked(), open: true}, true
	default:
		return c38Parsed{fam: 6, pfx: p.Masked()}, true
	}
}

// refuse says whether the reference refuses the list (and why).
func (l *c38List) refuse() (bool, string) {
	if l == nil {
		return false, ""
	}
	for _, fam := range []int{4, 6} {
		hasDefault, sawTrue, sawFalse := false, false, false
		for _, r := range l.Rules {
			p, ok := c38ParseKey(r.Key)
			if !ok {
				return true, "bad cidr " + r.Key
			}
			if p.fam != fam {
				continue
			}
			if p.pfx.Bits() == 0 {
				hasDefault = true
			}
			if r.Val {
				sawTrue = true
			} else {
				sawFalse = true
			}
		}
		if !hasDefault && sawTrue && sawFalse {
			return true, fmt.Sprintf("ipv%d rules of both values without a default", fam)
		}
	}
	return false, ""
}

func (l *c38List) hasOpen() bool {
	if l == nil {
		return false
	}
	for _, r := range l.Rules {
		if p, ok := c38ParseKey(r.Key); ok && p.open {
			return true
		}
	}
	return false
}

func (l *c38List) hasMapped() bool {
	if l == nil {
		return false
	}
	for _, r := range l.Rules {
		if p, ok := c38ParseKey(r.Key); ok && p.mapped {
			return true
		}
	}
	return false
}

// allow answers addr; depth is the length of the deciding rule (-1: implicit default).
func (l *c38List) allow(addr netip.Addr) (verdict bool, depth int) {
	if l == nil {
		return true, -1
	}
	addr = addr.Unmap()
	fam := 6
	if addr.Is4() {
		fam = 4
	}
	best, bestVal := -1, false
	any, val := false, false
	for _, r := range l.Rules {
		p, _ := c38ParseKey(r.Key)
		if p.fam != fam {
			continue
		}
		any, val = true, r.Val
		if p.pfx.Contains(addr) && p.pfx.Bits() > best {
			best, bestVal = p.pfx.Bits(), r.Val
		}
	}
	if best >= 0 {
		return bestVal, best
	}
	if !any {
		return true, -1
	}
	return !val, -1 // uniform (checked by refuse): default is the opposite
}

// normalised returns the same list with every key rewritten in canonical native form.
func (l *c38List) normalised() *c38List {
	if l == nil {
		return nil
	}
	n := &c38List{}
	for _, r := range l.Rules {
		p, _ := c38ParseKey(r.Key)
		n.Rules = append(n.Rules, c38Rule{Key: p.pfx.String(), Val: r.Val})
	}
	return n
}

type c38Range struct {
	Key  string   `json:"range"`
	List *c38List `json:"list"`
}

type c38Remote struct {
	Global *c38List   `json:"remote_allow_list"`
	Ranges []c38Range `json:"remote_allow_ranges"`
}

func (m *c38Remote) refuse() (bool, string) {
	if rf, why := m.Global.refuse(); rf {
		return true, why
	}
	for _, rg := range m.Ranges {
		if _, ok := c38ParseKey(rg.Key); !ok {
			return true, "bad range cidr"
		}
		if rf, why := rg.List.refuse(); rf {
			return true, "range " + rg.Key + ": " + why
		}
	}
	return false, ""
}

func (m *c38Remote) inside(vpn netip.Addr) *c38List {
	fam := 6
	if vpn.Is4() {
		fam = 4
	}
	best := -1
	var bl *c38List
	for _, rg := range m.Ranges {
		p, _ := c38ParseKey(rg.Key)
		if p.fam == fam && p.pfx.Contains(vpn) && p.pfx.Bits() > best {
			best, bl = p.pfx.Bits(), rg.List
		}
	}
	return bl
}

func (m *c38Remote) allow(vpn, udp netip.Addr) bool {
	g, _ := m.Global.allow(udp)
	i, _ := m.inside(vpn).allow(udp)
	return g && i
}

func (m *c38Remote) allowAll(vpns []netip.Addr, udp netip.Addr) bool {
	if g, _ := m.Global.allow(udp); !g {
		return false
	}
	for _, v := range vpns {
		if i, _ := m.inside(v).allow(udp); !i {
			return false
		}
	}
	return true
}

func (m *c38Remote) normalised() *c38Remote {
	n := &c38Remote{Global: m.Global.normalised()}
	for _, rg := range m.Ranges {
		p, _ := c38ParseKey(rg.Key)
		n.Ranges = append(n.Ranges, c38Range{Key: p.pfx.String(), List: rg.List.normalised()})
	}
	return n
}

func (m *c38Remote) anyMappedOrOpen() (mapped, open bool) {
	chk := func(l *c38List) {
		mapped = mapped || l.hasMapped()
		open = open || l.hasOpen()
	}
	chk(m.Global)
	for _, rg := range m.Ranges {
		p, _ := c38ParseKey(rg.Key)
		mapped = mapped || p.mapped
		open = open || p.open
		chk(rg.List)
	}
	return
}

// ---------- YAML ----------

func c38ListYaml(sb *strings.Builder, indent string, l *c38List) {
	for _, r := range l.Rules {
		fmt.Fprintf(sb, "%s%q: %v\n", indent, r.Key, r.Val)
	}
}

func c38RemoteYaml(m *c38Remote) string {
	var sb strings.Builder
	sb.WriteString("lighthouse:\n  am_lighthouse: false\n")
	if m.Global != nil {
		if len(m.Global.Rules) == 0 {
			sb.WriteString("  remote_allow_list: {}\n")
		} else {
			sb.WriteString("  remote_allow_list:\n")
			c38ListYaml(&sb, "    ", m.Global)
		}
	}
	if m.Ranges != nil {
		if len(m.Ranges) == 0 {
			sb.WriteString("  remote_allow_ranges: {}\n")
		} else {
			sb.WriteString("  remote_allow_ranges:\n")
			for _, rg := range m.Ranges {
				if len(rg.List.Rules) == 0 {
					fmt.Fprintf(&sb, "    %q: {}\n", rg.Key)
					continue
				}
				fmt.Fprintf(&sb, "    %q:\n", rg.Key)
				c38ListYaml(&sb, "      ", rg.List)
			}
		}
	}
	return sb.String()
}

type c38NameRule struct {
	Re  string `json:"regexp"`
	Val bool   `json:"value"`
}

type c38Local struct {
	List      *c38List      `json:"local_allow_list"` // nil: key absent
	HasIfaces bool          `json:"has_interfaces"`
	Names     []c38NameRule `json:"interfaces"`
}

func c38LocalYaml(m *c38Local) string {
	var sb strings.Builder
	sb.WriteString("lighthouse:\n  am_lighthouse: false\n")
	if m.List == nil {
		return sb.String()
	}
	if len(m.List.Rules) == 0 && !m.HasIfaces {
		sb.WriteString("  local_allow_list: {}\n")
		return sb.String()
	}
	sb.WriteString("  local_allow_list:\n")
	if m.HasIfaces {
		if len(m.Names) == 0 {
			sb.WriteString("    interfaces: {}\n")
		} else {
			sb.WriteString("    interfaces:\n")
			for _, n := range m.Names {
				fmt.Fprintf(&sb, "      '%s': %v\n", strings.ReplaceAll(n.Re, "'", "''"), n.Val)
			}
		}
	}
	c38ListYaml(&sb, "    ", m.List)
	return sb.String()
}

func (m *c38Local) refuse() (bool, string) {
	if m.List == nil {
		return false, ""
	}
	if rf, why := m.List.refuse(); rf {
		return true, why
	}
	t, f := false, false
	for _, n := range m.Names {
		if _, err := regexp.Compile(n.Re); err != nil {
			return true, "bad regexp"
		}
		if n.Val {
			t = true
		} else {
			f = true
		}
	}
	if t && f {
		return true, "interface rules of both values"
	}
	return false, ""
}

func (m *c38Local) allowName(name string) (verdict, matched bool) {
	if m.List == nil || len(m.Names) == 0 {
		return true, false
	}
	for _, n := range m.Names {
		// "The regexp must match the entire name"
		if c38FullMatch(n.Re, name) {
			return n.Val, true
		}
	}
	return !m.Names[0].Val, false
}

// c38FullMatch: does the regular expression match the entire string? Written with a non-capturing group so
// that alternations are anchored as a whole.
func c38FullMatch(re, s string) bool {
	return regexp.MustCompile(`^(?:` + re + `)$`).MatchString(s)
}

// ---------- real code drivers ----------

func c38LoadRemote(l *slog.Logger, y string) (*RemoteAllowList, error) {
	c := config.NewC(l)
	if err := c.LoadString(y); err != nil {
		return nil, fmt.Errorf("yaml: %w", err)
	}
	return NewRemoteAllowListFromConfig(c, "lighthouse.remote_allow_list", "lighthouse.remote_allow_ranges")
}

func c38LoadLocal(l *slog.Logger, y string) (*LocalAllowList, error) {
	c := config.NewC(l)
	if err := c.LoadString(y); err != nil {
		return nil, fmt.Errorf("yaml: %w", err)
	}
	return NewLocalAllowListFromConfig(c, "lighthouse.local_allow_list")
}

// ---------- generators ----------

type c38Gen struct {
	rng     *rand.Rand
	anchor4 []netip.Addr
	anchor6 []netip.Addr
}

func newC38Gen(rng *rand.Rand) *c38Gen {
	g := &c38Gen{rng: rng}
	for i := 0; i < 3; i++ {
		g.anchor4 = append(g.anchor4, g.randAddr(false))
		g.anchor6 = append(g.anchor6, g.randAddr(true))
	}
	return g
}

func (g *c38Gen) randAddr(v6 bool) netip.Addr {
	if v6 {
		var b [16]byte
		for i := range b {
			b[i] = byte(g.rng.UintN(256))
		}
		switch g.rng.IntN(5) {
		case 0:
			b[0], b[1] = 0xfd, 0
		case 1:
			b[0], b[1] = 0x20, 0x01
		case 2:
			b[0], b[1] = 0xfe, 0x80
		}
		a := netip.AddrFrom16(b)
		if a.Is4In6() {
			b[0] = 0x20
			a = netip.AddrFrom16(b)
		}
		return a
	}
	var b [4]byte
	for i := range b {
		b[i] = byte(g.rng.UintN(256))
	}
	switch g.rng.IntN(6) {
	case 0:
		b[0] = 10
	case 1:
		b[0], b[1] = 192, 168
	case 2:
		b[0], b[1] = 172, 16+byte(g.rng.IntN(16))
	}
	return netip.AddrFrom4(b)
}

// within returns an address inside p with random host bits.
func (g *c38Gen) within(p netip.Prefix) netip.Addr {
	a := p.Masked().Addr().AsSlice()
	for b := p.Bits(); b < len(a)*8; b++ {
		if g.rng.IntN(2) == 0 {
			a[b/8] |= 1 << (7 - uint(b%8))
		}
	}
	r, _ := netip.AddrFromSlice(a)
	return r
}

func c38FlipBit(a netip.Addr, bit int) netip.Addr {
	s := a.AsSlice()
	s[bit/8] ^= 1 << (7 - uint(bit%8))
	r, _ := netip.AddrFromSlice(s)
	return r
}

func c38Last(p netip.Prefix) netip.Addr {
	a := p.Masked().Addr().AsSlice()
	for b := p.Bits(); b < len(a)*8; b++ {
		a[b/8] |= 1 << (7 - uint(b%8))
	}
	r, _ := netip.AddrFromSlice(a)
	return r
}

// prefix draws a prefix of the family, biased to nest with earlier ones (same anchors, varying lengths).
func (g *c38Gen) prefix(v6 bool) netip.Prefix {
	bl := 32
	anchors := g.anchor4
	if v6 {
		bl = 128
		anchors = g.anchor6
	}
	var a netip.Addr
	if g.rng.IntN(4) != 0 {
		a = anchors[g.rng.IntN(len(anchors))]
	} else {
		a = g.randAddr(v6)
	}
	var bits int
	switch g.rng.IntN(8) {
	case 0:
		bits = []int{1, 8, 16, 24, 31, 32}[g.rng.IntN(6)]
		if v6 {
			bits = []int{1, 16, 32, 48, 64, 96, 127, 128}[g.rng.IntN(8)]
		}
	case 1:
		bits = bl
	default:
		bits = 1 + g.rng.IntN(bl)
	}
	p := netip.PrefixFrom(a, bits).Masked()
	// perturb below the anchor prefix so siblings exist
	if g.rng.IntN(3) == 0 && bits > 1 {
		p = netip.PrefixFrom(c38FlipBit(p.Addr(), g.rng.IntN(bits)), bits).Masked()
	}
	return p
}

// keyText renders a canonical prefix in one of the accepted spellings. mappedRate is per 1000.
func (g *c38Gen) keyText(p netip.Prefix, mappedRate int) string {
	if p.Addr().Is4() && g.rng.IntN(1000) < mappedRate {
		m := netip.AddrFrom16(p.Addr().As16())
		return netip.PrefixFrom(m, p.Bits()+96).String()
	}
	if g.rng.IntN(8) == 0 && p.Bits() < p.Addr().BitLen() {
		// host bits set: legal spelling of the same CIDR
		return netip.PrefixFrom(g.within(p), p.Bits()).String()
	}
	if p.Addr().Is6() && g.rng.IntN(8) == 0 {
		return p.Addr().StringExpanded() + fmt.Sprintf("/%d", p.Bits())
	}
	return p.String()
}

// list draws an allow list. mode per family: 0 none, 1 all-true, 2 all-false, 3 mixed+default, 4 mixed without default.
func (g *c38Gen) list(mappedRate int, allowRefuse bool) *c38List {
	l := &c38List{}
	seen := map[netip.Prefix]bool{}
	for _, v6 := range []bool{false, true} {
		mode := []int{0, 1, 2, 3, 3, 3, 1, 2}[g.rng.IntN(8)]
		if allowRefuse && g.rng.IntN(12) == 0 {
			mode = 4
		}
		if mode == 0 {
			continue
		}
		n := 1 + g.rng.IntN(6)
		if mode >= 3 {
			n = 2 + g.rng.IntN(7)
		}
		zero := netip.PrefixFrom(netip.IPv4Unspecified(), 0)
		if v6 {
			zero = netip.PrefixFrom(netip.IPv6Unspecified(), 0)
		}
		var vals []bool
		var pfxs []netip.Prefix
		for i := 0; i < n; i++ {
			p := g.prefix(v6)
			if seen[p] {
				continue
			}
			seen[p] = true
			pfxs = append(pfxs, p)
			switch mode {
			case 1:
				vals = append(vals, true)
			case 2:
				vals = append(vals, false)
			default:
				vals = append(vals, g.rng.IntN(2) == 0)
			}
		}
		if mode == 3 || ((mode == 1 || mode == 2) && g.rng.IntN(6) == 0) {
			pfxs = append(pfxs, zero)
			vals = append(vals, g.rng.IntN(2) == 0)
		}
		if mode == 4 { // force both values
			if len(vals) < 2 {
				continue
			}
			vals[0], vals[1] = true, false
		}
		for i, p := range pfxs {
			l.Rules = append(l.Rules, c38Rule{Key: g.keyText(p, mappedRate), Val: vals[i]})
		}
	}
	g.rng.Shuffle(len(l.Rules), func(i, j int) { l.Rules[i], l.Rules[j] = l.Rules[j], l.Rules[i] })
	return l
}

// probes returns query addresses for a list: inside, first, last, sibling of each rule, plus random ones.
func (g *c38Gen) probes(l *c38List, extra int) []netip.Addr {
	var out []netip.Addr
	if l != nil {
		for _, r := range l.Rules {
			p, ok := c38ParseKey(r.Key)
			if !ok || p.open {
				continue
			}
			out = append(out, g.within(p.pfx), p.pfx.Addr(), c38Last(p.pfx))
			if p.pfx.Bits() > 0 {
				out = append(out, g.within(netip.PrefixFrom(c38FlipBit(p.pfx.Addr(), p.pfx.Bits()-1), p.pfx.Bits())))
			}
		}
	}
	for i := 0; i < extra; i++ {
		out = append(out, g.randAddr(i%2 == 0))
	}
	return out
}

func c38MapAddr(a netip.Addr) netip.Addr { return netip.AddrFrom16(a.As16()) }

// ---------- classification / shrinking ----------

// c38Shrink removes rules while keep() still holds.
func c38Shrink(l *c38List, keep func(*c38List) bool) *c38List {
	cur := &c38List{Rules: append([]c38Rule(nil), l.Rules...)}
	for changed := true; changed; {
		changed = false
		for i := 0; i < len(cur.Rules); i++ {
			cand := &c38List{Rules: append(append([]c38Rule(nil), cur.Rules[:i]...), cur.Rules[i+1:]...)}
			if len(cand.Rules) > 0 && keep(cand) {
				cur, changed = cand, true
				i--
			}
		}
	}
	return cur
}

func c38GlobalVerdict(l *slog.Logger, lst *c38List, q netip.Addr) (loaded bool, verdict bool) {
	ral, err := c38LoadRemote(l, c38RemoteYaml(&c38Remote{Global: lst}))
	if err != nil {
		return false, false
	}
	return true, ral.AllowUnknownVpnAddr(q)
}

// c38ClassifyVerdict names the witness class of a verdict disagreement on (list, query) by differential
// re-execution of the REAL code: first on the unmapped query (same loaded list), then on the canonical
// spelling of the list. ral is the real list already loaded from lst (nil: load it here).
func c38ClassifyVerdict(l *slog.Logger, ral *RemoteAllowList, lst *c38List, q netip.Addr, want bool) string {
	if ral == nil {
		var err error
		if ral, err = c38LoadRemote(l, c38RemoteYaml(&c38Remote{Global: lst})); err != nil {
			return "C38/longest-prefix-mismatch"
		}
	}
	if q.Is4In6() && ral.AllowUnknownVpnAddr(q.Unmap()) == want {
		return "C38/ipv4-mapped-query-answered-by-ipv6-rules"
	}
	if lst.hasMapped() {
		if ok, v := c38GlobalVerdict(l, lst.normalised(), q.Unmap()); ok && v == want {
			return "C38/ipv4-mapped-prefix-dropped"
		}
	}
	return "C38/longest-prefix-mismatch"
}

// ---------- monitors ----------

func TestVerifC38Lists(t *testing.T) {
	r := verifkit.NewReporter(t, "C38", "lists",
		"generated allow-list maps (per family: none / all-allow / all-deny / mixed with default / mixed without default; nested and sibling prefixes on shared anchors; native, host-bits-set, expanded and IPv4-mapped spellings) written as YAML and loaded through config.C into NewRemoteAllowListFromConfig and NewLocalAllowListFromConfig; probes = inside/first/last/sibling address of every rule plus random addresses, IPv4 probes also in IPv4-mapped form; oracle = reference longest-prefix matcher; distinct = distinct (list text, probe) pairs, classes = (families, uniformity, default, mapped spelling, deciding depth, verdict)")
	defer r.Done()
	l := slog.New(slog.DiscardHandler)

	// directed table: documentation examples and boundary spellings
	type dcase struct {
		list  c38List
		probe string
		want  bool
	}
	directed := []dcase{
		{c38List{[]c38Rule{{"172.16.0.0/12", false}}}, "172.16.5.5", false},
		{c38List{[]c38Rule{{"172.16.0.0/12", false}}}, "172.32.0.1", true},
		{c38List{[]c38Rule{{"172.16.0.0/12", false}}}, "2001:db8::1", true},
		{c38List{[]c38Rule{{"0.0.0.0/0", true}, {"10.0.0.0/8", false}, {"10.42.42.0/24", true}}}, "10.42.42.9", true},
		{c38List{[]c38Rule{{"0.0.0.0/0", true}, {"10.0.0.0/8", false}, {"10.42.42.0/24", true}}}, "10.42.43.9", false},
		{c38List{[]c38Rule{{"0.0.0.0/0", true}, {"10.0.0.0/8", false}, {"10.42.42.0/24", true}}}, "8.8.8.8", true},
		{c38List{[]c38Rule{{"10.0.0.0/8", true}}}, "11.0.0.1", false},
		{c38List{[]c38Rule{{"10.0.0.0/8", true}}}, "10.255.255.255", true},
		{c38List{[]c38Rule{{"fd00::/8", false}}}, "fd12::1", false},
		{c38List{[]c38Rule{{"fd00::/8", false}}}, "10.0.0.1", true},
		{c38List{[]c38Rule{{"::ffff:10.0.0.0/104", false}}}, "10.1.2.3", false},
		{c38List{[]c38Rule{{"::ffff:10.0.0.0/104", false}}}, "11.1.2.3", true},
		{c38List{[]c38Rule{{"::ffff:0.0.0.0/96", false}, {"::ffff:10.0.0.0/104", true}}}, "10.1.2.3", true},
		{c38List{[]c38Rule{{"::ffff:0.0.0.0/96", false}, {"::ffff:10.0.0.0/104", true}}}, "9.1.2.3", false},
		{c38List{[]c38Rule{{"10.0.0.0/8", false}}}, "::ffff:10.1.2.3", false},
	}
	if verifkit.Mine(0) {
		for _, d := range directed {
			lst := d.list
			q := netip.MustParseAddr(d.probe)
			y := c38RemoteYaml(&c38Remote{Global: &lst})
			rec := map[string]any{"yaml": y, "probe": d.probe, "expected": d.want}
			var ral *RemoteAllowList
			var err error
			var got bool
			if r.Guard("C38/panic", func() any { return rec }, func() {
				ral, err = c38LoadRemote(l, y)
				if err == nil {
					got = ral.AllowUnknownVpnAddr(q)
				}
			}) {
				continue
			}
			r.Eval(1)
			r.Distinct("directed|" + y + "|" + d.probe)
			if rw, _ := lst.allow(q); rw != d.want {
				t.Errorf("C38 harness: reference disagrees with the directed table on %v %s", lst, d.probe)
			}
			if err != nil {
				key := "C38/valid-list-refused"
				if lst.hasMapped() {
					if _, e2 := c38LoadRemote(l, c38RemoteYaml(&c38Remote{Global: lst.normalised()})); e2 == nil {
						key = "C38/ipv4-mapped-prefix-dropped"
					}
				}
				r.Violation(key, fmt.Sprintf("directed list refused: %v", err), rec)
				continue
			}
			if got != d.want {
				rec["got"] = got
				r.Violation(c38ClassifyVerdict(l, ral, &lst, q, d.want), fmt.Sprintf("list %v: address %s answered %v, documentation says %v", lst.Rules, d.probe, got, d.want), rec)
			}
		}
	}

	shrunk := map[string]bool{}
	nLists := verifkit.Scale(20_000, 1_500_000)
	for li := 0; li < nLists; li++ {
		if !verifkit.Mine(li) {
			continue
		}
		rng := verifkit.SubRand("C38lists", li)
		g := newC38Gen(rng)
		mappedRate := 0
		if rng.IntN(5) == 0 {
			mappedRate = 300
		}
		lst := g.list(mappedRate, true)
		if rng.IntN(40) == 0 { // an open-cell key: IPv4-mapped base with n < 96
			lst.Rules = append(lst.Rules, c38Rule{Key: netip.PrefixFrom(c38MapAddr(g.randAddr(false)), rng.IntN(96)).String(), Val: rng.IntN(2) == 0})
		}
		y := c38RemoteYaml(&c38Remote{Global: lst})
		yl := c38LocalYaml(&c38Local{List: lst})
		r.Pre("lists case %d yaml=%q", li, y)
		rec := func() map[string]any { return map[string]any{"case": li, "yaml": y, "rules": lst.Rules} }

		var ral *RemoteAllowList
		var lal *LocalAllowList
		var errR, errL error
		if r.Guard("C38/panic", func() any { return rec() }, func() {
			ral, errR = c38LoadRemote(l, y)
			lal, errL = c38LoadLocal(l, yl)
		}) {
			continue
		}
		if lst.hasOpen() {
			// open cell: executed and counted, never judged
			r.Count("open_cell_lists", 1)
			r.Eval(1)
			r.DistinctClass(fmt.Sprintf("open-cell mapped-base-short-prefix loaded=%v", errR == nil))
			if errR == nil {
				r.Guard("C38/panic", func() any { return rec() }, func() {
					for _, q := range g.probes(lst, 4) {
						ral.AllowUnknownVpnAddr(q)
					}
				})
			}
			continue
		}
		wantRefuse, why := lst.refuse()
		if (errR == nil) != (errL == nil) {
			r.Violation("C38/local-remote-differ", fmt.Sprintf("same list: remote err=%v local err=%v", errR, errL), rec())
		}
		if wantRefuse {
			r.Eval(1)
			r.Count("refusable_lists", 1)
			r.DistinctClass("refuse: " + strings.TrimPrefix(why, "ipv"))
			r.Distinct("refuse|" + y)
			if errR == nil {
				key := "C38/mixed-without-default-accepted"
				if lst.hasMapped() {
					if _, e2 := c38LoadRemote(l, c38RemoteYaml(&c38Remote{Global: lst.normalised()})); e2 != nil {
						key = "C38/ipv4-mapped-prefix-dropped"
					}
				}
				rc := rec()
				rc["reference"] = "refuse: " + why
				r.Violation(key, "list with allow and deny rules but no default was accepted: "+why, rc)
			}
			continue
		}
		if errR != nil {
			r.Eval(1)
			key := "C38/valid-list-refused"
			if lst.hasMapped() {
				if _, e2 := c38LoadRemote(l, c38RemoteYaml(&c38Remote{Global: lst.normalised()})); e2 == nil {
					key = "C38/ipv4-mapped-prefix-dropped"
				}
			}
			rc := rec()
			rc["error"] = errR.Error()
			r.Violation(key, fmt.Sprintf("well-formed list refused: %v", errR), rc)
			continue
		}
		r.Count("loaded_lists", 1)
		fams := ""
		for _, fam := range []int{4, 6} {
			n, tr, df := 0, 0, false
			for _, ru := range lst.Rules {
				p, _ := c38ParseKey(ru.Key)
				if p.fam == fam {
					n++
					if ru.Val {
						tr++
					}
					df = df || p.pfx.Bits() == 0
				}
			}
			u := "none"
			if n > 0 {
				u = "mixed"
				if tr == n {
					u = "allow"
				} else if tr == 0 {
					u = "deny"
				}
			}
			fams += fmt.Sprintf(" v%d=%s/default=%v", fam, u, df)
		}
		probes := g.probes(lst, 6)
		for pi, q0 := range probes {
			qs := []netip.Addr{q0}
			if q0.Is4() && pi%8 == 0 {
				qs = append(qs, c38MapAddr(q0))
			}
			for _, q := range qs {
				want, depth := lst.allow(q)
				var gotU, gotR, gotL bool
				vpn := g.randAddr(pi%2 == 0)
				if r.Guard("C38/panic", func() any { rc := rec(); rc["probe"] = q.String(); return rc }, func() {
					gotU = ral.AllowUnknownVpnAddr(q)
					gotR = ral.Allow(vpn, q)
					gotL = lal.Allow(q)
				}) {
					continue
				}
				r.Eval(1)
				r.Distinct(y + "|" + q.String())
				dc := "default"
				if depth >= 0 {
					dc = "rule"
				}
				r.DistinctClass(fmt.Sprintf("%s mappedKey=%v mappedQuery=%v decidedBy=%s verdict=%v", fams, lst.hasMapped(), q.Is4In6(), dc, want))
				if depth > 0 {
					r.Count("decided_by_nonzero_rule", 1)
				}
				if q.Is4In6() {
					r.Count("mapped_queries", 1)
				}
				if lst.hasMapped() {
					r.Count("probes_on_lists_with_mapped_keys", 1)
				}
				if gotU != gotR || gotU != gotL {
					rc := rec()
					rc["probe"] = q.String()
					r.Violation("C38/entry-points-differ", fmt.Sprintf("probe %s: AllowUnknownVpnAddr=%v Remote.Allow=%v Local.Allow=%v on the same list", q, gotU, gotR, gotL), rc)
				}
				if gotU != want {
					key := c38ClassifyVerdict(l, ral, lst, q, want)
					small := lst
					if !shrunk[key] { // shrinking re-runs the real code many times: once per witness class
						shrunk[key] = true
						small = c38Shrink(lst, func(c *c38List) bool {
							if rf, _ := c.refuse(); rf {
								return false
							}
							w, _ := c.allow(q)
							ok, v := c38GlobalVerdict(l, c, q)
							return ok && v != w && c38ClassifyVerdict(l, nil, c, q, w) == key
						})
					}
					sw, _ := small.allow(q)
					rc := rec()
					rc["probe"] = q.String()
					rc["reference_verdict"] = want
					rc["real_verdict"] = gotU
					rc["deciding_prefix_len"] = depth
					rc["shrunk_rules"] = small.Rules
					rc["shrunk_yaml"] = c38RemoteYaml(&c38Remote{Global: small})
					rc["shrunk_reference_verdict"] = sw
					r.Violation(key, fmt.Sprintf("address %s: real=%v reference=%v; minimal list %v", q, gotU, want, small.Rules), rc)
				}
			}
		}
		if r.WantSample() {
			r.Sample(map[string]any{"yaml": y, "probes": len(probes)})
		}
	}
}

func TestVerifC38Ranges(t *testing.T) {
	r := verifkit.NewReporter(t, "C38", "ranges",
		"generated remote_allow_list + remote_allow_ranges (0..4 overlay ranges, nested/sibling, IPv4 and IPv6, each with its own generated list; some absent/empty) as YAML through NewRemoteAllowListFromConfig; probes = (overlay address inside/outside every range, underlay address from the probes of the global and the range list); Allow, AllowAll (1..3 overlay addresses) and AllowUnknownVpnAddr vs reference; distinct = distinct (config text, overlay addresses, underlay address)")
	defer r.Done()
	l := slog.New(slog.DiscardHandler)
	n := verifkit.Scale(5000, 400_000)
	for ci := 0; ci < n; ci++ {
		if !verifkit.Mine(ci) {
			continue
		}
		rng := verifkit.SubRand("C38ranges", ci)
		g := newC38Gen(rng)
		mappedRate := 0
		if rng.IntN(8) == 0 {
			mappedRate = 250
		}
		m := &c38Remote{}
		if rng.IntN(5) != 0 {
			m.Global = g.list(mappedRate, rng.IntN(3) == 0)
		}
		if rng.IntN(8) != 0 {
			m.Ranges = []c38Range{}
			seen := map[netip.Prefix]bool{}
			for k := rng.IntN(5); k > 0; k-- {
				p := g.prefix(rng.IntN(3) == 0)
				if seen[p] {
					continue
				}
				seen[p] = true
				m.Ranges = append(m.Ranges, c38Range{Key: g.keyText(p, mappedRate), List: g.list(mappedRate, rng.IntN(6) == 0)})
			}
		}
		mapped, open := m.anyMappedOrOpen()
		if open {
			continue
		}
		y := c38RemoteYaml(m)
		r.Pre("ranges case %d yaml=%q", ci, y)
		rec := func() map[string]any { return map[string]any{"case": ci, "yaml": y, "config": m} }
		var ral *RemoteAllowList
		var err error
		if r.Guard("C38/panic", func() any { return rec() }, func() { ral, err = c38LoadRemote(l, y) }) {
			continue
		}
		// attribute disagreements that vanish when every key is spelled natively to the mapped-key class
		var ral2 *RemoteAllowList
		var err2 error
		loaded2 := false
		attribute := func(generic string, stillWrong func(*RemoteAllowList, error) bool) string {
			if !mapped {
				return generic
			}
			if !loaded2 {
				ral2, err2 = c38LoadRemote(l, c38RemoteYaml(m.normalised()))
				loaded2 = true
			}
			if stillWrong(ral2, err2) {
				return generic
			}
			return "C38/ipv4-mapped-prefix-dropped"
		}
		wantRefuse, why := m.refuse()
		if wantRefuse {
			r.Eval(1)
			r.Count("refusable_configs", 1)
			r.Distinct("refuse|" + y)
			r.DistinctClass("refuse config")
			if err == nil {
				rc := rec()
				rc["reference"] = "refuse: " + why
				r.Violation(attribute("C38/mixed-without-default-accepted", func(_ *RemoteAllowList, e error) bool { return e == nil }),
					"config with a mixed list without default accepted: "+why, rc)
			}
			continue
		}
		if err != nil {
			r.Eval(1)
			rc := rec()
			rc["error"] = err.Error()
			r.Violation(attribute("C38/valid-list-refused", func(_ *RemoteAllowList, e error) bool { return e != nil }),
				fmt.Sprintf("well-formed config refused: %v", err), rc)
			continue
		}
		// probes
		var vpns []netip.Addr
		for _, rg := range m.Ranges {
			p, _ := c38ParseKey(rg.Key)
			vpns = append(vpns, g.within(p.pfx), p.pfx.Addr(), c38Last(p.pfx))
			if p.pfx.Bits() > 0 {
				vpns = append(vpns, g.within(netip.PrefixFrom(c38FlipBit(p.pfx.Addr(), p.pfx.Bits()-1), p.pfx.Bits())))
			}
		}
		vpns = append(vpns, g.randAddr(false), g.randAddr(true))
		var udps []netip.Addr
		udps = append(udps, g.probes(m.Global, 3)...)
		for _, rg := range m.Ranges {
			udps = append(udps, g.probes(rg.List, 1)...)
		}
		for ui, udp := range udps {
			// a few overlay addresses per underlay address
			for k := 0; k < 2; k++ {
				vpn := vpns[rng.IntN(len(vpns))]
				var vset []netip.Addr
				for j := 1 + rng.IntN(3); j > 0; j-- {
					vset = append(vset, vpns[rng.IntN(len(vpns))])
				}
				if ui%7 == 0 && k == 0 {
					vset = nil
				}
				want, wantAll := m.allow(vpn, udp), m.allowAll(vset, udp)
				wantU, _ := m.Global.allow(udp)
				var got, gotAll, gotU bool
				prc := func() map[string]any {
					rc := rec()
					rc["vpn"], rc["udp"], rc["vpn_set"] = vpn.String(), udp.String(), fmt.Sprint(vset)
					return rc
				}
				if r.Guard("C38/panic", func() any { return prc() }, func() {
					got = ral.Allow(vpn, udp)
					gotAll = ral.AllowAll(vset, udp)
					gotU = ral.AllowUnknownVpnAddr(udp)
				}) {
					continue
				}
				r.Eval(1)
				r.Distinct(y + "|" + vpn.String() + "|" + udp.String() + "|" + fmt.Sprint(vset))
				ins := m.inside(vpn)
				gi, _ := m.Global.allow(udp)
				ii, _ := ins.allow(udp)
				r.DistinctClass(fmt.Sprintf("global=%v(%v) range=%v(%v) nAll=%d all=%v mappedKeys=%v", m.Global != nil, gi, ins != nil, ii, len(vset), wantAll, mapped))
				if ins != nil {
					r.Count("probes_with_range_list", 1)
					if gi && !ii {
						r.Count("denied_by_range_only", 1)
					}
				}
				if got != want {
					rc := prc()
					rc["real"], rc["reference"] = got, want
					r.Violation(attribute("C38/range-list-mismatch", func(r2 *RemoteAllowList, e error) bool { return e != nil || r2.Allow(vpn, udp) != want }),
						fmt.Sprintf("Allow(vpn=%s, udp=%s): real=%v reference=%v (global=%v, range list=%v)", vpn, udp, got, want, gi, ii), rc)
				}
				if gotAll != wantAll {
					rc := prc()
					rc["real"], rc["reference"] = gotAll, wantAll
					r.Violation(attribute("C38/allowall-mismatch", func(r2 *RemoteAllowList, e error) bool { return e != nil || r2.AllowAll(vset, udp) != wantAll }),
						fmt.Sprintf("AllowAll(%v, %s): real=%v reference=%v", vset, udp, gotAll, wantAll), rc)
				}
				if gotU != wantU {
					rc := prc()
					rc["real"], rc["reference"] = gotU, wantU
					r.Violation(attribute("C38/longest-prefix-mismatch", func(r2 *RemoteAllowList, e error) bool { return e != nil || r2.AllowUnknownVpnAddr(udp) != wantU }),
						fmt.Sprintf("AllowUnknownVpnAddr(%s): real=%v reference=%v", udp, gotU, wantU), rc)
				}
			}
		}
		if r.WantSample() && len(m.Ranges) > 0 {
			r.Sample(map[string]any{"yaml": y, "overlay_probes": len(vpns), "underlay_probes": len(udps)})
		}
	}
}

var c38NamePool = []string{"eth0", "tun0", "lo", "docker.*", "veth.*", "eth[0-9]+", "wl.*", "en.*", "br-[0-9a-f]+", "(docker|veth).*",
	"eth0|wlan0", "tun.*|utun.*", "docker0|br0|lo", "e.h0", "eth0?", ".*", "nebula[0-9]", "eth[", "(", "tun\\d+", "[ew].*0"}

var c38ProbeNames = []string{"", "eth0", "eth01", "eth", "xeth0", "eth0.100", "wlan0", "wlan0mon", "xwlan0", "tun0", "tun01", "utun3", "xutun3", "tunx",
	"lo", "lo0", "docker0", "docker", "xdocker0", "veth12ab", "br0", "br0x", "xbr0", "br-0af3", "br-xyz", "enp3s0", "nebula1", "nebula12", "e-h0", "et0", "wg0", "eth0|wlan0", "ETH0"}

func TestVerifC38Names(t *testing.T) {
	r := verifkit.NewReporter(t, "C38", "names",
		"generated local_allow_list.interfaces rule sets (0..4 regular expressions from a pool with literals, classes, wildcards, grouped and top-level alternations and two malformed ones; uniform allow / uniform deny / mixed values; with and without CIDR rules) as YAML through NewLocalAllowListFromConfig; every probe name of a fixed 33-name table (exact, prefix-extended, suffix-extended, unrelated) vs reference whole-name match; distinct = distinct (rule set, probe name)")
	defer r.Done()
	l := slog.New(slog.DiscardHandler)
	n := verifkit.Scale(6000, 300_000)
	for ci := 0; ci < n; ci++ {
		if !verifkit.Mine(ci) {
			continue
		}
		rng := verifkit.SubRand("C38names", ci)
		g := newC38Gen(rng)
		m := &c38Local{List: &c38List{}}
		if rng.IntN(3) == 0 {
			m.List = g.list(0, false)
		}
		if rng.IntN(30) == 0 {
			m.List = nil
		}
		if m.List != nil && rng.IntN(12) != 0 {
			m.HasIfaces = true
			mode := rng.IntN(5) // 0,1 allow; 2,3 deny; 4 mixed
			seen := map[string]bool{}
			for k := rng.IntN(5); k > 0; k-- {
				re := c38NamePool[rng.IntN(len(c38NamePool))]
				if (re == "eth[" || re == "(") && rng.IntN(4) != 0 {
					continue
				}
				if seen[re] {
					continue
				}
				seen[re] = true
				v := mode < 2
				if mode == 4 {
					v = rng.IntN(2) == 0
				}
				m.Names = append(m.Names, c38NameRule{Re: re, Val: v})
			}
		}
		y := c38LocalYaml(m)
		r.Pre("names case %d yaml=%q", ci, y)
		rec := func() map[string]any { return map[string]any{"case": ci, "yaml": y, "interfaces": m.Names} }
		var lal *LocalAllowList
		var err error
		if r.Guard("C38/panic", func() any { return rec() }, func() { lal, err = c38LoadLocal(l, y) }) {
			continue
		}
		wantRefuse, why := m.refuse()
		if wantRefuse {
			r.Eval(1)
			r.Distinct("refuse|" + y)
			r.DistinctClass("refuse: " + why)
			r.Count("refusable_rule_sets", 1)
			if err == nil {
				key := "C38/mixed-interface-rules-accepted"
				if why == "bad regexp" {
					key = "C38/bad-interface-regexp-accepted"
				} else if !strings.HasPrefix(why, "interface") {
					key = "C38/mixed-without-default-accepted"
				}
				r.Violation(key, "rule set must be refused ("+why+") but was accepted", rec())
			}
			continue
		}
		if err != nil {
			r.Eval(1)
			rc := rec()
			rc["error"] = err.Error()
			r.Violation("C38/valid-list-refused", fmt.Sprintf("well-formed local_allow_list refused: %v", err), rc)
			continue
		}
		hasAlt := false
		for _, nr := range m.Names {
			depth := 0
			for _, ch := range nr.Re {
				switch {
				case ch == '(':
					depth++
				case ch == ')':
					depth--
				case ch == '|' && depth == 0:
					hasAlt = true
				}
			}
		}
		for _, name := range c38ProbeNames {
			want, matched := m.allowName(name)
			var got bool
			if r.Guard("C38/panic", func() any { rc := rec(); rc["name"] = name; return rc }, func() { got = lal.AllowName(name) }) {
				continue
			}
			r.Eval(1)
			r.Distinct(y + "|name|" + name)
			val := "none"
			if len(m.Names) > 0 {
				val = fmt.Sprint(m.Names[0].Val)
			}
			r.DistinctClass(fmt.Sprintf("rules=%d value=%s matched=%v topLevelAlternation=%v verdict=%v", min(len(m.Names), 2), val, matched, hasAlt, want))
			if matched {
				r.Count("names_matched", 1)
			} else if len(m.Names) > 0 {
				r.Count("names_defaulted", 1)
			}
			if got != want {
				key := "C38/interface-name-mismatch"
				// differential attribution: does the disagreement vanish when every top-level alternation is grouped?
				if hasAlt {
					m2 := *m
					m2.Names = nil
					for _, nr := range m.Names {
						m2.Names = append(m2.Names, c38NameRule{Re: "(" + nr.Re + ")", Val: nr.Val})
					}
					if lal2, e2 := c38LoadLocal(l, c38LocalYaml(&m2)); e2 == nil && lal2.AllowName(name) == want {
						key = "C38/interface-alternation-matches-partial-name"
					}
				}
				rc := rec()
				rc["name"], rc["real"], rc["reference"] = name, got, want
				r.Violation(key, fmt.Sprintf("interfaces %v: name %q real=%v reference=%v (whole-name match: %v)", m.Names, name, got, want, matched), rc)
			}
		}
		// the CIDR part of the same local list still answers addresses
		if m.List != nil && len(m.List.Rules) > 0 {
			for _, q := range g.probes(m.List, 2) {
				want, _ := m.List.allow(q)
				var got bool
				if r.Guard("C38/panic", func() any { return rec() }, func() { got = lal.Allow(q) }) {
					continue
				}
				r.Eval(1)
				r.Distinct(y + "|addr|" + q.String())
				if got != want {
					rc := rec()
					rc["probe"], rc["real"], rc["reference"] = q.String(), got, want
					r.Violation("C38/longest-prefix-mismatch", fmt.Sprintf("local list with interfaces: address %s real=%v reference=%v", q, got, want), rc)
				}
			}
		}
		if r.WantSample() && len(m.Names) > 1 {
			r.Sample(map[string]any{"yaml": y})
		}
	}
}
