package nebula

// C16 — firewall verdicts follow the rule semantics.
//
// The real Firewall (NewFirewall + AddRule + Drop, real certificates, real CA pool, real HostInfo.buildNetworks)
// is compared with the reference evaluator of verif_c16ref_test.go on every evaluation:
//   Drop == nil  <=>  address gate (C17 statement) AND some rule of the direction matches (documented semantics)
// and afterwards: an allowed packet is tracked (entry present, reply direction honoured), a dropped one is not.

import (
	"fmt"
	"net/netip"
	"slices"
	"testing"

	"github.com/slackhq/nebula/firewall"
	"github.com/slackhq/nebula/verifkit"
)

type c16Checker struct {
	r       *verifkit.Reporter
	w       *c16World
	seenKey map[string]bool
}

func newC16Checker(r *verifkit.Reporter, w *c16World) *c16Checker {
	r.Info("open_cells_fixed_by_design", []string{
		"an ICMP/ICMPv6 packet against a `proto: any` rule matches only when that rule's port is `any` (documentation only says the port is ignored for `proto: icmp` rules)",
		"a non-first fragment matches `port: fragment` and `port: any` rules only (it has no port)",
	})
	r.Info("other_reference_choices", []string{
		"`proto: icmp` covers ICMP (1) and ICMPv6 (58)",
		"the filtered port is the destination port (local port for incoming, remote port for outgoing)",
		"a rule without host/group/groups/cidr does not restrict the peer",
		"address gate = C17 statement; the cell 'remote is a certified address of the peer outside the node's networks AND inside the peer's own unsafe network' is not judged (counted as gate_open_cell)",
	})
	return &c16Checker{r: r, w: w, seenKey: map[string]bool{}}
}

func (c *c16Checker) record(node *c16Node, peer *c16Peer, rules []c16Rule, p firewall.Packet, incoming bool, v c16Verdict, got error) map[string]any {
	rs := make([]string, len(rules))
	for i := range rules {
		rs[i] = rules[i].String()
	}
	return map[string]any{"node": node.describe(), "peer": peer.describe(), "rules": rules, "rules_text": rs, "packet": c16PktMap(p, incoming),
		"reference": map[string]any{"remote_ok": v.RemoteOK, "local_ok": v.LocalOK, "matching_rules": v.Matched, "allow": v.Allow, "allow_if_any_in_list_overrides": v.AllowAnyOverrides},
		"drop_returned": fmt.Sprint(got)}
}

// shrink removes rules while the real firewall and the reference still disagree on the packet.
func (c *c16Checker) shrink(node *c16Node, peer *c16Peer, rules []c16Rule, p firewall.Packet, incoming bool) []c16Rule {
	disagree := func(rs []c16Rule) bool {
		fw, err := c.w.buildFirewall(node, rs)
		if err != nil {
			return false
		}
		got := fw.Drop(p, incoming, peer.hostInfo(node), c.w.pool, nil) == nil
		return got != c16Ref(node, peer, rs, p, incoming).Allow
	}
	cur := slices.Clone(rules)
	for i := 0; i < len(cur) && len(cur) > 1; {
		cand := slices.Delete(slices.Clone(cur), i, i+1)
		if disagree(cand) {
			cur = cand
		} else {
			i++
		}
	}
	return cur
}

// judge evaluates one packet on fw (whose conntrack must be empty) and compares with the reference.
func (c *c16Checker) judge(node *c16Node, peer *c16Peer, h *HostInfo, rules []c16Rule, fw *Firewall, p firewall.Packet, incoming bool) (allowed bool) {
	r := c.r
	v := c16Ref(node, peer, rules, p, incoming)
	var err error
	if c16Guard(r, "C16/drop-panics", func() any { return c.record(node, peer, rules, p, incoming, v, nil) }, func() { err = fw.Drop(p, incoming, h, c.w.pool, nil) }) {
		return false
	}
	got := err == nil
	r.Eval(1)
	r.Distinct(c16Sig(v, p, incoming))
	verdict := "allow"
	switch {
	case !v.RemoteOK || !v.LocalOK:
		verdict = "address-gate"
	case !v.Allow:
		verdict = "no-rule"
	}
	r.DistinctClass(fmt.Sprintf("node=%s in=%v pkt=%s ref=%s", node.Label, incoming, c16PktClass(p), verdict))
	if v.Allow {
		r.Count("ref_allow", 1)
		if len(v.Matched) > 1 {
			r.Count("ref_allow_by_several_rules", 1)
		}
	} else if v.RemoteOK && v.LocalOK {
		r.Count("ref_no_rule", 1)
		near := false
		for _, x := range v.Vecs {
			f := 0
			for _, b := range x {
				if !b {
					f++
				}
			}
			if f == 1 {
				near = true
			}
		}
		if near {
			r.Count("ref_no_rule_one_conjunct_short", 1)
		}
	} else {
		r.Count("ref_address_gate", 1)
	}

	if v.GateOpen {
		r.Count("gate_open_cell", 1)
	} else if got != v.Allow && v.Allow != v.AllowAnyOverrides && got == v.AllowAnyOverrides {
		// Open cell, counted and not judged: a `groups` list that mixes "any" with literal groups. The documentation
		// defines `any` for `group` and says listed groups are AND'd, but does not say what "any" means inside a
		// multi-value list; the firewall reads the whole rule as any-host and says so in a load-time warning
		// ("This rule will ignore the other groups specified"). Both readings are evaluated by the reference; the
		// verdict must agree with one of them.
		r.Count("groups_list_mixing_any_with_literals_read_as_any(not judged)", 1)
	} else if got != v.Allow {
		key := "C16/verdict-mismatch"
		switch {
		case v.Allow != v.AllowAnyOverrides && got == v.AllowAnyOverrides:
			key = "C16/groups-list-with-any-ignores-other-groups"
		case got && !(v.RemoteOK && v.LocalOK):
			key = "C16/allowed-with-unauthentic-address"
		case !got && v.Allow && (err == ErrInvalidRemoteIP || err == ErrInvalidLocalIP || err == ErrPeerRejected):
			key = "C16/authentic-address-refused"
		}
		rs := rules
		if !c.seenKey[key] {
			c.seenKey[key] = true
			rs = c.shrink(node, peer, rules, p, incoming)
		}
		vv := c16Ref(node, peer, rs, p, incoming)
		r.Violation(key, fmt.Sprintf("Drop=%v but reference allow=%v (matching rules %v) for %s packet in=%v %s->%s on node %s with rules %v", err, vv.Allow, vv.Matched, c16PktClass(p), incoming, p.RemoteAddr, p.LocalAddr, node.Label, rs),
			c.record(node, peer, rs, p, incoming, vv, err))
	}

	// "Allowed packets are then tracked"
	ct := fw.Conntrack
	if got {
		ct.Lock()
		e, ok := ct.Conns[p]
		ct.Unlock()
		if !ok || e.incoming != incoming {
			r.Violation("C16/allowed-not-tracked", fmt.Sprintf("packet allowed but no conntrack entry (present=%v)", ok), c.record(node, peer, rules, p, incoming, v, err))
		} else {
			r.Count("tracked_entry_seen", 1)
		}
		// the reply direction (for which no rule has to exist) and a repeat must now pass, with and without a routine-local cache
		cache := firewall.ConntrackCache{}
		e1 := fw.Drop(p, !incoming, h, c.w.pool, nil)
		e2 := fw.Drop(p, incoming, h, c.w.pool, cache)
		e3 := fw.Drop(p, !incoming, h, c.w.pool, cache)
		if e1 != nil || e2 != nil || e3 != nil {
			r.Violation("C16/tracked-flow-not-honoured", fmt.Sprintf("after an allowed packet: reverse=%v repeat+cache=%v reverse+cache=%v", e1, e2, e3), c.record(node, peer, rules, p, incoming, v, err))
		} else {
			r.Count("tracked_reply_honoured", 1)
		}
	} else {
		ct.Lock()
		n := len(ct.Conns)
		ct.Unlock()
		if n != 0 {
			r.Violation("C16/dropped-but-tracked", fmt.Sprintf("packet dropped (%v) but %d conntrack entries exist", err, n), c.record(node, peer, rules, p, incoming, v, err))
		}
	}
	return got
}

// TestVerifC16Single enumerates every single-rule rule set over a reduced alphabet and probes it with a fixed
// packet x peer grid.
func TestVerifC16Single(t *testing.T) {
	r := verifkit.NewReporter(t, "C16", "single",
		"EXHAUSTIVE: every single rule over {in,out} x {any,tcp,udp,icmp} x port {any,80,80-81,443,fragment} x groups {-,[g1],[g1 g2],[any],[g1 any]} x host {-,host-a,any} x cidr {-,10.0.1.0/24,0.0.0.0/0,any} x local_cidr {-,any,10.0.0.1/32,192.168.0.0/24} x ca {-,name,sha,name+other sha}, on node variants (unsafe networks / default_local_cidr_any), probed by 3 peers x 2 directions x 2 local addresses x 8 packet shapes; real firewall built once per (rule,node), conntrack replaced by an empty one before every evaluation; distinct = distinct (conjunct truth vector of the rule, gate outcome, packet class, direction)")
	defer r.Done()
	w := c16NewWorld()
	c := newC16Checker(r, w)
	nodes := w.nodes()
	use := []*c16Node{nodes[0], nodes[1]}
	if verifkit.Thorough() {
		use = []*c16Node{nodes[0], nodes[1], nodes[2], nodes[4]}
	}
	peers := []*c16Peer{
		w.newPeer("host-a", []string{"g1", "g2"}, []netip.Prefix{c16P("10.0.1.5/16")}, nil, 0),
		w.newPeer("host-b", []string{"g1"}, []netip.Prefix{c16P("10.0.2.5/16")}, nil, 1),
		w.newPeer("host-c", nil, []netip.Prefix{c16P("10.0.1.9/16")}, []netip.Prefix{c16P("192.168.50.0/24")}, 2),
	}
	type shape struct {
		proto uint8
		dst   uint16
		frag  bool
	}
	shapes := []shape{{6, 80, false}, {6, 81, false}, {6, 82, false}, {6, 443, false}, {6, 0, true}, {17, 80, false}, {1, 0, false}, {47, 0, false}}
	locals := []netip.Addr{c16A("10.0.0.1"), c16A("192.168.0.9")}

	groups := [][]string{nil, {"g1"}, {"g1", "g2"}, {"any"}, {"g1", "any"}}
	hosts := []string{"", "host-a", "any"}
	cidrs := []string{"", "10.0.1.0/24", "0.0.0.0/0", "any"}
	lcidrs := []string{"", "any", "10.0.0.1/32", "192.168.0.0/24"}
	ports := []c16PortSpec{{c16PortAny, 0, 0}, {c16PortSingle, 80, 80}, {c16PortRange, 80, 81}, {c16PortSingle, 443, 443}, {c16PortFragment, 0, 0}}
	type caSel struct{ name, sha string }
	cas := []caSel{{}, {"ca-a", ""}, {"", w.CAs[0].Sha}, {"ca-b", w.CAs[2].Sha}}

	idx := 0
	nrules := 0
	for _, in := range []bool{true, false} {
		for _, proto := range []string{"any", "tcp", "udp", "icmp"} {
			for _, ps := range ports {
				for _, g := range groups {
					for _, host := range hosts {
						for _, cidr := range cidrs {
							for _, lc := range lcidrs {
								for _, ca := range cas {
									idx++
									if !verifkit.Mine(idx) {
										continue
									}
									nrules++
									rule := c16Rule{Incoming: in, Proto: proto, PortKind: ps.kind, Lo: ps.lo, Hi: ps.hi, Groups: g, Host: host, Cidr: cidr, LocalCidr: lc, CAName: ca.name, CASha: ca.sha}
									rules := []c16Rule{rule}
									for _, node := range use {
										fw, err := w.buildFirewall(node, rules)
										if err != nil {
											r.Violation("C16/addrule-error", err.Error(), map[string]any{"rules": rules})
											continue
										}
										for _, peer := range peers {
											h := peer.hostInfo(node)
											for _, dir := range []bool{true, false} {
												for _, la := range locals {
													for _, s := range shapes {
														p := firewall.Packet{LocalAddr: la, RemoteAddr: peer.Addrs[0].Addr(), Protocol: s.proto, Fragment: s.frag}
														if dir {
															p.LocalPort, p.RemotePort = s.dst, 40000
														} else {
															p.LocalPort, p.RemotePort = 40000, s.dst
														}
														if s.proto != 6 && s.proto != 17 || s.frag {
															p.LocalPort, p.RemotePort = 0, 0
														}
														if s.proto == 1 {
															p.RemotePort = 80 // echo identifier, must not be filtered on
														}
														if c.judge(node, peer, h, rules, fw, p, dir) {
															c16FreshConntrack(fw)
														}
													}
												}
											}
										}
									}
								}
							}
						}
					}
				}
			}
		}
	}
	r.Count("rules_enumerated", nrules)
	r.Exhaustive(fmt.Sprintf("all %d single-rule rule sets over the reduced alphabet x %d node variants x 96 probe packets", idx, len(use)))
	r.Sample(map[string]any{"rules_in_alphabet": idx, "nodes": len(use), "probes_per_rule_and_node": len(peers) * 2 * len(locals) * len(shapes)})
}

// TestVerifC16Sets draws rule sets of 1..6 rules over a small alphabet (so they shadow each other and share
// nested table nodes), peers with group subsets and packets over the same alphabet and its neighbours.
func TestVerifC16Sets(t *testing.T) {
	r := verifkit.NewReporter(t, "C16", "sets",
		"PRNG rule sets of 1..6 rules (one third near-copies of an earlier rule) over 15 group lists, 4 hosts, 9 cidrs, 9 local cidrs, 3 CAs (two share a name), ports {any,fragment,1,80,81,443,65535,ranges}; 6 node variants; 32 generated peers (1..3 addresses inside/outside the node networks, unsafe networks, group subsets); 16 packets per rule set drawn from the same alphabet and its neighbours; a FRESH real firewall is built for every evaluation; distinct = distinct (multiset of per-rule conjunct truth vectors, gate outcome, packet class, direction)")
	defer r.Done()
	w := c16NewWorld()
	c := newC16Checker(r, w)
	nodes := w.nodes()
	prng := verifkit.NewRand("C16peers")
	var peers []*c16Peer
	for len(peers) < 32 {
		peers = append(peers, c16GenPeer(prng, w))
	}
	his := map[[2]int]*HostInfo{}
	cases := verifkit.Scale(40_000, 1_500_000)
	const perSet = 16
	for cs := 0; cs < cases; cs++ {
		if !verifkit.Mine(cs) {
			continue
		}
		rng := verifkit.SubRand("C16sets", cs)
		ni := rng.IntN(len(nodes))
		node := nodes[ni]
		rules := c16GenRules(rng, w, 6)
		r.Pre("case %d node=%s rules=%v", cs, node.Label, rules)
		span := 0
		for i := range rules {
			span += rules[i].Hi - rules[i].Lo
		}
		// wide port ranges make the real table expensive to build (one nested table per port): such rule sets get
		// one firewall and an empty conntrack per evaluation instead of a fresh firewall per evaluation
		var shared *Firewall
		if span > 300 {
			var err error
			if shared, err = w.buildFirewall(node, rules); err != nil {
				r.Violation("C16/addrule-error", err.Error(), map[string]any{"rules": rules})
				continue
			}
			r.Count("wide_range_rule_sets", 1)
			r.Count("ports_built", span)
		}
		for k := 0; k < perSet; k++ {
			pi := rng.IntN(len(peers))
			peer := peers[pi]
			h := his[[2]int{ni, pi}]
			if h == nil {
				h = peer.hostInfo(node)
				his[[2]int{ni, pi}] = h
			}
			p, incoming := c16GenPacket(rng, node, peer, false)
			if rng.IntN(3) > 0 {
				p, incoming = c16AimPacket(rng, p, &rules[rng.IntN(len(rules))])
			}
			fw := shared
			if fw == nil {
				var err error
				if fw, err = w.buildFirewall(node, rules); err != nil {
					r.Violation("C16/addrule-error", err.Error(), map[string]any{"rules": rules})
					break
				}
				r.Count("ports_built", span+len(rules))
			} else {
				c16FreshConntrack(fw)
			}
			c.judge(node, peer, h, rules, fw, p, incoming)
			if cs < 2 && k < 2 {
				v := c16Ref(node, peer, rules, p, incoming)
				r.Sample(c.record(node, peer, rules, p, incoming, v, nil))
			}
		}
	}
}
