//go:build e2e_testing

package nebula

// C10 — replayed handshakes do not create or replace tunnels.
//
// Started nodes in a synctest bubble, serialized. Tunnels are established repeatedly (forced re-handshakes from
// real nodes and from puppet peers), every handshake message ever sent is archived, and at random later quiescent
// points an archived first message is replayed at its original receiver — from the original underlay address and
// from a foreign one, after rotations, after the per-address cap evicted tunnels.
// Oracle per replay:
//   (a) the receiver still holds the tunnel that message created  => the tunnel part of the hostmap (primary per
//       address, per-address lists, index / remote-index / relay-index sets) is identical before and after, and the
//       receiver's only handshake emission is its originally recorded reply, byte for byte;
//   (b) the receiver holds, as primary, a tunnel it accepted as responder whose peer-reported time is >= the replayed
//       message's => the primary does not change and no new tunnel appears;
//   any other emission must be a test request on an existing tunnel.
// Replayed second messages (responder -> initiator) must change nothing at all.

import (
	"bytes"
	"fmt"
	"net/netip"
	"sort"
	"strings"
	"testing"
	"time"

	"github.com/slackhq/nebula/cert"
	"github.com/slackhq/nebula/handshake"
	"github.com/slackhq/nebula/header"
	"github.com/slackhq/nebula/verifkit"
)

// c10Tunnels renders only the tunnel-identity part of the hostmap.
func c10Tunnels(n *vnNode) string {
	hm := n.F.hostMap
	var lines []string
	hm.RLock()
	for a, h := range hm.Hosts {
		lines = append(lines, fmt.Sprintf("primary[%s]=%d", a, h.localIndexId))
	}
	for a, l := range hm.moreHosts {
		var ids []string
		for _, h := range l {
			ids = append(ids, fmt.Sprint(h.localIndexId))
		}
		lines = append(lines, fmt.Sprintf("list[%s]=%s", a, strings.Join(ids, ",")))
	}
	for i, h := range hm.Indexes {
		lines = append(lines, fmt.Sprintf("idx[%d]=%v/%d", i, h.vpnAddrs, h.remoteIndexId))
	}
	for i, h := range hm.RemoteIndexes {
		lines = append(lines, fmt.Sprintf("ridx[%d]=%d", i, h.localIndexId))
	}
	for i, h := range hm.Relays {
		lines = append(lines, fmt.Sprintf("relay[%d]=%d", i, h.localIndexId))
	}
	hm.RUnlock()
	sort.Strings(lines)
	return strings.Join(lines, "\n")
}

type c10Stage1 struct {
	pkt      *vnPacket // as it was delivered (From/To/Data)
	victim   *vnNode
	time     uint64
	peerAddr netip.Addr
	initIdx  uint32 // the initiator's index carried in the message; the reply's header addresses it
}

// c10PeekTime extracts the peer-reported time from a stage-1 message by running it through a throw-away responder
// Machine with the victim's own credentials (stage 1 of IX is readable by anyone holding a certificate).
func c10PeekTime(v *vnNode, data []byte) (uint64, netip.Addr, uint32, bool) {
	cs := v.F.pki.getCertState()
	ver := func(c cert.Certificate) (*cert.CachedCertificate, error) {
		return v.F.pki.GetCAPool().VerifyCertificate(time.Now(), c)
	}
	mach, err := handshake.NewMachine(cs.DefaultVersion(), cs.GetCredential, ver, func() (uint32, error) { return 12345, nil }, false, header.HandshakeIXPSK0)
	if err != nil {
		return 0, netip.Addr{}, 0, false
	}
	_, res, err := mach.ProcessPacket(nil, data)
	if err != nil || res == nil {
		return 0, netip.Addr{}, 0, false
	}
	return res.HandshakeTime, res.RemoteCert.Certificate.Networks()[0].Addr(), res.RemoteIndex, true
}

func TestVerifC10(t *testing.T) {
	r := verifkit.NewReporter(t, "C10", "replay",
		"2 real nodes + 1 puppet peer per scenario; up to 8 re-handshakes per pair in virtual time (crossing the 5-tunnel cap); every archived stage-1 and stage-2 message is replayed at PRNG-chosen later quiescent points from the original and from a foreign underlay address; distinct = (message stage, receiver still holds tunnel?, receiver's primary is responder-side and not older?, source, outcome) classes plus one signature per replay")
	defer r.Done()
	scen := verifkit.Scale(8, 200)
	for sc := 0; sc < scen; sc++ {
		if !verifkit.Mine(sc) {
			continue
		}
		rng := verifkit.SubRand("C10", sc)
		vnRunBubble(t, func(t *testing.T) {
			ca := vnNewCA(cert.Version2, cert.Curve_CURVE25519)
			nw := vnNewNet(t)
			over := m{}
			if sc%4 == 3 {
				over = m{"preferred_ranges": []string{"198.51.100.0/24"}}
			}
			vs := []cert.Version{cert.Version2}
			a := nw.AddNode(ca.issue(vs, "a", "10.1.0.1/16", "", nil), []*vnCA{ca}, "192.0.2.1:4242", over)
			b := nw.AddNode(ca.issue(vs, "b", "10.1.0.2/16", "", nil), []*vnCA{ca}, "192.0.2.2:4242", over)
			pp := nw.AddPuppet(ca.issue(vs, "p", "10.1.0.9/16", "", nil), []*vnCA{ca}, "192.0.2.9:4242", cert.Version2)
			a.Start()
			b.Start()
			a.lhAddStatic(b)
			b.lhAddStatic(a)
			nw.Settle()
			defer nw.StopAll()

			var stage1s []*c10Stage1
			var stage2s []*vnPacket
			type rkey struct {
				sender string
				idx    uint32
			}
			reply := map[rkey][]byte{} // (responder, initiator index) -> the first reply the responder ever sent for it
			nw.OnUDP = func(p *vnPacket) {
				if p.HOK && p.H.Type == header.Handshake && p.H.MessageCounter == 2 {
					k := rkey{p.Sender.Name, p.H.RemoteIndex}
					if _, have := reply[k]; !have {
						reply[k] = append([]byte(nil), p.Data...)
					}
				}
			}
			collect := func(p *vnPacket) {
				if !p.HOK || p.H.Type != header.Handshake {
					return
				}
				v := nw.byAddr[p.To]
				if p.H.MessageCounter == 1 && v != nil {
					if tm, pa, ii, ok := c10PeekTime(v, p.Data); ok {
						stage1s = append(stage1s, &c10Stage1{pkt: p, victim: v, time: tm, peerAddr: pa, initIdx: ii})
					}
				} else if p.H.MessageCounter == 2 {
					if v != nil {
						stage2s = append(stage2s, p)
					}
				}
			}
			// deliver everything, recording handshake messages in delivery order
			pump := func() {
				for i := 0; i < 5000 && len(nw.Inflight) > 0; i++ {
					p := nw.Inflight[0]
					collect(p)
					nw.Deliver(p)
				}
			}

			replayOne := func() {
				if len(stage1s) == 0 {
					return
				}
				pickStage2 := len(stage2s) > 0 && rng.IntN(4) == 0
				from := netip.AddrPort{}
				var v *vnNode
				var data []byte
				var s1 *c10Stage1
				if pickStage2 {
					p := stage2s[rng.IntN(len(stage2s))]
					v, data, from = nw.byAddr[p.To], p.Data, p.From
				} else {
					s1 = stage1s[rng.IntN(len(stage1s))]
					v, data, from = s1.victim, s1.pkt.Data, s1.pkt.From
				}
				if v == nil || v.stopped {
					return
				}
				src := "original-src"
				if rng.IntN(3) == 0 {
					from = netip.MustParseAddrPort("198.51.100.5:5555")
					src = "foreign-src"
				}
				// classify the premise
				holds, notNewer := false, false
				if s1 != nil {
					hm := v.F.hostMap
					hm.RLock()
					for _, h := range hm.Indexes {
						if bytes.Equal(h.HandshakePacket[handshakePacketStage0], s1.pkt.Data[header.Len:]) {
							holds = true
						}
					}
					if prim, ok := hm.Hosts[s1.peerAddr]; ok && prim.ConnectionState != nil && !prim.ConnectionState.initiator && prim.lastHandshakeTime >= s1.time {
						notNewer = true
					}
					hm.RUnlock()
				}
				before := c10Tunnels(v)
				held := nw.Inflight
				nw.Inflight = nil
				r.Pre("sc=%d replay stage2=%v victim=%s from=%s holds=%v notNewer=%v data=%x", sc, pickStage2, v.Name, from, holds, notNewer, data)
				nw.Inject(v, from, data)
				nw.Settle()
				emitted := nw.Inflight
				nw.Inflight = held
				after := c10Tunnels(v)
				r.Eval(1)
				outcome := "unchanged"
				if after != before {
					outcome = "tunnels-changed"
				}
				stage := "stage1"
				if pickStage2 {
					stage = "stage2"
				}
				r.DistinctClass(fmt.Sprintf("%s holds=%v primary-responder-not-older=%v %s emits=%d %s", stage, holds, notNewer, src, len(emitted), outcome))
				r.Distinct(fmt.Sprintf("sc%d #%d", sc, r.NDistinct()))
				rec := func() map[string]any {
					return map[string]any{"scenario": sc, "victim": v.Name, "stage": stage, "from": from.String(), "message_hex": verifkit.Hex(data), "receiver_holds_tunnel": holds, "primary_is_responder_side_and_not_older": notNewer, "before": before, "after": after}
				}
				premise := pickStage2 || holds || notNewer
				if premise && after != before {
					key := "C10/replay-changed-tunnels"
					if pickStage2 {
						key = "C10/stage2-replay-changed-tunnels"
					} else if !holds {
						key = "C10/older-handshake-replaced-tunnel"
					}
					r.Violation(key, fmt.Sprintf("scenario %d: replaying a %s message at %s (%s) changed its tunnels", sc, stage, v.Name, src), rec())
				}
				if !premise {
					r.Count("replays_outside_premise(not judged)", 1)
					// a replay of a stage-1 whose tunnel is gone and that is newer than the primary legitimately creates a tunnel; complete the exchange
					for _, e := range emitted {
						if after != before && s1 != nil && e.HOK && e.H.Type == header.Handshake && e.H.MessageCounter == 2 && e.H.RemoteIndex == s1.initIdx {
							// the replay legitimately created a new tunnel: this is now that tunnel's original reply
							reply[rkey{v.Name, s1.initIdx}] = append([]byte(nil), e.Data...)
						}
						nw.Inflight = append(nw.Inflight, e)
					}
					return
				}
				for _, e := range emitted {
					ok := false
					if e.HOK && e.H.Type == header.Handshake && s1 != nil && holds {
						if orig, have := reply[rkey{v.Name, s1.initIdx}]; have && bytes.Equal(orig, e.Data) {
							ok = true
							r.Count("original_reply_resent_byte_identical", 1)
						}
					}
					if e.HOK && e.H.Type == header.Test && e.H.Subtype == header.TestRequest {
						v.F.hostMap.RLock()
						_, live := v.F.hostMap.RemoteIndexes[e.H.RemoteIndex]
						v.F.hostMap.RUnlock()
						if live {
							ok = true
							r.Count("test_request_on_existing_tunnel", 1)
						}
					}
					if !ok {
						rr := rec()
						rr["emitted"] = e.String()
						rr["emitted_hex"] = verifkit.Hex(e.Data)
						r.Violation("C10/replay-unexpected-emission", fmt.Sprintf("scenario %d: %s answered a replayed %s with %s", sc, v.Name, stage, e.String()), rr)
					}
					// let the network carry it on (it is genuine traffic of the victim)
					nw.Inflight = append(nw.Inflight, e)
				}
				r.Count("replays_judged", 1)
			}

			rounds := verifkit.Scale(9, 14)
			for i := 0; i < rounds; i++ {
				switch rng.IntN(5) {
				case 0, 1:
					pkt, _ := vnUDP4(a.Ident.Addr(), b.Ident.Addr(), 1, 2, 0)
					nw.TunSend(a, pkt)
				case 2:
					a.C.ReHandshake(b.Ident.Addr())
					nw.Settle()
				case 3:
					b.C.ReHandshake(a.Ident.Addr())
					nw.Settle()
				case 4:
					// puppet handshakes (twice at the same virtual instant every now and then: equal peer times)
					tgt := []*vnNode{a, b}[rng.IntN(2)]
					k := 1 + rng.IntN(2)
					for j := 0; j < k; j++ {
						tun := pp.Handshake(tgt)
						if tm, pa, ii, ok := c10PeekTime(tgt, pp.LastStage0); ok {
							s := &c10Stage1{pkt: &vnPacket{From: pp.Addr, To: tgt.Addr, Data: pp.LastStage0, HOK: true}, victim: tgt, time: tm, peerAddr: pa, initIdx: ii}
							s.pkt.H.Parse(pp.LastStage0)
							stage1s = append(stage1s, s)
							if tun == nil {
								r.Count("puppet_handshakes_refused_as_not_newer", 1)
							}
						}
						pp.TakeInbox()
					}
				}
				pump()
				nw.Advance(time.Duration(200+rng.IntN(1500)) * time.Millisecond)
				pump()
				for k := 0; k < verifkit.Scale(6, 12); k++ {
					replayOne()
					pump()
				}
			}
			if sc < 2 {
				r.Sample(map[string]any{"scenario": sc, "stage1_messages_archived": len(stage1s), "stage2_messages_archived": len(stage2s), "tunnels_a": c10Tunnels(a), "tunnels_b": c10Tunnels(b)})
			}
		})
	}
}
