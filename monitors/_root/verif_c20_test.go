package nebula

// C20 — packet classification matches what the host will process.
//
// The real newPacket (outside.go: parseV4 / parseV6 -> iputil.IPv6FindUpperProtocol) is run on structured,
// truncated, enumerated and random inner packets in both directions. The oracle is in verif_c20_ref_test.go:
// an independent classifier written from the RFC layouts plus gopacket; the two must agree with each other
// (oracle self check) and newPacket must either reject or report exactly what they find.
//
//   - never panics
//   - accepted  => addresses, protocol, ports / ICMP identifier, non-first-fragment flag, any-fragment flag and
//     header length equal the reference, oriented for the direction
//   - accepted  => (IPv6) the protocol is not an extension header number
//   - reference cannot resolve the packet (truncated header or chain, overrunning extension header, transport
//     header cut before the ports) => rejected
//
// Rejecting a packet the reference can parse is allowed by the statement ("either rejects it or ..."); it is
// counted (liveness counters, min_counters in checks/C20.json) but never a violation.

import (
	"fmt"
	"hash/fnv"
	"testing"

	"github.com/slackhq/nebula/firewall"
	"github.com/slackhq/nebula/verifkit"
)

type c20Judge struct {
	r  *verifkit.Reporter
	fp *firewall.ParsedPacket // reused across packets like the data path does
}

func c20Hash(s string) uint64 {
	h := fnv.New64a()
	h.Write([]byte(s))
	return h.Sum64()
}

func (j *c20Judge) replay(data []byte, incoming bool, class string, err error, f *c20Ref) map[string]any {
	m := map[string]any{
		"packet_hex": verifkit.Hex(data), "len": len(data), "incoming": incoming, "generator_class": class,
		"newPacket_error": fmt.Sprint(err),
		"reference": map[string]any{"parseable": f.parseable(), "why_not": f.why, "proto": f.proto, "header_len": f.hdrLen,
			"non_first_fragment": f.nonFirst, "any_fragment": f.anyFrag, "src": f.src.String(), "dst": f.dst.String(),
			"sport": f.sport, "dport": f.dport, "icmp_id": f.id, "ports_kind": f.kind, "ext_headers_complete": f.nExt, "ext_headers_entered": f.nSeen},
	}
	if err == nil {
		m["newPacket"] = map[string]any{"LocalAddr": j.fp.LocalAddr.String(), "RemoteAddr": j.fp.RemoteAddr.String(),
			"LocalPort": j.fp.LocalPort, "RemotePort": j.fp.RemotePort, "Protocol": j.fp.Protocol, "Fragment": j.fp.Fragment,
			"FragAny": j.fp.FragAny, "IPHdrLen": j.fp.IPHdrLen}
	}
	return m
}

// one runs newPacket on data in both directions and judges the outcome.
func (j *c20Judge) one(p c20Pkt) {
	r := j.r
	data := p.data
	f := c20RefParse(data)
	g := c20GpParse(data)
	if d := c20CrossCheck(data, &f, &g); d != "" {
		r.Violation("C20/oracle-references-disagree", "reference parser and gopacket disagree (oracle defect, not a nebula finding): "+d,
			map[string]any{"packet_hex": verifkit.Hex(data), "generator_class": p.class, "gopacket": fmt.Sprintf("%+v", g), "reference": fmt.Sprintf("%+v", f)})
	}
	if g.ipOK && !g.trimmed {
		r.Count("gopacket_ip_decoded", 1)
		if g.stepsEnd && len(g.steps) == len(f.steps) {
			r.Count("gopacket_chain_confirmed", 1)
		}
		if g.hasPorts || g.hasID {
			r.Count("gopacket_l4_confirmed", 1)
		}
	}
	sig := c20Sig(data, &f)
	for _, incoming := range []bool{true, false} {
		var err error
		if r.Guard("C20/panic", func() any { return j.replay(data, incoming, p.class, nil, &f) }, func() {
			err = newPacket(data, incoming, j.fp)
		}) {
			j.fp = &firewall.ParsedPacket{}
			continue
		}
		r.Eval(1)
		verdict := "rej"
		if err == nil {
			verdict = "acc"
		}
		r.DistinctU64(c20Hash(sig + verdict + fmt.Sprint(incoming)))
		j.judge(p, incoming, err, &f)
	}
	if r.WantSample() && p.clean {
		r.Sample(map[string]any{"packet_hex": verifkit.Hex(data), "class": p.class, "proto": f.proto, "header_len": f.hdrLen})
	}
}

func (j *c20Judge) judge(p c20Pkt, incoming bool, err error, f *c20Ref) {
	r, fp, data := j.r, j.fp, p.data
	ver := "v4"
	if f.v6 {
		ver = "v6"
	}
	if err != nil {
		if f.parseable() {
			r.Count("rejected_but_parseable", 1)
			if p.clean {
				r.Count("rejected_clean_"+ver, 1)
				r.DistinctClass(fmt.Sprintf("rejected-though-parseable-and-clean:%s/ports-kind%d/bytes-behind-header=%d", ver, f.kind, min(len(data)-f.hdrLen, 9)))
			}
		} else {
			r.Count("rejected_unparseable", 1)
			r.DistinctClass("rejected:" + f.why)
		}
		return
	}
	r.Count("accepted_"+ver, 1)
	if p.clean {
		r.Count("accepted_clean_"+ver, 1)
	}
	if f.nonFirst {
		r.Count("accepted_nonfirst_fragment", 1)
	} else if f.anyFrag {
		r.Count("accepted_first_fragment", 1)
	}
	if f.v6 && f.nExt > 0 && f.parseable() {
		r.Count("accepted_v6_with_ext_headers", 1)
	}
	bad := func(key, what string) {
		r.Violation(key, what, j.replay(data, incoming, p.class, err, f))
	}
	// root cause first: everything that goes wrong once the chain is as long as the walker's limit
	// the real walker gives up after 8 extension headers: whatever goes wrong with a 9th header present, or with an
	// 8th one that cannot be resolved, is attributed to that root cause; a complete chain of exactly 8 is not
	limit := f.v6 && (f.nSeen >= 9 || (f.nSeen == 8 && !f.chainOK))
	if f.v6 && c20IsExt(fp.Protocol) && !fp.Fragment {
		if limit {
			bad("C20/ext-chain-longer-than-walker-limit", fmt.Sprintf("IPv6 packet with %d extension headers accepted with Protocol=%d (an extension header number), IPHdrLen=%d; reference: next header %d at offset %d (%s)",
				f.nSeen, fp.Protocol, fp.IPHdrLen, f.proto, f.hdrLen, c20Why(f)))
		} else {
			bad("C20/reports-ext-header-protocol", fmt.Sprintf("accepted with Protocol=%d (an extension header number) after %d extension headers", fp.Protocol, f.nExt))
		}
		return
	}
	if !f.parseable() {
		switch {
		case f.why == "v6-nonfirst-frag-next-is-ext":
			bad("C20/nonfirst-fragment-protocol-is-ext-header", fmt.Sprintf("non-first IPv6 fragment whose fragment header names next header %d accepted with Protocol=%d: the upper-layer protocol is not in this packet", f.proto, fp.Protocol))
		case limit:
			bad("C20/ext-chain-longer-than-walker-limit", fmt.Sprintf("IPv6 packet with %d extension headers accepted although the chain cannot be resolved (%s); Protocol=%d IPHdrLen=%d len=%d", f.nSeen, f.why, fp.Protocol, fp.IPHdrLen, len(data)))
		default:
			bad("C20/accepts-unresolvable/"+f.why, fmt.Sprintf("accepted although the reference cannot resolve the packet (%s); Protocol=%d IPHdrLen=%d len=%d", f.why, fp.Protocol, fp.IPHdrLen, len(data)))
		}
		return
	}
	pre := ""
	if limit {
		// keep consequences of the known root cause apart from independent disagreements
		pre = "C20/ext-chain-longer-than-walker-limit"
	}
	key := func(k string) string {
		if pre != "" {
			return pre
		}
		return k
	}
	wantLocal, wantRemote := f.dst, f.src
	if !incoming {
		wantLocal, wantRemote = f.src, f.dst
	}
	if fp.LocalAddr != wantLocal || fp.RemoteAddr != wantRemote {
		bad(key("C20/address-mismatch"), fmt.Sprintf("addresses local=%v remote=%v, reference local=%v remote=%v", fp.LocalAddr, fp.RemoteAddr, wantLocal, wantRemote))
		return
	}
	if fp.Protocol != f.proto {
		bad(key("C20/protocol-mismatch"), fmt.Sprintf("Protocol=%d, reference %d", fp.Protocol, f.proto))
		return
	}
	if fp.Fragment != f.nonFirst || fp.FragAny != f.anyFrag {
		bad(key("C20/fragment-status-mismatch"), fmt.Sprintf("Fragment=%v FragAny=%v, reference non-first=%v any=%v", fp.Fragment, fp.FragAny, f.nonFirst, f.anyFrag))
		return
	}
	if fp.IPHdrLen != f.hdrLen && fp.IPHdrLen != f.hdrLen2 {
		bad(key("C20/header-length-mismatch"), fmt.Sprintf("IPHdrLen=%d, reference %d", fp.IPHdrLen, f.hdrLen))
		return
	}
	var wantLocalPort, wantRemotePort uint16
	switch f.kind {
	case c20PortsUnjudged:
		r.Count("ports_unjudged_layout_protocol", 1)
		return
	case c20PortsPorts:
		wantLocalPort, wantRemotePort = f.dport, f.sport
		if !incoming {
			wantLocalPort, wantRemotePort = f.sport, f.dport
		}
		r.Count("judged_ports", 1)
	case c20PortsICMPID:
		wantLocalPort, wantRemotePort = 0, f.id
		r.Count("judged_icmp_id", 1)
	case c20PortsNone:
		r.Count("judged_no_ports", 1)
	}
	if fp.LocalPort != wantLocalPort || fp.RemotePort != wantRemotePort {
		if f.kind == c20PortsNone && !f.v6 && !f.nonFirst {
			bad(key("C20/v4-ports-reported-for-portless-protocol"), fmt.Sprintf("IPv4 protocol %d has no ports but LocalPort=%d RemotePort=%d were reported (first payload bytes)", f.proto, fp.LocalPort, fp.RemotePort))
			return
		}
		bad(key("C20/ports-mismatch"), fmt.Sprintf("LocalPort=%d RemotePort=%d, reference local=%d remote=%d (kind %d)", fp.LocalPort, fp.RemotePort, wantLocalPort, wantRemotePort, f.kind))
	}
}

func c20Why(f *c20Ref) string {
	if f.parseable() {
		return "resolvable"
	}
	return f.why
}

const c20Rule = "case = one (packet bytes, direction) run of newPacket; distinct = hashed structural signature: IP version, IHL or list of (extension header type, length), upper protocol, fragment flags, reference verdict class, bytes available behind the header (clipped at 9), ICMP type, direction and accept/reject"

func TestVerifC20Structured(t *testing.T) {
	r := verifkit.NewReporter(t, "C20", "structured",
		"PRNG-built IPv4 (IHL 5..15, options, all fragment flag classes, 25 protocols) and IPv6 (0..12 extension headers from {0,43,44,51,60}, AH lengths, first/non-first fragments, unknown next headers) packets, 40% of them mutated (truncated anywhere / near the transport boundary, overrunning extension length, length field lies, bit flips) plus random bytes; "+c20Rule)
	defer r.Done()
	j := &c20Judge{r: r, fp: &firewall.ParsedPacket{}}
	n := verifkit.Scale(250_000, 25_000_000)
	for i := 0; i < n; i++ {
		if i&1023 == 0 {
			r.Pre("stream C20structured, cases %d..%d of this shard (inputs are a function of VERIF_SEED and the case index)", i, i+1023)
		}
		if !verifkit.Mine(i) {
			continue
		}
		j.one(c20Gen(verifkit.SubRand("C20structured", i)))
	}
}

// TestVerifC20Enum enumerates small sub-spaces completely: every truncation length of canonical packets.
func TestVerifC20Enum(t *testing.T) {
	r := verifkit.NewReporter(t, "C20", "enum",
		"complete enumeration: (a) IPv4 with every IHL nibble 0..15 x fragment field {0,DF,MF,MF+off,off 1,off 0x1fff} x protocol {6,17,1,47,58,132} truncated at every length; (b) IPv6 with 0..12 extension headers of one type (each of 0,43,44,51,60) and mixed chains x upper protocol {6,17,58 echo,58 error,59,47} truncated at every length; "+c20Rule)
	defer r.Done()
	j := &c20Judge{r: r, fp: &firewall.ParsedPacket{}}
	if s, _ := verifkit.Shard(); s != 0 {
		return // small: one shard does it all
	}
	tcp := []byte{0x12, 0x34, 0x01, 0xbb, 0, 0, 0, 1, 0, 0, 0, 2, 0x50, 0x02, 0xff, 0xff, 0, 0, 0, 0, 'h', 'i'}
	udp := []byte{0xd4, 0x31, 0x00, 0x35, 0, 10, 0, 0, 'h', 'i'}
	icmp4 := []byte{8, 0, 0, 0, 0xab, 0xcd, 0, 1, 'h', 'i'}
	echo6 := []byte{128, 0, 0, 0, 0xab, 0xcd, 0, 1, 'h', 'i'}
	err6 := []byte{1, 1, 0, 0, 0xab, 0xcd, 0, 1, 'h', 'i'}
	other := []byte{0x11, 0x22, 0x33, 0x44, 0x55, 0x66, 0x77, 0x88}
	// the probe witness of the design round first, so that it is the recorded witness if it still fails:
	// nine destination-option headers, then TCP
	j.one(c20Pkt{c20V6Chain([]uint8{60, 60, 60, 60, 60, 60, 60, 60, 60}, 6, tcp), "canonical/9x60/tcp", false})
	// (a) IPv4
	for ihl := 0; ihl < 16; ihl++ {
		for _, ff := range []uint16{0, 0x4000, 0x2000, 0x2003, 0x0001, 0x1fff} {
			for _, pr := range []struct {
				p  uint8
				l4 []byte
			}{{6, tcp}, {17, udp}, {1, icmp4}, {47, other}, {58, echo6}, {132, tcp}} {
				h := make([]byte, 20)
				h[0] = 0x40 | byte(ihl)
				h[6], h[7] = byte(ff>>8), byte(ff)
				h[8], h[9] = 64, pr.p
				copy(h[12:], []byte{10, 0, 0, 1, 10, 0, 0, 2})
				for k := 5; k < ihl; k++ {
					h = append(h, 1, 1, 1, 1)
				}
				h = append(h, pr.l4...)
				h[2], h[3] = byte(len(h)>>8), byte(len(h))
				for cut := 0; cut <= len(h); cut++ {
					j.one(c20Pkt{h[:cut:cut], fmt.Sprintf("enum4/ihl%d/ff%04x/p%d/cut%d", ihl, ff, pr.p, cut), false})
				}
			}
		}
	}
	r.Exhaustive("IPv4: IHL 0..15 x 6 fragment fields x 6 protocols x every truncation length")
	// (b) IPv6
	uppers := []struct {
		p  uint8
		l4 []byte
	}{{6, tcp}, {17, udp}, {58, echo6}, {58, err6}, {59, nil}, {47, other}}
	var chains [][]uint8
	for _, t := range []uint8{0, 43, 44, 51, 60} {
		for n := 0; n <= 12; n++ {
			c := make([]uint8, n)
			for i := range c {
				c[i] = t
			}
			chains = append(chains, c)
		}
	}
	chains = append(chains, []uint8{0, 60, 43, 44, 51, 60}, []uint8{0, 43, 60, 51, 44, 60, 43, 60}, []uint8{0, 60, 43, 60, 51, 60, 43, 60, 44},
		[]uint8{60, 60, 60, 60, 60, 60, 60, 44, 60}, []uint8{51, 51, 51, 51, 43, 43, 43, 43, 0, 0})
	for _, c := range chains {
		for _, u := range uppers {
			h := c20V6Chain(c, u.p, u.l4)
			for cut := 0; cut <= len(h); cut++ {
				j.one(c20Pkt{h[:cut:cut], fmt.Sprintf("enum6/chain%v/p%d/cut%d", c, u.p, cut), false})
			}
			// the same chain as a non-first fragment train: last fragment header gets an offset
			if len(c) > 0 && c[len(c)-1] == 44 {
				h2 := append([]byte(nil), h...)
				off := len(h) - len(u.l4) - 8
				h2[off+2], h2[off+3] = 0x00, 0x08
				j.one(c20Pkt{h2, fmt.Sprintf("enum6/chain%v/p%d/nonfirst", c, u.p), false})
			}
		}
	}
	r.Exhaustive("IPv6: 0..12 extension headers of one type (0,43,44,51,60) and 5 mixed chains x 6 upper layers x every truncation length")
}

func TestVerifC20Random(t *testing.T) {
	r := verifkit.NewReporter(t, "C20", "random",
		"random byte strings of length 0..129 (version nibble and would-be extension header bytes biased so that walks go deep); "+c20Rule)
	defer r.Done()
	j := &c20Judge{r: r, fp: &firewall.ParsedPacket{}}
	n := verifkit.Scale(60_000, 6_000_000)
	for i := 0; i < n; i++ {
		if i&1023 == 0 {
			r.Pre("stream C20random, cases %d..%d of this shard", i, i+1023)
		}
		if !verifkit.Mine(i) {
			continue
		}
		j.one(c20GenRandom(verifkit.SubRand("C20random", i)))
	}
}
