//go:build e2e_testing

package nebula

// C29 — local tunnel indexes are unique and never zero.
//
// The 2^32 index space is shrunk by swapping crypto/rand.Reader for a reader that answers the 4-byte reads of
// generateIndex (recognised by the caller's stack) from a set of 3..16 values, sometimes 0, and passes everything else to
// the real source. allocateIndex, CheckAndComplete and AddRelay then collide constantly.
//
// Unit "conc" (component level, -race): many goroutines against ONE real, fully wired but not started node (real
// HandshakeManager, HostMap, relayManager, LightHouse, PKI from nebula.Main): puppet peers initiate genuine IX handshakes
// (HandleIncoming -> beginHandshake -> generateIndex -> CheckAndComplete), the node initiates (StartHandshake / Handshake;
// the node's own HandshakeManager.Run goroutine, which nebula.Main starts, drives handleOutbound -> buildStage0Packet ->
// allocateIndex -> StartRelays -> AddRelay on the virtual clock of a synctest bubble; puppets answer, answer late or stay
// silent so handshakes complete or time out), tunnels are closed (closeTunnel,
// DeleteHostInfo, handleRecvError, repeated deletes of stale pointers), relay indexes are allocated (AddRelay, the real
// CreateRelayRequest handler as relay target and as forwarding relay). The hs.* yield hooks yield at random.
//
// Unit "node" (node level, -race, virtual time): one started node with a tiny index space; puppet goroutines handshake
// with it concurrently in both directions, close tunnels, send recv_errors and relay requests or go silent; the node's own
// timers (handshake retries, connection manager) delete tunnels.
//
// Oracles (from the statement), evaluated on consistent snapshots taken under the managers' own locks (hostmap RLock then
// handshake manager RLock) at hook points, between operations and at quiescent points. The ground truth for "the tunnel is
// still there" is the address tables (Hosts / moreHosts, pending vpnIps); the index tables are what is judged.
//   - no zero key in pending indexes, Indexes, Relays; no zero index ever handed out on the wire or by AddRelay;
//   - every entry is filed under its owner's own index;
//   - no index is held by a pending handshake and by a different established tunnel at once; no two present tunnels
//     (pending or established) carry the same index; no two relays of present tunnels carry the same relay index;
//   - an index is only released by removing its owner: every tunnel still present still holds the index it was given
//     (Indexes[h.local]==h, pending indexes[hh.local]==hh, Relays[i]==h for every relay index handed to h, including
//     the ones AddRelay returned to the harness);
//   - RemoteIndexes[x] is only removed by the tunnel it points to (decided exactly, at serialized delete operations:
//     nothing else runs between the snapshot before and the snapshot after the delete).

import (
	"context"
	crand "crypto/rand"
	"encoding/binary"
	"fmt"
	"hash/fnv"
	"io"
	"log/slog"
	mrand "math/rand/v2"
	"net/netip"
	"os"
	"runtime"
	"sort"
	"strings"
	"sync"
	"sync/atomic"
	"testing"
	"testing/synctest"
	"time"

	"github.com/slackhq/nebula/cert"
	"github.com/slackhq/nebula/config"
	"github.com/slackhq/nebula/handshake"
	"github.com/slackhq/nebula/header"
	"github.com/slackhq/nebula/overlay"
	"github.com/slackhq/nebula/udp"
	"github.com/slackhq/nebula/verifkit"
	"go.yaml.in/yaml/v3"
)

// ---------------------------------------------------------------------------------------------------------------------
// tiny index space

const (
	c29CallerAlloc = iota // HandshakeManager.allocateIndex (holds hostmap RLock + manager Lock)
	c29CallerResponder    // beginHandshake's allocator (no lock held)
	c29CallerRelay        // AddRelay (holds hostmap Lock)
	c29NCallers
)

var c29CallerNames = [c29NCallers]string{"allocateIndex", "beginHandshake", "AddRelay"}

// c29Rand replaces crypto/rand.Reader. Only 4-byte reads issued from generateIndex are shrunk.
type c29Rand struct {
	orig   io.Reader
	vals   []uint32
	zeroIn uint64 // one shrunk draw in zeroIn is 0
	seed   uint64
	ctr    atomic.Uint64
	f      atomic.Pointer[Interface]

	draws    [c29NCallers]atomic.Int64
	zeros    [c29NCallers]atomic.Int64
	inUse    [c29NCallers]atomic.Int64 // non-zero draws that were in use at the time (exact: the caller holds the locks)
	passed4  atomic.Int64              // 4-byte reads from somebody else, passed through
	passedN  atomic.Int64
	distinct sync.Map // value -> struct{}
}

func c29Mix(x uint64) uint64 {
	x += 0x9e3779b97f4a7c15
	x = (x ^ (x >> 30)) * 0xbf58476d1ce4e5b9
	x = (x ^ (x >> 27)) * 0x94d049bb133111eb
	return x ^ (x >> 31)
}

func c29WhoDraws() int {
	var pcs [24]uintptr
	n := runtime.Callers(3, pcs[:])
	fr := runtime.CallersFrames(pcs[:n])
	gen := false
	for {
		f, more := fr.Next()
		fn := f.Function
		switch {
		case strings.HasSuffix(fn, "nebula.generateIndex"):
			gen = true
		case gen && strings.Contains(fn, "(*HandshakeManager).allocateIndex"):
			return c29CallerAlloc
		case gen && strings.HasSuffix(fn, "nebula.AddRelay"):
			return c29CallerRelay
		case gen && strings.Contains(fn, "(*HandshakeManager).beginHandshake"):
			return c29CallerResponder
		}
		if !more {
			return -1
		}
	}
}

func (c *c29Rand) Read(p []byte) (int, error) {
	if len(p) != 4 {
		c.passedN.Add(1)
		return c.orig.Read(p)
	}
	who := c29WhoDraws()
	if who < 0 {
		c.passed4.Add(1)
		return c.orig.Read(p)
	}
	x := c29Mix(c.seed + c.ctr.Add(1)*0x9e3779b97f4a7c15)
	var v uint32
	if c.zeroIn != 0 && x%c.zeroIn == 0 {
		v = 0
	} else {
		v = c.vals[(x>>20)%uint64(len(c.vals))]
	}
	binary.BigEndian.PutUint32(p, v)
	c.draws[who].Add(1)
	if v == 0 {
		c.zeros[who].Add(1)
		return 4, nil
	}
	c.distinct.LoadOrStore(v, struct{}{})
	// The callers hold the locks that guard the tables they are about to consult, so this goroutine may read them.
	if f := c.f.Load(); f != nil {
		switch who {
		case c29CallerAlloc:
			_, a := f.handshakeManager.indexes[v]
			_, b := f.hostMap.Indexes[v]
			if a || b {
				c.inUse[who].Add(1)
			}
		case c29CallerRelay:
			if _, a := f.hostMap.Relays[v]; a {
				c.inUse[who].Add(1)
			}
		}
	}
	return 4, nil
}

// c29Install swaps crypto/rand.Reader. Call only while no other goroutine can draw randomness; the returned function restores.
func c29Install(c *c29Rand) func() {
	c.orig = crand.Reader
	crand.Reader = c
	return func() { crand.Reader = c.orig }
}

func c29Vals(rng *mrand.Rand, k int) []uint32 {
	pool := []uint32{1, 2, 3, 4, 5, 6, 7, 8, 9, 0xff, 0x100, 0xffff, 0x10000, 0x7fffffff, 0x80000000, 0x80000001, 0xfffffffe, 0xffffffff, 0x01000000, 0xdeadbeef}
	rng.Shuffle(len(pool), func(i, j int) { pool[i], pool[j] = pool[j], pool[i] })
	out := append([]uint32(nil), pool[:k]...)
	sort.Slice(out, func(i, j int) bool { return out[i] < out[j] })
	return out
}

// ---------------------------------------------------------------------------------------------------------------------
// counting logger (the only way to see what the real entry points decided)

type c29Log struct {
	mu   sync.Mutex
	n    map[string]int64
	pass slog.Handler
}

func (h *c29Log) Enabled(_ context.Context, l slog.Level) bool { return l >= slog.LevelInfo }
func (h *c29Log) Handle(ctx context.Context, r slog.Record) error {
	msg := r.Message
	if r.Level >= slog.LevelError {
		r.Attrs(func(a slog.Attr) bool {
			if a.Key == "error" && strings.Contains(a.Value.String(), "unique localIndexId") {
				msg += " (index space exhausted)"
				return false
			}
			return true
		})
	}
	h.mu.Lock()
	h.n[msg]++
	h.mu.Unlock()
	if h.pass != nil {
		return h.pass.Handle(ctx, r)
	}
	return nil
}
func (h *c29Log) WithAttrs([]slog.Attr) slog.Handler { return h }
func (h *c29Log) WithGroup(string) slog.Handler      { return h }
func (h *c29Log) get(msg string) int64 {
	h.mu.Lock()
	defer h.mu.Unlock()
	return h.n[msg]
}

func c29NewLog() *c29Log {
	l := &c29Log{n: map[string]int64{}}
	if os.Getenv("VERIF_NETLOG") != "" {
		l.pass = slog.NewTextHandler(os.Stderr, &slog.HandlerOptions{Level: slog.LevelInfo})
	}
	return l
}

// c29AddNode is vnNet.AddNode with a caller supplied logger.
func c29AddNode(nw *vnNet, id *vnIdent, cas []*vnCA, addr string, overrides m, l *slog.Logger) *vnNode {
	ap := netip.MustParseAddrPort(addr)
	mc := vnBaseConfig(id, cas, ap)
	if overrides != nil {
		mc = vnMerge(mc, overrides)
	}
	cb, err := yaml.Marshal(mc)
	if err != nil {
		panic(err)
	}
	c := config.NewC(l)
	if err := c.LoadString(string(cb)); err != nil {
		panic(err)
	}
	ctrl, err := Main(c, false, "verif", l, nil)
	if err != nil {
		panic(fmt.Sprintf("Main(%s): %v", id.Name, err))
	}
	n := &vnNode{Name: id.Name, C: ctrl, F: ctrl.f, Cfg: c, Addr: ap, Ident: id, nw: nw}
	nw.Nodes = append(nw.Nodes, n)
	nw.byAddr[ap] = n
	return n
}

// ---------------------------------------------------------------------------------------------------------------------
// puppets (goroutine-safe: no shared mutable state)

type c29Puppet struct {
	id   *vnIdent
	cs   *CertState
	pool *cert.CAPool
	addr netip.AddrPort
	vpn  netip.Addr
}

func c29NewPuppet(ca *vnCA, i int) *c29Puppet {
	id := ca.issue([]cert.Version{cert.Version2}, fmt.Sprintf("pup%d", i), fmt.Sprintf("10.29.0.%d/16", 10+i), "", nil)
	cs, err := newCertState(cert.Version2, nil, id.Certs[cert.Version2], false, id.Curve, id.RawKey, "aes")
	if err != nil {
		panic(err)
	}
	pool := cert.NewCAPool()
	if err := pool.AddCA(ca.Cert); err != nil {
		panic(err)
	}
	return &c29Puppet{id: id, cs: cs, pool: pool, addr: netip.MustParseAddrPort(fmt.Sprintf("192.0.2.%d:4242", 10+i)), vpn: id.Addr()}
}

func (p *c29Puppet) machine(initiator bool, idx uint32) *handshake.Machine {
	ver := func(c cert.Certificate) (*cert.CachedCertificate, error) { return p.pool.VerifyCertificate(time.Now(), c) }
	mach, err := handshake.NewMachine(cert.Version2, p.cs.GetCredential, ver, func() (uint32, error) { return idx, nil }, initiator, header.HandshakeIXPSK0)
	if err != nil {
		panic(err)
	}
	return mach
}

// ---------------------------------------------------------------------------------------------------------------------
// the monitor

type c29Snap struct {
	main     map[uint32]*HostInfo
	pend     map[uint32]*HandshakeHostInfo
	relays   map[uint32]*HostInfo
	remote   map[uint32]*HostInfo
	live     map[*HostInfo]bool              // reachable from Hosts / moreHosts
	pendLive map[*HandshakeHostInfo]uint32   // in vpnIps -> the index it carries (0 = none yet)
	relayOf  map[*HostInfo]map[uint32]string // live tunnel -> relay index -> peer address (from its relay state)
	bad      []c29Bad
}

type c29Bad struct{ key, what string }

type c29Mon struct {
	r     *verifkit.Reporter
	f     *Interface
	label string
	info  map[string]any

	mu       sync.Mutex
	relayLog map[*HostInfo]map[uint32]bool // relay indexes AddRelay returned to the harness
	names    map[any]string

	checks atomic.Int64
}

func c29NewMon(r *verifkit.Reporter, f *Interface, label string, info map[string]any) *c29Mon {
	return &c29Mon{r: r, f: f, label: label, info: info, relayLog: map[*HostInfo]map[uint32]bool{}, names: map[any]string{}}
}

// nm gives stable short names to owners for witnesses (call with mu held or from one goroutine).
func (mo *c29Mon) nm(o any) string {
	if s, ok := mo.names[o]; ok {
		return s
	}
	var s string
	switch o.(type) {
	case *HostInfo:
		s = fmt.Sprintf("T%d", len(mo.names))
	default:
		s = fmt.Sprintf("P%d", len(mo.names))
	}
	mo.names[o] = s
	return s
}

// collect takes a consistent snapshot under the managers' own locks and evaluates the state invariants.
func (mo *c29Mon) collect() *c29Snap {
	s := &c29Snap{main: map[uint32]*HostInfo{}, pend: map[uint32]*HandshakeHostInfo{}, relays: map[uint32]*HostInfo{}, remote: map[uint32]*HostInfo{},
		live: map[*HostInfo]bool{}, pendLive: map[*HandshakeHostInfo]uint32{}, relayOf: map[*HostInfo]map[uint32]string{}}
	hm := mo.f.hostMap
	hs := mo.f.handshakeManager
	bad := func(key, format string, a ...any) { s.bad = append(s.bad, c29Bad{key, fmt.Sprintf(format, a...)}) }

	mo.mu.Lock() // names
	defer mo.mu.Unlock()
	hm.RLock()
	hs.RLock()
	for _, h := range hm.Hosts {
		s.live[h] = true
	}
	for _, l := range hm.moreHosts {
		for _, h := range l {
			s.live[h] = true
		}
	}
	for k, h := range hm.Indexes {
		s.main[k] = h
	}
	for k, h := range hm.Relays {
		s.relays[k] = h
	}
	for k, h := range hm.RemoteIndexes {
		s.remote[k] = h
	}
	for k, hh := range hs.indexes {
		s.pend[k] = hh
	}
	pendIdx := map[*HandshakeHostInfo]uint32{}
	pendOwnerHI := map[*HandshakeHostInfo]*HostInfo{}
	for _, hh := range hs.vpnIps {
		pendIdx[hh] = hh.hostinfo.localIndexId
		pendOwnerHI[hh] = hh.hostinfo
		s.pendLive[hh] = hh.hostinfo.localIndexId
	}
	pendKeyIdx := map[uint32]uint32{}
	pendHostinfo := map[uint32]*HostInfo{}
	for k, hh := range hs.indexes {
		pendKeyIdx[k] = hh.hostinfo.localIndexId
		pendHostinfo[k] = hh.hostinfo
	}
	for h := range s.live {
		rs := &h.relayState
		rs.RLock()
		mm := map[uint32]string{}
		for idx, rel := range rs.relayForByIdx {
			mm[idx] = fmt.Sprintf("%s(l=%d)", rel.PeerAddr, rel.LocalIndex)
		}
		byAddr := map[uint32]netip.Addr{}
		for a, rel := range rs.relayForByAddr {
			if o, dup := byAddr[rel.LocalIndex]; dup {
				bad("C29/two-relays-share-index", "tunnel %s (index %d): its relays for %s and %s both carry relay index %d", mo.nm(h), h.localIndexId, o, a, rel.LocalIndex)
			}
			byAddr[rel.LocalIndex] = a
			if rel.LocalIndex == 0 {
				bad("C29/zero-relay-index", "tunnel %s: relay for %s has local relay index 0", mo.nm(h), a)
			}
		}
		rs.RUnlock()
		s.relayOf[h] = mm
	}
	hs.RUnlock()
	hm.RUnlock()

	// ---- invariants on the snapshot
	for k, h := range s.main {
		if k == 0 {
			bad("C29/zero-index-in-main", "Indexes holds key 0 (tunnel %s)", mo.nm(h))
		}
		if h.localIndexId != k {
			bad("C29/main-index-key-mismatch", "Indexes[%d] holds tunnel %s whose own index is %d", k, mo.nm(h), h.localIndexId)
		}
	}
	for k, hh := range s.pend {
		if k == 0 {
			bad("C29/zero-index-in-pending", "pending indexes holds key 0 (%s)", mo.nm(hh))
		}
		if pendKeyIdx[k] != k {
			bad("C29/pending-index-key-mismatch", "pending indexes[%d] holds handshake %s whose own index is %d", k, mo.nm(hh), pendKeyIdx[k])
		}
		if h, ok := s.main[k]; ok && h != pendHostinfo[k] {
			bad("C29/index-held-by-pending-and-established", "index %d is held by pending handshake %s and by established tunnel %s at once", k, mo.nm(hh), mo.nm(h))
		}
	}
	seenMain := map[uint32]*HostInfo{}
	for h := range s.live {
		if o, dup := seenMain[h.localIndexId]; dup {
			bad("C29/two-established-tunnels-share-index", "established tunnels %s and %s are both present and both carry index %d", mo.nm(o), mo.nm(h), h.localIndexId)
		}
		seenMain[h.localIndexId] = h
		if h.localIndexId == 0 {
			bad("C29/zero-index-in-main", "established tunnel %s carries index 0", mo.nm(h))
		}
		if s.main[h.localIndexId] != h {
			cur := "nobody"
			if o, ok := s.main[h.localIndexId]; ok {
				cur = mo.nm(o)
			}
			bad("C29/established-tunnel-lost-its-index", "tunnel %s is still present (address tables) but Indexes[%d] belongs to %s: its index was released or taken without removing it", mo.nm(h), h.localIndexId, cur)
		}
		for idx := range s.relayOf[h] {
			if idx == 0 {
				bad("C29/zero-relay-index", "tunnel %s holds relay index 0", mo.nm(h))
			}
			if s.relays[idx] != h {
				cur := "nobody"
				if o, ok := s.relays[idx]; ok {
					cur = mo.nm(o)
				}
				bad("C29/tunnel-lost-its-relay-index", "tunnel %s is still present and was given relay index %d, but Relays[%d] belongs to %s", mo.nm(h), idx, idx, cur)
			}
		}
	}
	for k, h := range s.relays {
		if k == 0 {
			bad("C29/zero-relay-index", "Relays holds key 0 (tunnel %s)", mo.nm(h))
		}
	}
	// A pending handshake whose index was released behind its back is the primary witness; that the allocator then hands
	// the same index to somebody else is its consequence and is not reported a second time for the same index.
	lost := map[uint32]bool{}
	for hh, idx := range pendIdx {
		if idx == 0 {
			continue // no index handed out yet
		}
		if s.pend[idx] != hh {
			lost[idx] = true
			cur := "nobody"
			if o, ok := s.pend[idx]; ok {
				cur = mo.nm(o)
			}
			bad("C29/pending-handshake-lost-its-index", "pending handshake %s is still present (vpnIps) and was given index %d, but pending indexes[%d] belongs to %s: the index was released without removing its owner", mo.nm(hh), idx, idx, cur)
		}
	}
	seenPend := map[uint32]*HandshakeHostInfo{}
	for hh, idx := range pendIdx {
		if idx == 0 || lost[idx] {
			continue
		}
		if o, dup := seenPend[idx]; dup {
			bad("C29/two-pending-handshakes-share-index", "pending handshakes %s and %s are both present and both carry index %d", mo.nm(o), mo.nm(hh), idx)
		}
		seenPend[idx] = hh
		if h, ok := s.main[idx]; ok && h != pendOwnerHI[hh] {
			bad("C29/index-held-by-pending-and-established", "index %d is carried by pending handshake %s and by established tunnel %s at once", idx, mo.nm(hh), mo.nm(h))
		}
	}
	// relay indexes AddRelay returned to the harness
	for h, set := range mo.relayLog {
		if !s.live[h] {
			delete(mo.relayLog, h)
			continue
		}
		for idx := range set {
			if s.relays[idx] != h {
				cur := "nobody"
				if o, ok := s.relays[idx]; ok {
					cur = mo.nm(o)
				}
				bad("C29/tunnel-lost-its-relay-index", "AddRelay returned relay index %d for tunnel %s, which is still present, but Relays[%d] belongs to %s", idx, mo.nm(h), idx, cur)
			}
		}
	}
	return s
}

func (mo *c29Mon) dump(s *c29Snap) []string {
	mo.mu.Lock()
	defer mo.mu.Unlock()
	var out []string
	for k, h := range s.main {
		out = append(out, fmt.Sprintf("Indexes[%d]=%s present=%v addrs=%v remote=%d", k, mo.nm(h), s.live[h], h.vpnAddrs, h.remoteIndexId))
	}
	for h := range s.live {
		out = append(out, fmt.Sprintf("present %s local=%d remote=%d addrs=%v relays=%v", mo.nm(h), h.localIndexId, h.remoteIndexId, h.vpnAddrs, s.relayOf[h]))
	}
	for k, hh := range s.pend {
		out = append(out, fmt.Sprintf("pending.indexes[%d]=%s", k, mo.nm(hh)))
	}
	for hh, idx := range s.pendLive {
		out = append(out, fmt.Sprintf("pending present %s index=%d", mo.nm(hh), idx))
	}
	for k, h := range s.relays {
		out = append(out, fmt.Sprintf("Relays[%d]=%s present=%v", k, mo.nm(h), s.live[h]))
	}
	for k, h := range s.remote {
		out = append(out, fmt.Sprintf("RemoteIndexes[%d]=%s", k, mo.nm(h)))
	}
	sort.Strings(out)
	return out
}

func (mo *c29Mon) report(s *c29Snap, where string) {
	for _, b := range s.bad {
		mo.r.Violation(b.key, fmt.Sprintf("%s at %s: %s", mo.label, where, b.what), map[string]any{"history": mo.label, "where": where, "params": mo.info, "state": mo.dump(s)})
	}
}

func (s *c29Snap) sig(k int) uint64 {
	var a, b, c []int
	for x := range s.main {
		a = append(a, int(x))
	}
	for x := range s.pend {
		b = append(b, int(x))
	}
	for x := range s.relays {
		c = append(c, int(x))
	}
	sort.Ints(a)
	sort.Ints(b)
	sort.Ints(c)
	h := fnv.New64a()
	fmt.Fprintf(h, "%d|%v|%v|%v|%d", k, a, b, c, len(s.remote))
	return h.Sum64()
}

// check = snapshot + invariants + evidence.
func (mo *c29Mon) check(where string, k int) *c29Snap {
	s := mo.collect()
	mo.checks.Add(1)
	mo.r.DistinctU64(s.sig(k))
	if len(s.pend) > 0 && len(s.main) > 0 {
		mo.r.Count("snapshots_with_pending_and_established", 1)
	}
	if len(s.bad) > 0 {
		mo.report(s, where)
	}
	return s
}

func (mo *c29Mon) logRelay(h *HostInfo, idx uint32) {
	mo.mu.Lock()
	if mo.relayLog[h] == nil {
		mo.relayLog[h] = map[uint32]bool{}
	}
	mo.relayLog[h][idx] = true
	mo.mu.Unlock()
}

// diffDelete judges one delete operation that ran alone between pre and post.
func (mo *c29Mon) diffDelete(pre, post *c29Snap, op string, target *HostInfo) {
	for x, g := range pre.remote {
		cur, still := post.remote[x]
		if still && cur == g {
			continue
		}
		mo.r.Count("remote_index_entries_removed", 1)
		if post.live[g] {
			mo.mu.Lock()
			what := fmt.Sprintf("%s: %s on tunnel %s removed RemoteIndexes[%d], which pointed to tunnel %s that is still present", mo.label, op, mo.nm(target), x, mo.nm(g))
			mo.mu.Unlock()
			mo.r.Violation("C29/remote-index-removed-by-other-tunnel", what, map[string]any{"history": mo.label, "op": op, "params": mo.info, "before": mo.dump(pre), "after": mo.dump(post)})
		}
	}
	// entries that survive a delete of a tunnel sharing the remote index
	if target != nil {
		if g, ok := pre.remote[target.remoteIndexId]; ok && g != target && pre.live[g] {
			mo.r.Count("deletes_sharing_remote_index_with_live_tunnel", 1)
		}
	}
	for k, o := range pre.main {
		if post.main[k] != o && post.live[o] {
			mo.mu.Lock()
			what := fmt.Sprintf("%s: %s on tunnel %s took Indexes[%d] away from tunnel %s that is still present", mo.label, op, mo.nm(target), k, mo.nm(o))
			mo.mu.Unlock()
			mo.r.Violation("C29/established-tunnel-lost-its-index", what, map[string]any{"history": mo.label, "op": op, "params": mo.info, "before": mo.dump(pre), "after": mo.dump(post)})
		}
	}
	for k, o := range pre.pend {
		if _, present := post.pendLive[o]; post.pend[k] != o && present {
			mo.mu.Lock()
			what := fmt.Sprintf("%s: %s on tunnel %s took pending index %d away from handshake %s that is still present", mo.label, op, mo.nm(target), k, mo.nm(o))
			mo.mu.Unlock()
			mo.r.Violation("C29/pending-handshake-lost-its-index", what, map[string]any{"history": mo.label, "op": op, "params": mo.info, "before": mo.dump(pre), "after": mo.dump(post)})
		}
	}
	for k, o := range pre.relays {
		if post.relays[k] != o && post.live[o] {
			mo.mu.Lock()
			what := fmt.Sprintf("%s: %s on tunnel %s took Relays[%d] away from tunnel %s that is still present", mo.label, op, mo.nm(target), k, mo.nm(o))
			mo.mu.Unlock()
			mo.r.Violation("C29/tunnel-lost-its-relay-index", what, map[string]any{"history": mo.label, "op": op, "params": mo.info, "before": mo.dump(pre), "after": mo.dump(post)})
		}
	}
}

var c29HookNames = map[int]string{verifHsBeforeCheckAndComplete: "hs.beforeCheckAndComplete", verifHsBeforeComplete: "hs.beforeComplete", verifHsAfterAllocIndex: "hs.afterAllocIndex"}

// c29Evidence publishes what the tiny reader and the node's log saw.
func c29Evidence(r *verifkit.Reporter, cr *c29Rand, lg *c29Log, hookHits *[8]atomic.Int64) {
	for i := 0; i < c29NCallers; i++ {
		r.Count("index_draws."+c29CallerNames[i], int(cr.draws[i].Load()))
		r.Count("zero_draws_rejected."+c29CallerNames[i], int(cr.zeros[i].Load()))
	}
	r.Count("allocate_index_retries_on_index_in_use", int(cr.inUse[c29CallerAlloc].Load()))
	r.Count("relay_index_retries_on_index_in_use", int(cr.inUse[c29CallerRelay].Load()))
	r.Count("check_and_complete_local_index_collisions", int(lg.get("Failed to add HostInfo due to localIndex collision")))
	r.Count("handshakes_timed_out", int(lg.get("Handshake timed out")))
	r.Count("allocate_index_space_exhausted", int(lg.get("Failed to initiate handshake (index space exhausted)")))
	r.Count("relay_index_space_exhausted", int(lg.get("Failed to add relay to hostmap (index space exhausted)")+lg.get("Failed to add relay (index space exhausted)")+lg.get("relayManager Failed to allocate a local index for relay (index space exhausted)")))
	r.Count("remote_index_shadowed", int(lg.get("New host shadows existing host remoteIndex")))
	r.Count("newer_handshake_taken", int(lg.get("Taking new handshake")))
	r.Count("relay_requests_handled", int(lg.get("handleCreateRelayRequest")))
	r.Count("rand_reads_passed_through", int(cr.passedN.Load()+cr.passed4.Load()))
	for id, nme := range c29HookNames {
		r.Count("hook."+nme, int(hookHits[id].Swap(0)))
	}
}

// ---------------------------------------------------------------------------------------------------------------------
// unit conc

type c29RegKey struct {
	addr netip.AddrPort
	idx  uint32
}

type c29Work struct {
	data []byte
	to   netip.AddrPort
	h    header.H
}

func c29PickLive(f *Interface, rng *mrand.Rand, preferSharedRemote bool) *HostInfo {
	hm := f.hostMap
	hm.RLock()
	defer hm.RUnlock()
	if len(hm.Indexes) == 0 {
		return nil
	}
	keys := make([]uint32, 0, len(hm.Indexes))
	for k := range hm.Indexes {
		keys = append(keys, k)
	}
	sort.Slice(keys, func(i, j int) bool { return keys[i] < keys[j] })
	if preferSharedRemote {
		for _, k := range keys {
			h := hm.Indexes[k]
			if g, ok := hm.RemoteIndexes[h.remoteIndexId]; ok && g != h {
				return h
			}
		}
	}
	return hm.Indexes[keys[rng.IntN(len(keys))]]
}

func c29Control(from, to netip.Addr, idx uint32) []byte {
	msg := NebulaControl{Type: NebulaControl_CreateRelayRequest, InitiatorRelayIndex: idx, RelayFromAddr: netAddrToProtoAddr(from), RelayToAddr: netAddrToProtoAddr(to)}
	b, err := msg.Marshal()
	if err != nil {
		panic(err)
	}
	return b
}

func TestVerifC29Conc(t *testing.T) {
	r := verifkit.NewReporter(t, "C29", "conc",
		"histories = (index-space size 3..16 with zero draws, operation mix, puppet count) x G goroutines x N operations against one real wired node (not started): puppet-initiated and node-initiated genuine IX handshakes, completions, timeouts (explicit clock), closes, recv_errors, stale deletes, AddRelay / CreateRelayRequest handling, serialized checked deletes; one evaluation per operation; distinct = distinct (index-space size, pending set, established set, relay set) snapshots; classes = (index-space size, zero rate, mix)")
	defer r.Done()
	histories := verifkit.Scale(16, 160)
	for hi := 0; hi < histories; hi++ {
		if !verifkit.Mine(hi) {
			continue
		}
		// one bubble per history: the node's own handshake manager goroutine (started by nebula.Main) runs on the virtual clock
		t.Run(fmt.Sprintf("h%d", hi), func(t *testing.T) {
			synctest.Test(t, func(t *testing.T) { c29RunConc(t, r, hi) })
		})
	}
	if r.Counter("allocate_index_retries_on_index_in_use") == 0 || r.Counter("check_and_complete_local_index_collisions") == 0 {
		r.Inconclusive("no local index collision was observed")
	}
}

func c29RunConc(t *testing.T, r *verifkit.Reporter, hi int) {
	rng := verifkit.SubRand("C29conc", hi)
	K := []int{3, 4, 5, 6, 8, 12, 16}[hi%7]
	zeroIn := []uint64{3, 6, 16}[rng.IntN(3)]
	mix := []string{"handshake-heavy", "relay-client", "relay-server"}[(hi/7+hi)%3]
	nPup := 6 + rng.IntN(7)
	G := []int{6, 10, 16}[rng.IntN(3)]
	opsPer := verifkit.Scale(200, 600)
	label := fmt.Sprintf("conc history %d", hi)
	info := map[string]any{"index_space": K, "zero_one_in": zeroIn, "mix": mix, "puppets": nPup, "goroutines": G, "ops_per_goroutine": opsPer}
	r.Pre("C29 %s %v", label, info)
	r.DistinctClass(fmt.Sprintf("space=%d zero=1/%d mix=%s", K, zeroIn, mix))

	ca := vnNewCA(cert.Version2, cert.Curve_CURVE25519)
	pups := make([]*c29Puppet, nPup)
	static := m{}
	byAddr := map[netip.AddrPort]*c29Puppet{}
	for i := range pups {
		pups[i] = c29NewPuppet(ca, i)
		static[pups[i].vpn.String()] = []string{pups[i].addr.String()}
		byAddr[pups[i].addr] = pups[i]
	}
	over := m{"lighthouse": m{"am_lighthouse": true}, "static_host_map": static, "handshakes": m{"try_interval": "3ms"}}
	switch mix {
	case "relay-server":
		over["relay"] = m{"am_relay": true}
	default:
		over["relay"] = m{"use_relays": true}
	}
	lg := c29NewLog()
	nw := vnNewNet(t)
	node := c29AddNode(nw, ca.issue([]cert.Version{cert.Version2}, "n", "10.29.0.1/16", "", nil), []*vnCA{ca}, "192.0.2.1:4242", over, slog.New(lg))
	f := node.F
	hsm := f.handshakeManager
	me := node.Ident.Addr()
	if mix == "relay-client" {
		for i, p := range pups {
			node.C.InjectRelays(p.vpn, []netip.Addr{pups[(i+1)%nPup].vpn})
		}
	}

	cr := &c29Rand{vals: c29Vals(rng, K), zeroIn: zeroIn, seed: verifkit.Seed()*1000003 + uint64(hi)}
	cr.f.Store(f)
	info["index_values"] = cr.vals
	restore := c29Install(cr)
	mo := c29NewMon(r, f, label, info)

	var hookHits [8]atomic.Int64
	var yrng atomic.Uint64
	yrng.Store(verifkit.Seed()*7919 + uint64(hi))
	hook := func(id int) {
		if id >= 0 && id < len(hookHits) {
			hookHits[id].Add(1)
		}
		if _, ok := c29HookNames[id]; !ok {
			return
		}
		x := c29Mix(yrng.Add(0x9e3779b97f4a7c15))
		if x&3 == 0 {
			runtime.Gosched()
		}
		if x&15 == 5 {
			mo.check("hook "+c29HookNames[id], K)
			mo.r.Count("online_checks_at_hooks", 1)
		}
		if x&7 == 1 {
			runtime.Gosched()
		}
	}
	verifHook.Store(&hook)

	var world sync.RWMutex // shared: ordinary operations; exclusive: serialized checked deletes
	var reg sync.Map       // c29RegKey -> *handshake.Machine (puppet initiators waiting for the node's reply)
	work := make(chan c29Work, 512)
	var opCount atomic.Int64
	var silent atomic.Bool
	var nAlloc, nComplete, nDelete, nStale, nRecvErr, nRelayOK, nRelayErr, nExcl, nPupInit, nNodeInit, nZero atomic.Int64

	zeroHanded := func(what string, rec map[string]any) {
		nZero.Add(1)
		r.Violation("C29/zero-index-handed-out", label+": "+what, map[string]any{"history": label, "params": info, "detail": rec})
	}

	// the network: everything the node writes goes to the responder pool or is dropped
	pumpStop := make(chan struct{})
	var pumpWg sync.WaitGroup
	pumpWg.Add(1)
	go func() {
		defer pumpWg.Done()
		tx := node.udp().TxPackets
		for {
			select {
			case <-pumpStop:
				return
			case p := <-tx:
				var w c29Work
				if err := w.h.Parse(p.Data); err == nil && w.h.Type == header.Handshake && !silent.Load() {
					w.data = append([]byte(nil), p.Data...)
					w.to = p.To
					select {
					case work <- w:
					default:
						r.Count("network_dropped_handshake_packets", 1)
					}
				}
				p.Release()
			}
		}
	}()

	// puppets answering
	poolStop := make(chan struct{})
	var poolWg sync.WaitGroup
	for w := 0; w < 4; w++ {
		poolWg.Add(1)
		go func(w int) {
			defer poolWg.Done()
			prng := verifkit.SubRand("C29pool", hi*16+w)
			for {
				var it c29Work
				select {
				case <-poolStop:
					return
				case it = <-work:
				}
				p := byAddr[it.to]
				if p == nil {
					continue
				}
				switch it.h.MessageCounter {
				case 1: // the node initiates
					if prng.IntN(5) == 0 {
						r.Count("puppet_stayed_silent", 1)
						continue
					}
					mach := p.machine(false, uint32(1+prng.IntN(3)))
					resp, res, err := mach.ProcessPacket(nil, it.data)
					if err != nil || res == nil {
						r.Count("puppet_rejected_stage1", 1)
						continue
					}
					if res.RemoteIndex == 0 {
						zeroHanded("the node's first handshake message carries initiator index 0", map[string]any{"to": p.addr.String()})
					}
					var h header.H
					if err := h.Parse(resp); err != nil {
						panic(err)
					}
					n := 1
					if prng.IntN(8) == 0 {
						n = 2 // duplicated reply
					}
					if prng.IntN(5) == 0 {
						time.Sleep(time.Duration(1+prng.IntN(40)) * time.Millisecond) // late reply: races the retries and the time-out
					}
					for ; n > 0; n-- {
						world.RLock()
						hsm.HandleIncoming(ViaSender{UdpAddr: p.addr}, resp, &h)
						world.RUnlock()
						opCount.Add(1)
					}
					nComplete.Add(1)
				case 2: // the node answered a puppet's handshake
					v, ok := reg.LoadAndDelete(c29RegKey{it.to, it.h.RemoteIndex})
					if !ok {
						continue
					}
					_, res, err := v.(*handshake.Machine).ProcessPacket(nil, it.data)
					if err != nil || res == nil {
						r.Count("puppet_rejected_stage2", 1)
						continue
					}
					nAlloc.Add(1)
					if res.RemoteIndex == 0 {
						zeroHanded("the node's handshake reply carries responder index 0", map[string]any{"to": p.addr.String()})
					}
				}
			}
		}(w)
	}

	// workers
	var wg sync.WaitGroup
	for w := 0; w < G; w++ {
		wg.Add(1)
		go func(w int) {
			defer wg.Done()
			wr := verifkit.SubRand("C29worker", hi*64+w)
			var stale []*HostInfo
			remember := func(h *HostInfo) {
				if h == nil {
					return
				}
				if len(stale) < 8 {
					stale = append(stale, h)
				} else {
					stale[wr.IntN(len(stale))] = h
				}
			}
			del := func(h *HostInfo, how int) string {
				switch how % 3 {
				case 0:
					f.closeTunnel(h)
					return "closeTunnel"
				case 1:
					f.hostMap.DeleteHostInfo(h)
					return "HostMap.DeleteHostInfo"
				default:
					hdr := header.H{Version: header.Version, Type: header.RecvError, RemoteIndex: h.remoteIndexId}
					f.handleRecvError(h.GetRemote(), &hdr)
					return "handleRecvError"
				}
			}
			for i := 0; i < opsPer; i++ {
				if i%4 == 0 {
					// all workers sleep on the same millisecond grid of the virtual clock: the ones that wake at the same
					// instant run their bursts truly concurrently, and the node's own handshake timer gets to tick
					time.Sleep(time.Duration(2+wr.IntN(4)) * time.Millisecond)
				}
				opCount.Add(1)
				r.Eval(1)
				switch x := wr.IntN(100); {
				case x < 24: // a puppet initiates
					p := pups[wr.IntN(nPup)]
					idx := uint32(1 + wr.IntN(3))
					mach := p.machine(true, idx)
					msg, err := mach.Initiate(nil)
					if err != nil {
						panic(err)
					}
					var h header.H
					if err := h.Parse(msg); err != nil {
						panic(err)
					}
					reg.Store(c29RegKey{p.addr, idx}, mach)
					n := 1
					if wr.IntN(7) == 0 {
						n = 2 // retransmission: the node must answer from the tunnel it already made
					}
					for ; n > 0; n-- {
						world.RLock()
						hsm.HandleIncoming(ViaSender{UdpAddr: p.addr}, msg, &h)
						world.RUnlock()
					}
					nPupInit.Add(1)
				case x < 46: // the node initiates
					p := pups[wr.IntN(nPup)]
					world.RLock()
					if wr.IntN(2) == 0 {
						f.Handshake(p.vpn)
					} else {
						hsm.StartHandshake(p.vpn, nil)
					}
					world.RUnlock()
					nNodeInit.Add(1)
				case x < 58: // close an established tunnel
					world.RLock()
					if h := c29PickLive(f, wr, false); h != nil {
						del(h, wr.IntN(2))
						remember(h)
						nDelete.Add(1)
					}
					world.RUnlock()
				case x < 64: // delete a tunnel that was removed earlier, again
					if len(stale) > 0 {
						world.RLock()
						del(stale[wr.IntN(len(stale))], wr.IntN(3))
						world.RUnlock()
						nStale.Add(1)
					}
				case x < 73: // recv_error for an established tunnel
					world.RLock()
					if h := c29PickLive(f, wr, false); h != nil {
						del(h, 2)
						remember(h)
						nRecvErr.Add(1)
					}
					world.RUnlock()
				case x < 79: // relay index straight from AddRelay, on present and on removed tunnels
					world.RLock()
					h := c29PickLive(f, wr, false)
					if len(stale) > 0 && wr.IntN(4) == 0 {
						h = stale[wr.IntN(len(stale))]
					}
					if h != nil {
						idx, err := AddRelay(f.l, h, f.hostMap, pups[wr.IntN(nPup)].vpn, nil, TerminalType, Requested)
						if err == nil {
							nRelayOK.Add(1)
							if idx == 0 {
								zeroHanded("AddRelay returned relay index 0", nil)
							}
							mo.logRelay(h, idx)
						} else {
							nRelayErr.Add(1)
						}
					}
					world.RUnlock()
				case x < 89: // CreateRelayRequest through the real handler
					world.RLock()
					if h := c29PickLive(f, wr, false); h != nil {
						to := me
						if mix == "relay-server" && wr.IntN(3) != 0 {
							to = pups[wr.IntN(nPup)].vpn
						}
						f.relayManager.HandleControlMsg(h, c29Control(h.vpnAddrs[0], to, uint32(1+wr.IntN(4))), f)
						r.Count("relay_requests_injected", 1)
					}
					world.RUnlock()
				case x < 94:
					world.RLock()
					mo.check("between operations", K)
					world.RUnlock()
				default:
					// serialized checked delete: no other harness operation runs between the two snapshots. The node's own
					// handshake manager goroutine may: it only adds pending / relay entries or removes a pending entry
					// together with its owner, and never touches Indexes or RemoteIndexes, so the diff stays exact.
					world.Lock()
					h := c29PickLive(f, wr, true)
					if len(stale) > 0 && wr.IntN(3) == 0 {
						h = stale[wr.IntN(len(stale))]
					}
					if h != nil {
						pre := mo.check("before serialized delete", K)
						op := del(h, wr.IntN(3))
						post := mo.check("after serialized delete ("+op+")", K)
						mo.diffDelete(pre, post, op, h)
						remember(h)
						nExcl.Add(1)
					}
					world.Unlock()
				}
			}
		}(w)
	}
	wg.Wait()

	// quiescent point 1: workers are done and every goroutine of the node and the harness is durably blocked
	synctest.Wait()
	mo.check("quiescent after workload", K)
	// then the puppets go silent and every remaining pending handshake times out
	silent.Store(true)
	time.Sleep(hsTimeout(hsm.config.retries, hsm.config.tryInterval) + 20*hsm.config.tryInterval)
	synctest.Wait()
	close(poolStop)
	poolWg.Wait()
	fin := mo.check("quiescent after time-outs", K)
	if len(fin.pendLive) != 0 {
		r.Count("pending_left_after_timeouts", len(fin.pendLive))
	}
	// tear everything down through the real close path; nothing may be lost on the way
	for round := 0; round < 64; round++ {
		h := c29PickLive(f, rng, true)
		if h == nil {
			break
		}
		pre := mo.collect()
		op := "closeTunnel"
		f.closeTunnel(h)
		post := mo.check("teardown", K)
		mo.diffDelete(pre, post, op, h)
	}
	node.C.Stop()
	synctest.Wait() // the node's goroutines are gone
	close(pumpStop)
	pumpWg.Wait()
	verifHook.Store(nil)
	restore()

	c29Evidence(r, cr, lg, &hookHits)
	r.Count("puppet_initiated_handshakes", int(nPupInit.Load()))
	r.Count("node_initiated_handshake_requests", int(nNodeInit.Load()))
	r.Count("node_indexes_seen_on_the_wire", int(nAlloc.Load()+nComplete.Load()))
	r.Count("deletes", int(nDelete.Load()+nRecvErr.Load()+nExcl.Load()))
	r.Count("recv_error_deletes", int(nRecvErr.Load()))
	r.Count("stale_deletes", int(nStale.Load()))
	r.Count("serialized_checked_deletes", int(nExcl.Load()))
	r.Count("add_relay_ok", int(nRelayOK.Load()))
	r.Count("add_relay_refused", int(nRelayErr.Load()))
	r.Count("snapshots_checked", int(mo.checks.Load()))
	r.Count("histories", 1)
	var dv int
	cr.distinct.Range(func(_, _ any) bool { dv++; return true })
	r.Sample(map[string]any{"history": hi, "params": info, "distinct_index_values_drawn": dv, "snapshots": mo.checks.Load(),
		"allocate_retries": cr.inUse[c29CallerAlloc].Load(), "relay_retries": cr.inUse[c29CallerRelay].Load(),
		"collision_errors": lg.get("Failed to add HostInfo due to localIndex collision"), "timeouts": lg.get("Handshake timed out")})
}

// ---------------------------------------------------------------------------------------------------------------------
// unit node

type c29PTun struct {
	cs     *ConnectionState
	local  uint32 // puppet's index
	remote uint32 // node's index
}

func (t *c29PTun) seal(typ header.MessageType, st header.MessageSubType, payload []byte) []byte {
	c := t.cs.messageCounter.Add(1)
	out := header.Encode(make([]byte, header.Len, header.Len+len(payload)+32), header.Version, typ, st, t.remote, c)
	nb := make([]byte, 12)
	out, err := t.cs.eKey.EncryptDanger(out, out, payload, c, nb)
	if err != nil {
		panic(err)
	}
	return out
}

func TestVerifC29Node(t *testing.T) {
	r := verifkit.NewReporter(t, "C29", "node",
		"runs = (index-space size, puppet count, relay role) x S virtual seconds of one started node whose index space is tiny, with puppet goroutines handshaking in both directions, closing tunnels, sending recv_errors and relay requests or going silent, while the node's own handshake retry and connection manager timers run; one evaluation per puppet action; distinct = distinct (index-space size, pending set, established set, relay set) snapshots")
	defer r.Done()
	runs := verifkit.Scale(8, 96)
	for ri := 0; ri < runs; ri++ {
		if !verifkit.Mine(ri) {
			continue
		}
		t.Run(fmt.Sprintf("run%d", ri), func(t *testing.T) {
			synctest.Test(t, func(t *testing.T) { c29RunNode(t, r, ri) })
		})
	}
	if r.Counter("allocate_index_retries_on_index_in_use")+r.Counter("check_and_complete_local_index_collisions") == 0 {
		r.Inconclusive("no local index collision was observed")
	}
}

func c29RunNode(t *testing.T, r *verifkit.Reporter, ri int) {
	rng := verifkit.SubRand("C29node", ri)
	K := []int{4, 3, 8, 6, 12, 16, 5}[ri%7]
	zeroIn := []uint64{4, 8}[rng.IntN(2)]
	nPup := 5 + rng.IntN(6)
	amRelay := ri%2 == 1
	secs := verifkit.Scale(40, 120)
	label := fmt.Sprintf("node run %d", ri)
	info := map[string]any{"index_space": K, "zero_one_in": zeroIn, "puppets": nPup, "am_relay": amRelay, "virtual_seconds": secs}
	r.Pre("C29 %s %v", label, info)
	r.DistinctClass(fmt.Sprintf("node space=%d zero=1/%d am_relay=%v", K, zeroIn, amRelay))

	ca := vnNewCA(cert.Version2, cert.Curve_CURVE25519)
	pups := make([]*c29Puppet, nPup)
	static := m{}
	byAddr := map[netip.AddrPort]int{}
	for i := range pups {
		pups[i] = c29NewPuppet(ca, i)
		static[pups[i].vpn.String()] = []string{pups[i].addr.String()}
		byAddr[pups[i].addr] = i
	}
	over := m{"static_host_map": static, "tunnels": m{"drop_inactive": true, "inactivity_timeout": "7s"}}
	if amRelay {
		over["relay"] = m{"am_relay": true}
	} else {
		over["relay"] = m{"use_relays": true}
	}
	lg := c29NewLog()
	nw := vnNewNet(t)
	node := c29AddNode(nw, ca.issue([]cert.Version{cert.Version2}, "n", "10.29.0.1/16", "", nil), []*vnCA{ca}, "192.0.2.1:4242", over, slog.New(lg))
	f := node.F
	me := node.Ident.Addr()
	if !amRelay {
		for i, p := range pups {
			node.C.InjectRelays(p.vpn, []netip.Addr{pups[(i+1)%nPup].vpn})
		}
	}
	cr := &c29Rand{vals: c29Vals(rng, K), zeroIn: zeroIn, seed: verifkit.Seed()*1000003 + 7777 + uint64(ri)}
	cr.f.Store(f)
	info["index_values"] = cr.vals
	restore := c29Install(cr)
	mo := c29NewMon(r, f, label, info)

	var hookHits [8]atomic.Int64
	var yrng atomic.Uint64
	yrng.Store(verifkit.Seed()*104729 + uint64(ri))
	hook := func(id int) {
		if id >= 0 && id < len(hookHits) {
			hookHits[id].Add(1)
		}
		if _, ok := c29HookNames[id]; !ok {
			return
		}
		x := c29Mix(yrng.Add(0x9e3779b97f4a7c15))
		if x&1 == 0 {
			runtime.Gosched()
		}
		if x&7 == 5 {
			mo.check("hook "+c29HookNames[id], K)
			mo.r.Count("online_checks_at_hooks", 1)
		}
	}
	verifHook.Store(&hook)
	node.Start()

	ctx, cancel := context.WithCancel(context.Background())
	netCtx, netCancel := context.WithCancel(context.Background())
	var wg, netWg sync.WaitGroup
	inbox := make([]chan []byte, nPup)
	for i := range inbox {
		inbox[i] = make(chan []byte, 64)
	}
	var actions, zeroSeen, established, closesSent, recvErrSent, relayReqSent, tunTriggers atomic.Int64
	zeroHanded := func(what string) {
		zeroSeen.Add(1)
		r.Violation("C29/zero-index-handed-out", label+": "+what, map[string]any{"history": label, "params": info})
	}
	// the network
	netWg.Add(2)
	go func() {
		defer netWg.Done()
		tx := node.udp().TxPackets
		for {
			select {
			case <-netCtx.Done():
				return
			case p := <-tx:
				if i, ok := byAddr[p.To]; ok {
					select {
					case inbox[i] <- append([]byte(nil), p.Data...):
					default:
					}
				}
				p.Release()
			}
		}
	}()
	go func() {
		defer netWg.Done()
		tx := node.tun().TxPackets
		for {
			select {
			case <-netCtx.Done():
				return
			case b := <-tx:
				overlay.ReleaseTunBuf(b)
			}
		}
	}()
	inject := func(from netip.AddrPort, data []byte) {
		p := &udp.Packet{To: node.Addr, From: from, Data: data}
		select {
		case node.udp().RxPackets <- p.Copy():
		default: // receive queue full: the network drops
		}
	}

	for i, p := range pups {
		wg.Add(1)
		go func(i int, p *c29Puppet) {
			defer wg.Done()
			prng := verifkit.SubRand("C29puppet", ri*64+i)
			var tuns []*c29PTun
			pendingInit := map[uint32]*handshake.Machine{}
			timer := time.NewTimer(time.Duration(20+prng.IntN(300)) * time.Millisecond)
			defer timer.Stop()
			mood := prng.IntN(4) // 0: answers everything ... 3: mostly silent
			for {
				select {
				case <-ctx.Done():
					return
				case data := <-inbox[i]:
					var h header.H
					if err := h.Parse(data); err != nil {
						continue
					}
					switch {
					case h.Type == header.Handshake && h.MessageCounter == 1:
						if prng.IntN(4) < mood {
							continue // silent: the node's handshake will time out
						}
						mach := p.machine(false, uint32(1+prng.IntN(3)))
						resp, res, err := mach.ProcessPacket(nil, data)
						if err != nil || res == nil {
							continue
						}
						if res.RemoteIndex == 0 {
							zeroHanded("the node's first handshake message carries initiator index 0")
						}
						cs, err := newConnectionStateFromResult(res)
						if err != nil {
							continue
						}
						tuns = append(tuns, &c29PTun{cs: cs, local: res.LocalIndex, remote: res.RemoteIndex})
						if prng.IntN(6) == 0 {
							time.Sleep(time.Duration(prng.IntN(400)) * time.Millisecond) // late reply, may race the retry / time-out
						}
						inject(p.addr, resp)
						established.Add(1)
					case h.Type == header.Handshake && h.MessageCounter == 2:
						mach := pendingInit[h.RemoteIndex]
						if mach == nil {
							continue
						}
						delete(pendingInit, h.RemoteIndex)
						_, res, err := mach.ProcessPacket(nil, data)
						if err != nil || res == nil {
							continue
						}
						if res.RemoteIndex == 0 {
							zeroHanded("the node's handshake reply carries responder index 0")
						}
						if cs, err := newConnectionStateFromResult(res); err == nil {
							tuns = append(tuns, &c29PTun{cs: cs, local: res.LocalIndex, remote: res.RemoteIndex})
							established.Add(1)
						}
					case h.Type == header.Test && len(tuns) > 0 && prng.IntN(3) == 0:
						// keep the newest tunnel alive now and then
						inject(p.addr, tuns[len(tuns)-1].seal(header.Test, header.TestReply, []byte{}))
					}
				case <-timer.C:
					timer.Reset(time.Duration(30+prng.IntN(500)) * time.Millisecond)
					actions.Add(1)
					r.Eval(1)
					if len(tuns) > 6 {
						tuns = tuns[len(tuns)-6:]
					}
					switch x := prng.IntN(100); {
					case x < 30: // initiate towards the node
						idx := uint32(1 + prng.IntN(3))
						mach := p.machine(true, idx)
						msg, err := mach.Initiate(nil)
						if err != nil {
							panic(err)
						}
						pendingInit[idx] = mach
						inject(p.addr, msg)
						if prng.IntN(6) == 0 {
							inject(p.addr, msg)
						}
					case x < 55: // make the node initiate: traffic for this puppet shows up on the node's tun
						pkt, _ := vnUDP4(me, p.vpn, 4000, 80, 8)
						node.C.InjectTunPacket(pkt)
						tunTriggers.Add(1)
					case x < 67 && len(tuns) > 0: // authenticated close
						tn := tuns[prng.IntN(len(tuns))]
						inject(p.addr, tn.seal(header.CloseTunnel, 0, []byte{}))
						closesSent.Add(1)
					case x < 79 && len(tuns) > 0: // recv_error naming the node's tunnel
						tn := tuns[prng.IntN(len(tuns))]
						inject(p.addr, header.Encode(make([]byte, header.Len), header.Version, header.RecvError, 0, tn.local, 0))
						recvErrSent.Add(1)
					case x < 94 && len(tuns) > 0: // relay request
						tn := tuns[len(tuns)-1]
						to := me
						if amRelay && prng.IntN(3) != 0 {
							to = pups[prng.IntN(nPup)].vpn
						}
						inject(p.addr, tn.seal(header.Control, 0, c29Control(p.vpn, to, uint32(1+prng.IntN(4)))))
						relayReqSent.Add(1)
					default:
						mood = prng.IntN(4)
					}
				}
			}
		}(i, p)
	}
	// periodic online checks from a monitor goroutine
	wg.Add(1)
	go func() {
		defer wg.Done()
		for {
			select {
			case <-ctx.Done():
				return
			case <-time.After(37 * time.Millisecond):
				mo.check("periodic", K)
			}
		}
	}()

	time.Sleep(time.Duration(secs) * time.Second)
	cancel()
	wg.Wait()
	synctest.Wait()
	mo.check("quiescent after workload", K)
	// everything pending must time out, idle tunnels are torn down by the connection manager
	time.Sleep(30 * time.Second)
	synctest.Wait()
	fin := mo.check("quiescent after time-outs", K)
	r.Count("pending_left_after_timeouts", len(fin.pendLive))
	r.Count("established_left_at_end", len(fin.live))

	// stop the node while the network keeps draining
	done := make(chan struct{})
	go func() {
		node.C.Stop()
		node.C.Wait()
		close(done)
	}()
	<-done
	netCancel()
	netWg.Wait()
	verifHook.Store(nil)
	restore()

	c29Evidence(r, cr, lg, &hookHits)
	r.Count("puppet_actions", int(actions.Load()))
	r.Count("puppet_tunnels_completed", int(established.Load()))
	r.Count("closes_sent", int(closesSent.Load()))
	r.Count("recv_errors_sent", int(recvErrSent.Load()))
	r.Count("relay_requests_sent", int(relayReqSent.Load()))
	r.Count("tun_triggers", int(tunTriggers.Load()))
	r.Count("snapshots_checked", int(mo.checks.Load()))
	r.Count("virtual_seconds", secs+30)
	r.Count("runs", 1)
	r.Sample(map[string]any{"run": ri, "params": info, "snapshots": mo.checks.Load(), "tunnels_completed_by_puppets": established.Load(),
		"allocate_retries": cr.inUse[c29CallerAlloc].Load(), "relay_retries": cr.inUse[c29CallerRelay].Load(),
		"collision_errors": lg.get("Failed to add HostInfo due to localIndex collision"), "timeouts": lg.get("Handshake timed out")})
}

// ---------------------------------------------------------------------------------------------------------------------
// unit script: directed schedules through the real entry points (deterministic; the same snapshot oracles)

type c29Script struct {
	r       *verifkit.Reporter
	name    string
	node    *vnNode
	f       *Interface
	hsm     *HandshakeManager
	lg      *c29Log
	cr      *c29Rand
	mo      *c29Mon
	pups    []*c29Puppet
	restore func()
	K       int
}

// c29NewScript builds a wired, not started node. Puppets with number < learned are only known through a learned
// lighthouse entry (closing their last tunnel clears lighthouse state), the rest are static hosts.
func c29NewScript(t *testing.T, r *verifkit.Reporter, name string, vals []uint32, zeroIn uint64, nPup, learned int, amRelay bool) *c29Script {
	s := &c29Script{r: r, name: name, K: len(vals)}
	ca := vnNewCA(cert.Version2, cert.Curve_CURVE25519)
	static := m{}
	for i := 0; i < nPup; i++ {
		p := c29NewPuppet(ca, i)
		s.pups = append(s.pups, p)
		if i >= learned {
			static[p.vpn.String()] = []string{p.addr.String()}
		}
	}
	over := m{"lighthouse": m{"am_lighthouse": true}, "relay": m{"am_relay": amRelay}}
	if len(static) > 0 {
		over["static_host_map"] = static
	}
	s.lg = c29NewLog()
	nw := vnNewNet(t)
	s.node = c29AddNode(nw, ca.issue([]cert.Version{cert.Version2}, "n", "10.29.0.1/16", "", nil), []*vnCA{ca}, "192.0.2.1:4242", over, slog.New(s.lg))
	s.f = s.node.F
	s.hsm = s.f.handshakeManager
	for i := 0; i < learned; i++ {
		s.node.C.InjectLightHouseAddr(s.pups[i].vpn, s.pups[i].addr)
	}
	s.cr = &c29Rand{vals: vals, zeroIn: zeroIn, seed: verifkit.Seed()}
	s.cr.f.Store(s.f)
	s.restore = c29Install(s.cr)
	s.mo = c29NewMon(r, s.f, "script "+name, map[string]any{"index_values": vals, "zero_one_in": zeroIn})
	return s
}

func (s *c29Script) done() {
	s.drain()
	s.node.C.Stop()
	synctest.Wait() // the node's goroutines are gone
	s.restore()
}

// drain returns the handshake packets the node wrote since the last call.
func (s *c29Script) drain() []c29Work {
	var out []c29Work
	for {
		p := s.node.udp().Get(false)
		if p == nil {
			return out
		}
		var w c29Work
		if err := w.h.Parse(p.Data); err == nil && w.h.Type == header.Handshake {
			w.data = append([]byte(nil), p.Data...)
			w.to = p.To
			out = append(out, w)
		}
		p.Release()
	}
}

func (s *c29Script) check(where string) *c29Snap { return s.mo.check(where, s.K) }

// pupInit: the puppet starts a genuine handshake; returns the node-side tunnel if the node accepted and the index the
// node's reply carried.
func (s *c29Script) pupInit(p *c29Puppet, pidx uint32) (*HostInfo, uint32) {
	mach := p.machine(true, pidx)
	msg, err := mach.Initiate(nil)
	if err != nil {
		panic(err)
	}
	var h header.H
	if err := h.Parse(msg); err != nil {
		panic(err)
	}
	before := s.f.hostMap.QueryVpnAddr(p.vpn)
	s.hsm.HandleIncoming(ViaSender{UdpAddr: p.addr}, msg, &h)
	var nodeIdx uint32
	for _, w := range s.drain() {
		if w.to == p.addr && w.h.MessageCounter == 2 {
			if _, res, err := mach.ProcessPacket(nil, w.data); err == nil && res != nil {
				nodeIdx = res.RemoteIndex
				if nodeIdx == 0 {
					s.r.Violation("C29/zero-index-handed-out", "script "+s.name+": the node's handshake reply carries responder index 0", nil)
				}
			}
		}
	}
	after := s.f.hostMap.QueryVpnAddr(p.vpn)
	if after == before {
		return nil, 0
	}
	return after, nodeIdx
}

// pupInitRetry repeats pupInit until the node's responder index draw did not collide (bounded).
func (s *c29Script) pupInitRetry(p *c29Puppet, pidx uint32) *HostInfo {
	for i := 0; i < 200; i++ {
		if h, _ := s.pupInit(p, pidx); h != nil {
			return h
		}
	}
	return nil
}

// nodeInit: the node starts a handshake towards the puppet and one attempt is sent; returns the first message, if any.
func (s *c29Script) nodeInit(p *c29Puppet) *c29Work {
	s.hsm.StartHandshake(p.vpn, nil)
	s.hsm.handleOutbound(p.vpn, false)
	for _, w := range s.drain() {
		if w.to == p.addr && w.h.MessageCounter == 1 {
			return &w
		}
	}
	return nil
}

// pupAnswer: the puppet answers the node's first message; returns the established tunnel, if the node completed.
func (s *c29Script) pupAnswer(p *c29Puppet, w *c29Work, pidx uint32) *HostInfo {
	mach := p.machine(false, pidx)
	resp, res, err := mach.ProcessPacket(nil, w.data)
	if err != nil || res == nil {
		return nil
	}
	if res.RemoteIndex == 0 {
		s.r.Violation("C29/zero-index-handed-out", "script "+s.name+": the node's first handshake message carries initiator index 0", nil)
	}
	var h header.H
	if err := h.Parse(resp); err != nil {
		panic(err)
	}
	s.hsm.HandleIncoming(ViaSender{UdpAddr: p.addr}, resp, &h)
	s.drain()
	hi := s.f.hostMap.QueryVpnAddr(p.vpn)
	if hi == nil || hi.remoteIndexId != pidx {
		return nil
	}
	return hi
}

func (s *c29Script) pendingIndexOf(p *c29Puppet) uint32 {
	s.hsm.RLock()
	defer s.hsm.RUnlock()
	if hh := s.hsm.vpnIps[p.vpn]; hh != nil {
		return hh.hostinfo.localIndexId
	}
	return 0
}

func c29Spin(cond func() bool) bool {
	for i := 0; i < 50_000_000; i++ {
		if cond() {
			return true
		}
		runtime.Gosched()
	}
	return false
}

func TestVerifC29Script(t *testing.T) {
	if i, _ := verifkit.Shard(); i != 0 {
		return
	}
	r := verifkit.NewReporter(t, "C29", "script",
		"directed schedules through the real entry points with an index space of one or two values: recv_error teardown racing an index allocation (the teardown is parked on the lighthouse lock between its two steps), allocation against an index held by an established tunnel / a pending handshake, responder completion against a pending index, relay index exhaustion and re-use after removal, deletes of tunnels sharing a remote index, repeated deletes after index re-use; one evaluation per scenario step; distinct = scenario variants")
	defer r.Done()
	// in a bubble: the node's own handshake manager goroutine only moves when this goroutine sleeps, which it never does
	synctest.Test(t, func(t *testing.T) { c29Scripts(t, r) })
}

func c29Scripts(t *testing.T, r *verifkit.Reporter) {
	kvals := []uint32{1, 7, 0x80000000, 0xffffffff}
	ev := func(class string) { r.Eval(1); r.DistinctClass(class) }

	// S1: a recv_error tears down established tunnel G (index k); between its two steps (main hostmap removal, then the
	// pending-table cleanup) the handshake manager hands the now free k to pending handshake P. P must keep k.
	for vi, k := range kvals {
		for _, viaInitiator := range []bool{false, true} {
			name := fmt.Sprintf("S1 recv_error-races-allocation k=%#x established-as-initiator=%v", k, viaInitiator)
			s := c29NewScript(t, r, name, []uint32{k}, []uint64{0, 2}[vi%2], 2, 2, false)
			pa, pb := s.pups[0], s.pups[1]
			var g *HostInfo
			if viaInitiator {
				if w := s.nodeInit(pa); w != nil {
					g = s.pupAnswer(pa, w, 5)
				}
			} else {
				g, _ = s.pupInit(pa, 5)
			}
			if g == nil || g.localIndexId != k {
				r.Inconclusive(name + ": could not establish the first tunnel")
				s.done()
				continue
			}
			s.check(name + ": tunnel G established")
			s.hsm.StartHandshake(pb.vpn, nil)
			for len(s.hsm.trigger) > 0 {
				<-s.hsm.trigger
			}
			s.f.lightHouse.Lock() // parks closeTunnel's lighthouse cleanup, i.e. the recv_error handler between its two steps
			var wg sync.WaitGroup
			wg.Add(1)
			go func() {
				defer wg.Done()
				hdr := header.H{Version: header.Version, Type: header.RecvError, RemoteIndex: g.remoteIndexId}
				s.f.handleRecvError(pa.addr, &hdr)
			}()
			okA := c29Spin(func() bool { return s.f.hostMap.QueryIndex(k) == nil })
			wg.Add(1)
			go func() {
				defer wg.Done()
				s.hsm.handleOutbound(pb.vpn, false) // allocates k, then parks on the lighthouse lock as well
			}()
			okB := okA && c29Spin(func() bool { return s.hsm.QueryIndex(k) != nil })
			s.f.lightHouse.Unlock()
			wg.Wait()
			if !okA || !okB {
				r.Inconclusive(name + ": the schedule could not be forced")
				s.done()
				continue
			}
			r.Count("forced_recv_error_allocation_races", 1)
			snap := s.check(name + ": after the recv_error teardown finished")
			if got := s.pendingIndexOf(pb); got != k {
				r.Inconclusive(fmt.Sprintf("%s: pending handshake carries %d", name, got))
			}
			_ = snap
			// the peer of P now answers: a handshake that still owns its index completes
			for _, w := range s.drain() {
				if w.to == pb.addr && w.h.MessageCounter == 1 {
					if s.pupAnswer(pb, &w, 6) != nil {
						r.Count("handshake_completed_after_forced_race", 1)
					}
					break
				}
			}
			s.check(name + ": after the peer answered")
			ev(name)
			s.done()
		}
	}

	// S2: the only free index is held by an established tunnel / by a pending handshake.
	for _, k := range kvals {
		name := fmt.Sprintf("S2 allocation-against-held-index k=%#x", k)
		s := c29NewScript(t, r, name, []uint32{k}, 3, 3, 3, false)
		pa, pb, pc := s.pups[0], s.pups[1], s.pups[2]
		g, widx := s.pupInit(pa, 5)
		if g == nil || widx != k {
			r.Inconclusive(name + ": could not establish the first tunnel")
			s.done()
			continue
		}
		// node-initiated handshake: allocateIndex must refuse (the space is exhausted), never hand out k
		if w := s.nodeInit(pb); w != nil {
			r.Violation("C29/index-held-by-pending-and-established", "script "+name+": the node sent a first handshake message although its only index is held by an established tunnel", nil)
		}
		s.check(name + ": allocation while an established tunnel holds the only index")
		ev(name + " established-holds")
		// responder completion for another peer: CheckAndComplete must refuse
		if h2, _ := s.pupInit(pc, 6); h2 != nil {
			s.check(name + ": second responder tunnel accepted")
		}
		s.check(name + ": responder completion while an established tunnel holds the only index")
		ev(name + " responder-vs-established")
		s.f.closeTunnel(g)
		s.check(name + ": after closing G")
		// now the pending handshake gets k ...
		s.hsm.handleOutbound(pb.vpn, false)
		w := s.drain()
		if s.pendingIndexOf(pb) != k {
			r.Inconclusive(name + ": pending handshake did not get the freed index")
			s.done()
			continue
		}
		// ... and a responder completion that draws k must be refused while it is pending
		before := s.lg.get("Failed to add HostInfo due to localIndex collision")
		if h3, _ := s.pupInit(pc, 6); h3 != nil {
			s.check(name + ": responder tunnel accepted while the index is pending")
		}
		if s.lg.get("Failed to add HostInfo due to localIndex collision") > before {
			r.Count("responder_refused_on_pending_index", 1)
		}
		s.check(name + ": responder completion while a pending handshake holds the only index")
		ev(name + " responder-vs-pending")
		// the pending handshake completes and keeps k
		for i := range w {
			if w[i].to == pb.addr && w[i].h.MessageCounter == 1 {
				if hi := s.pupAnswer(pb, &w[i], 7); hi != nil && hi.localIndexId == k {
					r.Count("pending_completed_with_its_index", 1)
				}
				break
			}
		}
		s.check(name + ": after completion")
		ev(name + " completion")
		s.done()
	}

	// S3: relay indexes: exhaustion never steals, removal of the owner frees.
	for _, k := range kvals {
		for _, amRelay := range []bool{false, true} {
			name := fmt.Sprintf("S3 relay-index k=%#x am_relay=%v", k, amRelay)
			s := c29NewScript(t, r, name, []uint32{k, k ^ 0x10}, 4, 3, 3, amRelay)
			pa, pb, pc := s.pups[0], s.pups[1], s.pups[2]
			ha := s.pupInitRetry(pa, 5)
			hb := s.pupInitRetry(pb, 5)
			if ha == nil || hb == nil {
				r.Inconclusive(name + ": could not establish two tunnels")
				s.done()
				continue
			}
			// tunnel indexes and relay indexes are separate tables: both relay indexes are still free
			i1, e1 := AddRelay(s.f.l, ha, s.f.hostMap, pc.vpn, nil, TerminalType, Requested)
			s.f.relayManager.HandleControlMsg(hb, c29Control(pb.vpn, s.node.Ident.Addr(), 9), s.f) // real handler: relay target is me
			s.drain()
			if e1 == nil {
				s.mo.logRelay(ha, i1)
				if i1 == 0 {
					r.Violation("C29/zero-index-handed-out", "script "+name+": AddRelay returned relay index 0", nil)
				}
			}
			s.check(name + ": two relay indexes in use")
			// a third allocation finds no free index: it must fail, not take one over
			i3, e3 := AddRelay(s.f.l, hb, s.f.hostMap, pc.vpn, nil, TerminalType, Requested)
			if e3 == nil {
				s.mo.logRelay(hb, i3)
				r.Count("relay_allocation_succeeded_in_full_space", 1)
			} else {
				r.Count("relay_allocation_refused_in_full_space", 1)
			}
			s.check(name + ": allocation in a full relay index space")
			ev(name + " full")
			pre := s.mo.collect()
			s.f.closeTunnel(ha)
			post := s.check(name + ": relay owner closed")
			s.mo.diffDelete(pre, post, "closeTunnel", ha)
			if i4, e4 := AddRelay(s.f.l, hb, s.f.hostMap, pc.vpn, nil, TerminalType, Requested); e4 == nil {
				s.mo.logRelay(hb, i4)
				r.Count("relay_index_reused_after_owner_removed", 1)
			}
			s.check(name + ": relay index re-used after its owner was removed")
			// deleting the removed owner again must not release the index now held by hb
			pre = s.mo.collect()
			s.f.closeTunnel(ha)
			post = s.check(name + ": removed relay owner deleted again")
			s.mo.diffDelete(pre, post, "closeTunnel (again)", ha)
			ev(name + " reuse")
			s.done()
		}
	}

	// S4: tunnels sharing a remote index, and repeated deletes after the local index was re-used.
	for _, k := range kvals {
		for how := 0; how < 3; how++ {
			name := fmt.Sprintf("S4 shared-remote-index k=%#x delete=%d", k, how)
			s := c29NewScript(t, r, name, []uint32{k, k ^ 0x10, k ^ 0x20}, 5, 3, 3, false)
			pa, pb, pc := s.pups[0], s.pups[1], s.pups[2]
			ha := s.pupInitRetry(pa, 7)
			hb := s.pupInitRetry(pb, 7) // same remote index: RemoteIndexes[7] now points to hb
			if ha == nil || hb == nil {
				r.Inconclusive(name + ": could not establish two tunnels")
				s.done()
				continue
			}
			del := func(h *HostInfo) string {
				switch how {
				case 0:
					s.f.closeTunnel(h)
					return "closeTunnel"
				case 1:
					s.f.hostMap.DeleteHostInfo(h)
					return "HostMap.DeleteHostInfo"
				default:
					s.f.closeTunnel(h)
					s.hsm.DeleteHostInfo(h) // the two steps of the recv_error teardown for this very tunnel
					return "closeTunnel + pending cleanup"
				}
			}
			pre := s.check(name + ": two tunnels share remote index 7")
			op := del(ha)
			post := s.check(name + ": older tunnel deleted")
			s.mo.diffDelete(pre, post, op, ha)
			if post.remote[7] == hb {
				r.Count("remote_index_entry_survived_foreign_delete", 1)
			}
			ev(name + " foreign-delete")
			// fill the index space again, then delete the removed tunnel once more
			hc := s.pupInitRetry(pc, 8)
			hd := s.pupInitRetry(pa, 9)
			_ = hc
			_ = hd
			pre = s.check(name + ": index space refilled")
			op = del(ha)
			post = s.check(name + ": removed tunnel deleted again")
			s.mo.diffDelete(pre, post, op+" (again)", ha)
			ev(name + " delete-again")
			pre = post
			op = del(hb)
			post = s.check(name + ": owner of the remote index entry deleted")
			s.mo.diffDelete(pre, post, op, hb)
			ev(name + " owner-delete")
			s.done()
		}
	}

	// S5: a reply for pending handshake A (index k) has been looked up by the receive path; before it takes A's lock
	// (yield point hs.beforeContinueLock) A runs out of retries and is removed, and k goes to pending handshake B. The
	// late reply belongs to a handshake that no longer owns k: it must not complete.
	for _, k := range kvals {
		name := fmt.Sprintf("S5 late-reply-after-timeout-and-reallocation k=%#x", k)
		s := c29NewScript(t, r, name, []uint32{k}, 0, 2, 2, false)
		pa, pb := s.pups[0], s.pups[1]
		w := s.nodeInit(pa)
		if w == nil || s.pendingIndexOf(pa) != k {
			r.Inconclusive(name + ": could not start the first handshake")
			s.done()
			continue
		}
		resp, res, err := pa.machine(false, 5).ProcessPacket(nil, w.data)
		if err != nil || res == nil {
			r.Inconclusive(name + ": puppet could not answer")
			s.done()
			continue
		}
		var h header.H
		if err := h.Parse(resp); err != nil {
			panic(err)
		}
		forced := false
		fired := false
		hook := func(id int) {
			if id != verifHsBeforeContinueLock || fired {
				return
			}
			fired = true
			for i := 0; i < 64 && s.pendingIndexOf(pa) != 0; i++ {
				s.hsm.handleOutbound(pa.vpn, false) // retransmits, then gives up and removes A
			}
			if s.pendingIndexOf(pa) != 0 {
				return
			}
			s.hsm.StartHandshake(pb.vpn, nil)
			s.hsm.handleOutbound(pb.vpn, false) // B is handed the only index value
			forced = s.pendingIndexOf(pb) == k
		}
		verifHook.Store(&hook)
		s.hsm.HandleIncoming(ViaSender{UdpAddr: pa.addr}, resp, &h)
		verifHook.Store(nil)
		s.drain()
		if !forced {
			r.Inconclusive(name + ": the schedule could not be forced")
			s.done()
			continue
		}
		r.Count("forced_late_replies_after_reallocation", 1)
		s.check(name + ": after the late reply")
		if hi := s.f.hostMap.QueryVpnAddr(pa.vpn); hi != nil {
			r.Violation("C29/timed-out-handshake-completed-on-reallocated-index", fmt.Sprintf("script %s: the handshake that had timed out was completed by a late reply and installed under index %d, which a pending handshake owns", name, hi.localIndexId), map[string]any{"script": name})
		}
		if got := s.pendingIndexOf(pb); got != k {
			r.Violation("C29/pending-handshake-lost-its-index", fmt.Sprintf("script %s: pending handshake B no longer carries index %d after the late reply (has %d)", name, k, got), map[string]any{"script": name})
		}
		ev(name)
		s.done()
	}
}
