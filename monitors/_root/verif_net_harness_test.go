//go:build e2e_testing

package nebula

// E-net: real nebula nodes (nebula.Main + Control.Start) wired into an in-process hostile network.
// Everything here is meant to run inside a testing/synctest bubble so that time is virtual and
// synctest.Wait() is a true quiescent point (every node goroutine durably blocked).
//
// Identifier prefix: vn.

import (
	"encoding/binary"
	"fmt"
	"log/slog"
	"net/netip"
	"os"
	"sort"
	"strings"
	"sync/atomic"
	"testing"
	"testing/synctest"
	"time"

	"github.com/slackhq/nebula/cert"
	"github.com/slackhq/nebula/cert_test"
	"github.com/slackhq/nebula/config"
	"github.com/slackhq/nebula/firewall"
	"github.com/slackhq/nebula/handshake"
	"github.com/slackhq/nebula/header"
	"github.com/slackhq/nebula/overlay"
	"github.com/slackhq/nebula/overlay/batch"
	"github.com/slackhq/nebula/overlay/tio"
	"github.com/slackhq/nebula/udp"
	"go.yaml.in/yaml/v3"
)

type vnCA struct {
	Cert cert.Certificate
	Key  []byte
	PEM  []byte
}

// vnNewCA creates a CA valid from one hour before now (virtual clock inside a bubble) for ten years.
func vnNewCA(v cert.Version, curve cert.Curve) *vnCA {
	now := time.Now()
	c, _, priv, pem := cert_test.NewTestCaCert(v, curve, now.Add(-time.Hour), now.Add(10*365*24*time.Hour), nil, nil, nil)
	return &vnCA{Cert: c, Key: priv, PEM: pem}
}

type vnIdent struct {
	Name     string
	Certs    map[cert.Version]cert.Certificate
	CertPEM  []byte
	KeyPEM   []byte
	RawKey   []byte
	Curve    cert.Curve
	Networks []netip.Prefix
	Unsafe   []netip.Prefix
	Groups   []string
}

func (id *vnIdent) Addrs() []netip.Addr {
	out := make([]netip.Addr, len(id.Networks))
	for i, n := range id.Networks {
		out[i] = n.Addr()
	}
	return out
}

func (id *vnIdent) Addr() netip.Addr { return id.Networks[0].Addr() }

func vnPrefixes(s string) []netip.Prefix {
	var out []netip.Prefix
	for _, x := range strings.Split(s, ",") {
		x = strings.TrimSpace(x)
		if x == "" {
			continue
		}
		out = append(out, netip.MustParsePrefix(x))
	}
	return out
}

// issue creates an identity with one key pair and a certificate per requested version.
func (ca *vnCA) issue(versions []cert.Version, name, networks, unsafe string, groups []string) *vnIdent {
	now := time.Now()
	return ca.issueAt(versions, name, networks, unsafe, groups, now.Add(-30*time.Minute), now.Add(5*365*24*time.Hour))
}

func (ca *vnCA) issueAt(versions []cert.Version, name, networks, unsafe string, groups []string, before, after time.Time) *vnIdent {
	id := &vnIdent{Name: name, Certs: map[cert.Version]cert.Certificate{}, Curve: ca.Cert.Curve(), Networks: vnPrefixes(networks), Unsafe: vnPrefixes(unsafe), Groups: groups}
	nets := id.Networks
	if versions[0] == cert.Version1 && len(nets) > 1 {
		nets = nets[:1]
	}
	c, _, keyPEM, certPEM := cert_test.NewTestCert(versions[0], id.Curve, ca.Cert, ca.Key, name, before, after, nets, id.Unsafe, groups)
	id.Certs[versions[0]] = c
	id.CertPEM = append(id.CertPEM, certPEM...)
	id.KeyPEM = keyPEM
	raw, _, _, err := cert.UnmarshalPrivateKeyFromPEM(keyPEM)
	if err != nil {
		panic(err)
	}
	id.RawKey = raw
	for _, v := range versions[1:] {
		nc := &cert.TBSCertificate{Version: v, Curve: id.Curve, Name: name, Networks: id.Networks, UnsafeNetworks: id.Unsafe, Groups: groups,
			NotBefore: time.Unix(before.Unix(), 0), NotAfter: time.Unix(after.Unix(), 0), PublicKey: c.PublicKey()}
		if v == cert.Version1 && len(nc.Networks) > 1 {
			nc.Networks = nc.Networks[:1]
		}
		c2, err := nc.Sign(ca.Cert, ca.Cert.Curve(), ca.Key)
		if err != nil {
			panic(err)
		}
		p, _ := c2.MarshalPEM()
		id.Certs[v] = c2
		id.CertPEM = append(id.CertPEM, p...)
	}
	return id
}

type vnNode struct {
	Name    string
	C       *Control
	F       *Interface
	Cfg     *config.C
	Addr    netip.AddrPort
	Ident   *vnIdent
	TunOut  [][]byte
	started bool
	stopped bool
	nw      *vnNet
}

func vnLogger() *slog.Logger {
	if os.Getenv("VERIF_NETLOG") != "" {
		lvl := slog.LevelInfo
		if os.Getenv("VERIF_NETLOG") == "debug" {
			lvl = slog.LevelDebug
		}
		return slog.New(slog.NewTextHandler(os.Stderr, &slog.HandlerOptions{Level: lvl}))
	}
	return slog.New(slog.DiscardHandler)
}

// vnMerge overlays b onto a (maps recursively, everything else replaced).
func vnMerge(a, b m) m {
	out := m{}
	for k, v := range a {
		out[k] = v
	}
	for k, v := range b {
		if bm, ok := v.(m); ok {
			if am, ok2 := out[k].(m); ok2 {
				out[k] = vnMerge(am, bm)
				continue
			}
		}
		out[k] = v
	}
	return out
}

func vnBaseConfig(id *vnIdent, cas []*vnCA, addr netip.AddrPort) m {
	caPEM := ""
	for _, ca := range cas {
		caPEM += string(ca.PEM)
	}
	return m{
		"pki":      m{"ca": caPEM, "cert": string(id.CertPEM), "key": string(id.KeyPEM)},
		"firewall": m{"outbound": []m{{"proto": "any", "port": "any", "host": "any"}}, "inbound": []m{{"proto": "any", "port": "any", "host": "any"}}},
		"listen":   m{"host": addr.Addr().String(), "port": int(addr.Port())},
		"logging":  m{"level": "info"},
		"timers":   m{"pending_deletion_interval": 2, "connection_alive_interval": 2},
	}
}

// vnNet is the hostile network. It owns every UDP packet in flight.
type vnNet struct {
	t        testing.TB
	Nodes    []*vnNode
	byAddr   map[netip.AddrPort]*vnNode
	Puppets  map[netip.AddrPort]*vnPuppet
	Inflight []*vnPacket
	Archive  []*vnPacket
	seq      int
	// OnUDP is called for every packet a node emits (after it was recorded).
	OnUDP func(p *vnPacket)
	// Unroutable counts packets sent to addresses nobody owns.
	Unroutable int
	// KeepArchive controls whether every emitted packet is retained.
	KeepArchive bool
}

type vnPacket struct {
	Seq    int
	From   netip.AddrPort
	To     netip.AddrPort
	Data   []byte
	Sender *vnNode
	H      header.H
	HOK    bool
}

func (p *vnPacket) String() string {
	if p.HOK {
		return fmt.Sprintf("#%d %s->%s %s/%d idx=%d ctr=%d len=%d", p.Seq, p.From, p.To, header.TypeName(p.H.Type), p.H.Subtype, p.H.RemoteIndex, p.H.MessageCounter, len(p.Data))
	}
	return fmt.Sprintf("#%d %s->%s raw len=%d", p.Seq, p.From, p.To, len(p.Data))
}

func vnNewNet(t testing.TB) *vnNet {
	return &vnNet{t: t, byAddr: map[netip.AddrPort]*vnNode{}, Puppets: map[netip.AddrPort]*vnPuppet{}, KeepArchive: true}
}

// AddNode builds a node with nebula.Main (not started).
func (nw *vnNet) AddNode(id *vnIdent, cas []*vnCA, addr string, overrides m) *vnNode {
	ap := netip.MustParseAddrPort(addr)
	mc := vnBaseConfig(id, cas, ap)
	if overrides != nil {
		mc = vnMerge(mc, overrides)
	}
	cb, err := yaml.Marshal(mc)
	if err != nil {
		panic(err)
	}
	l := vnLogger()
	c := config.NewC(l)
	if err := c.LoadString(string(cb)); err != nil {
		panic(err)
	}
	ctrl, err := Main(c, false, "verif", l, nil)
	if err != nil {
		panic(fmt.Sprintf("Main(%s): %v", id.Name, err))
	}
	n := &vnNode{Name: id.Name, C: ctrl, F: ctrl.f, Cfg: c, Addr: ap, Ident: id, nw: nw}
	nw.Nodes = append(nw.Nodes, n)
	nw.byAddr[ap] = n
	return n
}

func (n *vnNode) Start() {
	if err := n.C.Start(); err != nil {
		panic(err)
	}
	n.started = true
}

// Reload applies a new settings overlay through the real config reload path.
func (n *vnNode) Reload(overrides m) {
	cur := m{}
	b, _ := yaml.Marshal(n.Cfg.Settings)
	yaml.Unmarshal(b, &cur)
	mc := vnMerge(cur, overrides)
	cb, _ := yaml.Marshal(mc)
	n.Cfg.ReloadConfigString(string(cb))
}

func (n *vnNode) udp() *udp.TesterConn   { return n.F.outside.(*udp.TesterConn) }
func (n *vnNode) tun() *overlay.TestTun  { return n.F.inside.(*overlay.TestTun) }
func (n *vnNode) lhAddStatic(peer *vnNode) { n.C.InjectLightHouseAddr(peer.Ident.Addr(), peer.Addr) }

// drain moves everything the nodes emitted into Inflight / TunOut. Returns whether anything moved.
func (nw *vnNet) drain() bool {
	moved := false
	for _, n := range nw.Nodes {
		if n.F == nil {
			continue
		}
		for {
			p := n.udp().Get(false)
			if p == nil {
				break
			}
			moved = true
			nw.seq++
			vp := &vnPacket{Seq: nw.seq, From: p.From, To: p.To, Data: append([]byte(nil), p.Data...), Sender: n}
			if err := vp.H.Parse(vp.Data); err == nil {
				vp.HOK = true
			}
			p.Release()
			nw.Inflight = append(nw.Inflight, vp)
			if nw.KeepArchive {
				nw.Archive = append(nw.Archive, vp)
			}
			if nw.OnUDP != nil {
				nw.OnUDP(vp)
			}
		}
		for {
			b := n.tun().Get(false)
			if b == nil {
				break
			}
			moved = true
			n.TunOut = append(n.TunOut, append([]byte(nil), b...))
			overlay.ReleaseTunBuf(b)
		}
	}
	return moved
}

// Settle waits for quiescence, draining node outputs until nothing more appears.
func (nw *vnNet) Settle() {
	for i := 0; i < 10000; i++ {
		synctest.Wait()
		if !nw.drain() {
			return
		}
	}
	panic("vnNet.Settle: did not quiesce")
}

// Inject hands raw bytes to the node owning `to` as if they came from `from`.
func (nw *vnNet) Inject(to *vnNode, from netip.AddrPort, data []byte) {
	if to.stopped {
		return
	}
	p := &udp.Packet{To: to.Addr, From: from, Data: data}
	to.C.InjectUDPPacket(p)
}

// Deliver removes p from Inflight (if present) and delivers it to its destination (node or puppet), then settles.
func (nw *vnNet) Deliver(p *vnPacket) {
	nw.Remove(p)
	nw.DeliverCopy(p)
}

// DeliverCopy delivers without touching Inflight (duplication / replay).
func (nw *vnNet) DeliverCopy(p *vnPacket) {
	if n, ok := nw.byAddr[p.To]; ok {
		nw.Inject(n, p.From, p.Data)
		nw.Settle()
		return
	}
	if pp, ok := nw.Puppets[p.To]; ok {
		pp.Inbox = append(pp.Inbox, p)
		return
	}
	nw.Unroutable++
}

func (nw *vnNet) Remove(p *vnPacket) {
	for i, q := range nw.Inflight {
		if q == p {
			nw.Inflight = append(nw.Inflight[:i], nw.Inflight[i+1:]...)
			return
		}
	}
}

// Flush delivers in FIFO order until nothing is in flight (bounded).
func (nw *vnNet) Flush() {
	for i := 0; i < 100000 && len(nw.Inflight) > 0; i++ {
		nw.Deliver(nw.Inflight[0])
	}
	if len(nw.Inflight) > 0 {
		panic("vnNet.Flush: network never drained")
	}
}

// DropAll discards everything in flight.
func (nw *vnNet) DropAll() { nw.Inflight = nil }

// Advance moves virtual time forward and settles.
func (nw *vnNet) Advance(d time.Duration) {
	time.Sleep(d)
	nw.Settle()
}

// AdvanceFlushing advances in steps, delivering all traffic after each step.
func (nw *vnNet) AdvanceFlushing(total, step time.Duration) {
	for e := time.Duration(0); e < total; e += step {
		time.Sleep(step)
		nw.Settle()
		nw.Flush()
	}
}

func (nw *vnNet) TunSend(n *vnNode, pkt []byte) {
	n.C.InjectTunPacket(pkt)
	nw.Settle()
}

// TunSendSuper pushes a packet or a TSO/USO superpacket through the node's real inside path (consumeInsidePacket and the
// send batch flush, exactly what listenIn does per packet) on the harness goroutine. The tester tun cannot carry GSO
// metadata, so this is the only way to reach the superpacket branches. Only call at quiescence.
func (nw *vnNet) TunSendSuper(n *vnNode, pkt tio.Packet) {
	f := n.F
	sb := batch.NewSendBatch(f.writers[0], batch.SendBatchCap, batch.SendBatchCap*(udp.MTU+32))
	f.consumeInsidePacket(pkt, &firewall.ParsedPacket{}, make([]byte, 12), sb, make([]byte, mtu), 0, nil)
	f.flushSendBatch(sb, 0)
	nw.Settle()
}

// vnUSO builds an IPv4/UDP USO superpacket of k chunks (chunk bytes each, the last one `last` bytes, every chunk starting
// with its own unique id) and returns it together with the segments the real segmenter makes of it.
func vnUSO(src, dst netip.Addr, sport, dport uint16, k, chunk, last int) (pkt tio.Packet, segs [][]byte, ids [][16]byte) {
	var pay []byte
	for i := 0; i < k; i++ {
		n := chunk
		if i == k-1 {
			n = last
		}
		var id [16]byte
		copy(id[:], "VERIFID!")
		binary.BigEndian.PutUint64(id[8:], vnPayloadSeq.Add(1))
		c := make([]byte, n)
		copy(c, id[:])
		for j := 16; j < n; j++ {
			c[j] = byte(j + i)
		}
		pay = append(pay, c...)
		ids = append(ids, id)
	}
	b := vnUDP4Raw(src, dst, sport, dport, pay)
	pkt = tio.Packet{Bytes: b, GSO: tio.GSOInfo{Size: uint16(chunk), HdrLen: 28, CsumStart: 20, Proto: tio.GSOProtoUDP}}
	if err := tio.SegmentSuperpacket(pkt.Clone(), func(seg []byte) error {
		segs = append(segs, append([]byte(nil), seg...))
		return nil
	}); err != nil {
		panic(err)
	}
	return pkt, segs, ids
}

// StopAll stops every node, draining outputs so writers never park on full channels.
func (nw *vnNet) StopAll() {
	for _, n := range nw.Nodes {
		nw.StopNode(n)
	}
}

func (nw *vnNet) StopNode(n *vnNode) {
	if n.stopped {
		return
	}
	n.stopped = true
	done := make(chan struct{})
	go func() {
		n.C.Stop()
		if n.started {
			n.C.Wait()
		}
		close(done)
	}()
	for i := 0; i < 10000; i++ {
		synctest.Wait()
		select {
		case <-done:
			nw.drain()
			return
		default:
		}
		nw.drain()
	}
	panic("StopNode: node did not stop: " + n.Name)
}

func (nw *vnNet) NodeByVpn(a netip.Addr) *vnNode {
	for _, n := range nw.Nodes {
		for _, x := range n.Ident.Addrs() {
			if x == a {
				return n
			}
		}
	}
	return nil
}

// ---------------------------------------------------------------------------------------------
// packets

var vnPayloadSeq atomic.Uint64

// vnUDP4 builds an IPv4/UDP packet whose payload starts with a unique 16-byte id.
func vnUDP4(src, dst netip.Addr, sport, dport uint16, extra int) (pkt []byte, id [16]byte) {
	copy(id[:], "VERIFID!")
	binary.BigEndian.PutUint64(id[8:], vnPayloadSeq.Add(1))
	payload := make([]byte, 16+extra)
	copy(payload, id[:])
	for i := 16; i < len(payload); i++ {
		payload[i] = byte(i)
	}
	return vnUDP4Raw(src, dst, sport, dport, payload), id
}

func vnUDP4Raw(src, dst netip.Addr, sport, dport uint16, payload []byte) []byte {
	total := 20 + 8 + len(payload)
	b := make([]byte, total)
	b[0] = 0x45
	binary.BigEndian.PutUint16(b[2:], uint16(total))
	b[6] = 0x40
	b[8] = 64
	b[9] = 17
	s4, d4 := src.As4(), dst.As4()
	copy(b[12:16], s4[:])
	copy(b[16:20], d4[:])
	var sum uint32
	for i := 0; i < 20; i += 2 {
		sum += uint32(binary.BigEndian.Uint16(b[i:]))
	}
	for sum>>16 != 0 {
		sum = sum&0xffff + sum>>16
	}
	binary.BigEndian.PutUint16(b[10:], ^uint16(sum))
	binary.BigEndian.PutUint16(b[20:], sport)
	binary.BigEndian.PutUint16(b[22:], dport)
	binary.BigEndian.PutUint16(b[24:], uint16(8+len(payload)))
	copy(b[28:], payload)
	return b
}

// vnUDP6 builds an IPv6/UDP packet whose payload starts with a unique 16-byte id (no checksum: nebula does not verify it).
func vnUDP6(src, dst netip.Addr, sport, dport uint16, extra int) (pkt []byte, id [16]byte) {
	copy(id[:], "VERIFID!")
	binary.BigEndian.PutUint64(id[8:], vnPayloadSeq.Add(1))
	payload := make([]byte, 16+extra)
	copy(payload, id[:])
	b := make([]byte, 40+8+len(payload))
	b[0] = 0x60
	binary.BigEndian.PutUint16(b[4:], uint16(8+len(payload)))
	b[6] = 17
	b[7] = 64
	s6, d6 := src.As16(), dst.As16()
	copy(b[8:24], s6[:])
	copy(b[24:40], d6[:])
	binary.BigEndian.PutUint16(b[40:], sport)
	binary.BigEndian.PutUint16(b[42:], dport)
	binary.BigEndian.PutUint16(b[44:], uint16(8+len(payload)))
	copy(b[48:], payload)
	return b, id
}

// vnPayloadID extracts the unique id of a tun packet built by vnUDP4 (ok=false if not one of ours).
func vnPayloadID(pkt []byte) (id [16]byte, ok bool) {
	if len(pkt) >= 64 && pkt[0]>>4 == 6 && pkt[6] == 17 {
		copy(id[:], pkt[48:64])
		return id, string(id[:8]) == "VERIFID!"
	}
	if len(pkt) < 44 || pkt[0]>>4 != 4 {
		return id, false
	}
	ihl := int(pkt[0]&0xf) * 4
	if len(pkt) < ihl+8+16 {
		return id, false
	}
	copy(id[:], pkt[ihl+8:ihl+24])
	if string(id[:8]) != "VERIFID!" {
		return id, false
	}
	return id, true
}

// ---------------------------------------------------------------------------------------------
// puppet peers: harness-held identities that run the real handshake.Machine and ConnectionState

type vnPuppet struct {
	Ident *vnIdent
	CS    *CertState
	Addr  netip.AddrPort
	nw    *vnNet
	Inbox []*vnPacket
	pool  *cert.CAPool
	// Tunnels by the peer node's name
	Tunnels map[string]*vnTunnel
	nextIdx uint32
	// LastStage0 is the most recent first handshake message this puppet produced.
	LastStage0 []byte
}

type vnTunnel struct {
	P      *vnPuppet
	Peer   *vnNode
	CS     *ConnectionState
	Local  uint32 // puppet's index (what the node puts in headers towards the puppet)
	Remote uint32 // node's index (what the puppet puts in headers)
	Result *handshake.Result
	Stage0 []byte
	Stage2 []byte
}

func (nw *vnNet) AddPuppet(id *vnIdent, cas []*vnCA, addr string, dv cert.Version) *vnPuppet {
	return nw.AddPuppetCipher(id, cas, addr, dv, "aes")
}

func (nw *vnNet) AddPuppetCipher(id *vnIdent, cas []*vnCA, addr string, dv cert.Version, cipher string) *vnPuppet {
	ap := netip.MustParseAddrPort(addr)
	cs, err := newCertState(dv, id.Certs[cert.Version1], id.Certs[cert.Version2], false, id.Curve, id.RawKey, cipher)
	if err != nil {
		panic(err)
	}
	pool := cert.NewCAPool()
	for _, ca := range cas {
		if err := pool.AddCA(ca.Cert); err != nil {
			panic(err)
		}
	}
	p := &vnPuppet{Ident: id, CS: cs, Addr: ap, nw: nw, pool: pool, Tunnels: map[string]*vnTunnel{}, nextIdx: 0x50000000 + uint32(len(nw.Puppets))<<16}
	nw.Puppets[ap] = p
	return p
}

func (p *vnPuppet) allocIndex() (uint32, error) {
	p.nextIdx++
	return p.nextIdx, nil
}

func (p *vnPuppet) verifier() handshake.CertVerifier {
	return func(c cert.Certificate) (*cert.CachedCertificate, error) {
		return p.pool.VerifyCertificate(time.Now(), c)
	}
}

// TakeInbox returns and clears the puppet's inbox. Packets the network had in flight to the puppet are moved first.
func (p *vnPuppet) TakeInbox() []*vnPacket {
	keep := p.nw.Inflight[:0]
	for _, q := range p.nw.Inflight {
		if q.To == p.Addr {
			p.Inbox = append(p.Inbox, q)
		} else {
			keep = append(keep, q)
		}
	}
	p.nw.Inflight = keep
	out := p.Inbox
	p.Inbox = nil
	return out
}

// Handshake runs a genuine IX handshake as initiator against node and returns the tunnel (nil if the node never answered).
func (p *vnPuppet) Handshake(node *vnNode) *vnTunnel {
	return p.HandshakeVia(node, func(msg []byte) {
		p.nw.Inject(node, p.Addr, msg)
		p.nw.Settle()
	})
}

// HandshakeVia is Handshake with a caller-supplied way of handing the first message to the node
// (so that not-started nodes can be driven synchronously, outside a bubble).
func (p *vnPuppet) HandshakeVia(node *vnNode, deliver func(msg []byte)) *vnTunnel {
	mach, err := handshake.NewMachine(p.CS.DefaultVersion(), p.CS.GetCredential, p.verifier(), p.allocIndex, true, header.HandshakeIXPSK0)
	if err != nil {
		panic(err)
	}
	msg, err := mach.Initiate(nil)
	if err != nil {
		panic(err)
	}
	p.LastStage0 = msg
	deliver(msg)
	for _, in := range p.TakeInbox() {
		if !in.HOK || in.H.Type != header.Handshake {
			p.Inbox = append(p.Inbox, in)
			continue
		}
		_, res, err := mach.ProcessPacket(nil, in.Data)
		if err != nil || res == nil {
			continue
		}
		cs, err := newConnectionStateFromResult(res)
		if err != nil {
			panic(err)
		}
		t := &vnTunnel{P: p, Peer: node, CS: cs, Local: res.LocalIndex, Remote: res.RemoteIndex, Result: res, Stage0: msg, Stage2: in.Data}
		p.Tunnels[node.Name] = t
		return t
	}
	return nil
}

// Respond answers a node's stage-1 handshake packet as a genuine responder and delivers the reply.
func (p *vnPuppet) Respond(stage1 *vnPacket) *vnTunnel {
	mach, err := handshake.NewMachine(p.CS.DefaultVersion(), p.CS.GetCredential, p.verifier(), p.allocIndex, false, header.HandshakeIXPSK0)
	if err != nil {
		panic(err)
	}
	resp, res, err := mach.ProcessPacket(nil, stage1.Data)
	if err != nil || res == nil {
		return nil
	}
	cs, err := newConnectionStateFromResult(res)
	if err != nil {
		panic(err)
	}
	node := stage1.Sender
	t := &vnTunnel{P: p, Peer: node, CS: cs, Local: res.LocalIndex, Remote: res.RemoteIndex, Result: res, Stage0: stage1.Data, Stage2: resp}
	p.Tunnels[node.Name] = t
	p.nw.Inject(node, p.Addr, resp)
	p.nw.Settle()
	return t
}

// RespondNoDeliver builds the genuine responder reply for a node's stage-1 packet but leaves delivery to the caller (reply in Stage2).
func (p *vnPuppet) RespondNoDeliver(stage1 *vnPacket) *vnTunnel {
	mach, err := handshake.NewMachine(p.CS.DefaultVersion(), p.CS.GetCredential, p.verifier(), p.allocIndex, false, header.HandshakeIXPSK0)
	if err != nil {
		panic(err)
	}
	resp, res, err := mach.ProcessPacket(nil, stage1.Data)
	if err != nil || res == nil {
		return nil
	}
	cs, err := newConnectionStateFromResult(res)
	if err != nil {
		panic(err)
	}
	node := stage1.Sender
	t := &vnTunnel{P: p, Peer: node, CS: cs, Local: res.LocalIndex, Remote: res.RemoteIndex, Result: res, Stage0: stage1.Data, Stage2: resp}
	p.Tunnels[node.Name] = t
	return t
}

// vnTunnels renders only the tunnel-identity part of a node's hostmap.
func vnTunnels(n *vnNode) string {
	hm := n.F.hostMap
	var lines []string
	hm.RLock()
	for a, h := range hm.Hosts {
		lines = append(lines, fmt.Sprintf("primary[%s]=%d", a, h.localIndexId))
	}
	for a, l := range hm.moreHosts {
		var ids []string
		for _, h := range l {
			ids = append(ids, fmt.Sprint(h.localIndexId))
		}
		lines = append(lines, fmt.Sprintf("list[%s]=%s", a, strings.Join(ids, ",")))
	}
	for i, h := range hm.Indexes {
		lines = append(lines, fmt.Sprintf("idx[%d]=%v/%d", i, h.vpnAddrs, h.remoteIndexId))
	}
	hm.RUnlock()
	sort.Strings(lines)
	return strings.Join(lines, "\n")
}

// Seal builds an authenticated packet with the next counter.
func (t *vnTunnel) Seal(typ header.MessageType, st header.MessageSubType, payload []byte) []byte {
	c := t.CS.messageCounter.Add(1)
	return t.SealAt(typ, st, t.Remote, c, payload)
}

// SealAt builds an authenticated packet with an explicit remote index and counter.
func (t *vnTunnel) SealAt(typ header.MessageType, st header.MessageSubType, idx uint32, counter uint64, payload []byte) []byte {
	out := header.Encode(make([]byte, header.Len, header.Len+len(payload)+32), header.Version, typ, st, idx, counter)
	nb := make([]byte, 12)
	out, err := t.CS.eKey.EncryptDanger(out, out, payload, counter, nb)
	if err != nil {
		panic(err)
	}
	return out
}

// SealRelay builds a relay-wrapped packet (header + inner as associated data + tag) for relay index idx.
func (t *vnTunnel) SealRelay(idx uint32, inner []byte) []byte {
	c := t.CS.messageCounter.Add(1)
	out := header.Encode(make([]byte, header.Len, header.Len+len(inner)+32), header.Version, header.Message, header.MessageRelay, idx, c)
	out = append(out, inner...)
	nb := make([]byte, 12)
	out, err := t.CS.eKey.EncryptDanger(out, out, nil, c, nb)
	if err != nil {
		panic(err)
	}
	return out
}

// Open authenticates and decrypts a packet the node sent to the puppet (no replay tracking).
func (t *vnTunnel) Open(data []byte) (header.H, []byte, error) {
	var h header.H
	if err := h.Parse(data); err != nil {
		return h, nil, err
	}
	nb := make([]byte, 12)
	if h.Type == header.Message && h.Subtype == header.MessageRelay {
		ov := t.CS.dKey.Overhead()
		if len(data) < header.Len+ov {
			return h, nil, fmt.Errorf("short")
		}
		_, err := t.CS.dKey.DecryptDanger(nil, data[:len(data)-ov], data[len(data)-ov:], h.MessageCounter, nb)
		if err != nil {
			return h, nil, err
		}
		return h, append([]byte(nil), data[header.Len:len(data)-ov]...), nil
	}
	cp := append([]byte(nil), data...)
	out, err := t.CS.dKey.DecryptDanger(nil, cp[:header.Len], cp[header.Len:], h.MessageCounter, nb)
	return h, out, err
}

// Send seals and injects a packet to the tunnel's node from the puppet's address, then settles.
func (t *vnTunnel) Send(typ header.MessageType, st header.MessageSubType, payload []byte) {
	t.P.nw.Inject(t.Peer, t.P.Addr, t.Seal(typ, st, payload))
	t.P.nw.Settle()
}

// ---------------------------------------------------------------------------------------------
// snapshots

func vnHostinfoLine(h *HostInfo) string {
	if h == nil {
		return "<nil>"
	}
	var sb strings.Builder
	fmt.Fprintf(&sb, "hi{local=%d remote=%d addrs=%v udp=%s", h.localIndexId, h.remoteIndexId, h.vpnAddrs, h.GetRemote())
	if cs := h.ConnectionState; cs != nil {
		cs.decryptLock.Lock()
		fmt.Fprintf(&sb, " win=%d", cs.window.current)
		cs.decryptLock.Unlock()
		fmt.Fprintf(&sb, " init=%v", cs.initiator)
		if cs.peerCert != nil {
			fmt.Fprintf(&sb, " cert=%s", cs.peerCert.Fingerprint[:12])
		}
	}
	fmt.Fprintf(&sb, " in=%v pendDel=%v roam=%s lastRoam=%d", h.in.Load(), h.pendingDeletion.Load(), h.lastRoamRemote, h.lastRoam.UnixNano())
	rs := &h.relayState
	rs.RLock()
	rel := append([]netip.Addr(nil), rs.relays...)
	var rf []string
	for idx, r := range rs.relayForByIdx {
		rf = append(rf, fmt.Sprintf("%d:{t=%d s=%d l=%d r=%d p=%s}", idx, r.Type, r.State, r.LocalIndex, r.RemoteIndex, r.PeerAddr))
	}
	rs.RUnlock()
	sort.Strings(rf)
	fmt.Fprintf(&sb, " relays=%v relayFor=%v}", rel, rf)
	return sb.String()
}

// vnSnapshot renders every piece of tunnel / lighthouse / relay / conntrack state a packet could affect.
// includeCounters adds the send counters (which legitimately change when the node emits).
func vnSnapshot(n *vnNode, includeSend bool) string {
	f := n.F
	var lines []string
	hm := f.hostMap
	hm.RLock()
	for a, h := range hm.Hosts {
		lines = append(lines, fmt.Sprintf("Hosts[%s]=%d", a, h.localIndexId))
	}
	for a, l := range hm.moreHosts {
		var ids []uint32
		for _, h := range l {
			ids = append(ids, h.localIndexId)
		}
		lines = append(lines, fmt.Sprintf("more[%s]=%v", a, ids))
	}
	for i, h := range hm.Indexes {
		s := vnHostinfoLine(h)
		if includeSend && h.ConnectionState != nil {
			s += fmt.Sprintf(" sendctr=%d", h.ConnectionState.messageCounter.Load())
		}
		lines = append(lines, fmt.Sprintf("Idx[%d]=%s", i, s))
	}
	for i, h := range hm.RemoteIndexes {
		lines = append(lines, fmt.Sprintf("RIdx[%d]=%d", i, h.localIndexId))
	}
	for i, h := range hm.Relays {
		lines = append(lines, fmt.Sprintf("Relay[%d]=%d", i, h.localIndexId))
	}
	hm.RUnlock()
	hsm := f.handshakeManager
	hsm.RLock()
	for a, hh := range hsm.vpnIps {
		lines = append(lines, fmt.Sprintf("pend[%s]=%d", a, hh.hostinfo.localIndexId))
	}
	for i := range hsm.indexes {
		lines = append(lines, fmt.Sprintf("pendIdx[%d]", i))
	}
	hsm.RUnlock()
	lh := f.lightHouse
	lh.RLock()
	for a, rl := range lh.addrMap {
		rl.RLock()
		var parts []string
		for owner, c := range rl.cache {
			s := fmt.Sprintf("%s:", owner)
			if c.v4 != nil {
				s += "v4l=" + vnV4(c.v4.learned) + " v4r=["
				for _, x := range c.v4.reported {
					s += vnV4(x) + " "
				}
				s += "] "
			}
			if c.v6 != nil {
				s += "v6l=" + vnV6(c.v6.learned) + " v6r=["
				for _, x := range c.v6.reported {
					s += vnV6(x) + " "
				}
				s += "] "
			}
			if c.relay != nil {
				s += fmt.Sprintf("relay=%v", c.relay.relay)
			}
			parts = append(parts, s)
		}
		sort.Strings(parts)
		lines = append(lines, fmt.Sprintf("lh[%s]=%v", a, parts))
		rl.RUnlock()
	}
	lh.RUnlock()
	ct := f.firewall.Conntrack
	ct.Lock()
	lines = append(lines, fmt.Sprintf("conntrack=%d", len(ct.Conns)))
	ct.Unlock()
	sort.Strings(lines)
	return strings.Join(lines, "\n")
}

func vnV4(p *V4AddrPort) string {
	if p == nil {
		return "-"
	}
	return fmt.Sprintf("%d:%d", p.Addr, p.Port)
}

func vnV6(p *V6AddrPort) string {
	if p == nil {
		return "-"
	}
	return fmt.Sprintf("%x.%x:%d", p.Hi, p.Lo, p.Port)
}

// vnRunBubble runs fn inside a synctest bubble and converts a panic inside the bubble into a returned error string.
func vnRunBubble(t *testing.T, fn func(t *testing.T)) {
	synctest.Test(t, fn)
}

// ---------------------------------------------------------------------------------------------
// component-level helpers

// vnCSPair runs a genuine IX handshake between two fresh identities through real handshake.Machines and
// returns both sides' ConnectionStates (initiator first) and Results.
func vnCSPair(ca *vnCA, cipher string, v cert.Version) (*ConnectionState, *ConnectionState, *handshake.Result, *handshake.Result) {
	mk := func(name, nets string) *CertState {
		id := ca.issue([]cert.Version{v}, name, nets, "", nil)
		cs, err := newCertState(v, id.Certs[cert.Version1], id.Certs[cert.Version2], false, id.Curve, id.RawKey, cipher)
		if err != nil {
			panic(err)
		}
		return cs
	}
	pool := cert.NewCAPool()
	if err := pool.AddCA(ca.Cert); err != nil {
		panic(err)
	}
	ver := func(c cert.Certificate) (*cert.CachedCertificate, error) { return pool.VerifyCertificate(time.Now(), c) }
	ia, ib := uint32(0x1111), uint32(0x2222)
	csa, csb := mk("pair-a", "10.9.0.1/16"), mk("pair-b", "10.9.0.2/16")
	ma, err := handshake.NewMachine(v, csa.GetCredential, ver, func() (uint32, error) { return ia, nil }, true, header.HandshakeIXPSK0)
	if err != nil {
		panic(err)
	}
	mb, err := handshake.NewMachine(v, csb.GetCredential, ver, func() (uint32, error) { return ib, nil }, false, header.HandshakeIXPSK0)
	if err != nil {
		panic(err)
	}
	m1, err := ma.Initiate(nil)
	if err != nil {
		panic(err)
	}
	m2, rb, err := mb.ProcessPacket(nil, m1)
	if err != nil || rb == nil {
		panic(fmt.Sprint("responder: ", err))
	}
	_, ra, err := ma.ProcessPacket(nil, m2)
	if err != nil || ra == nil {
		panic(fmt.Sprint("initiator: ", err))
	}
	ca1, err := newConnectionStateFromResult(ra)
	if err != nil {
		panic(err)
	}
	cb1, err := newConnectionStateFromResult(rb)
	if err != nil {
		panic(err)
	}
	return ca1, cb1, ra, rb
}

// vnTriangle builds A --R(relay)-- B where A can only reach B through R. Nodes are started; nothing is sent yet.
type vnTri struct {
	NW      *vnNet
	CA      *vnCA
	A, R, B *vnNode
}

func vnNewTriangle(t testing.TB, v cert.Version, curve cert.Curve, extra m) *vnTri {
	ca := vnNewCA(v, curve)
	nw := vnNewNet(t)
	vs := []cert.Version{v}
	ida := ca.issue(vs, "a", "10.1.0.1/16", "", []string{"ga"})
	idr := ca.issue(vs, "r", "10.1.0.128/16", "", []string{"gr"})
	idb := ca.issue(vs, "b", "10.1.0.2/16", "", []string{"gb"})
	use := m{"relay": m{"use_relays": true}}
	am := m{"relay": m{"am_relay": true}}
	if extra != nil {
		use = vnMerge(use, extra)
		am = vnMerge(am, extra)
	}
	tr := &vnTri{NW: nw, CA: ca}
	tr.A = nw.AddNode(ida, []*vnCA{ca}, "192.0.2.1:4242", use)
	tr.R = nw.AddNode(idr, []*vnCA{ca}, "192.0.2.128:4242", am)
	tr.B = nw.AddNode(idb, []*vnCA{ca}, "192.0.2.2:4242", use)
	tr.A.C.InjectLightHouseAddr(idr.Addr(), tr.R.Addr)
	tr.A.C.InjectRelays(idb.Addr(), []netip.Addr{idr.Addr()})
	tr.R.C.InjectLightHouseAddr(idb.Addr(), tr.B.Addr)
	tr.A.Start()
	tr.R.Start()
	tr.B.Start()
	nw.Settle()
	return tr
}

// vnMesh: one lighthouse L plus n ordinary peers that learn about each other only through L.
type vnMesh struct {
	NW    *vnNet
	CA    *vnCA
	L     *vnNode
	Peers []*vnNode
}

func vnNewMesh(t testing.TB, v cert.Version, curve cert.Curve, n int, extra m) *vnMesh {
	ca := vnNewCA(v, curve)
	nw := vnNewNet(t)
	vs := []cert.Version{v}
	lhOver := m{"lighthouse": m{"am_lighthouse": true}}
	if extra != nil {
		lhOver = vnMerge(lhOver, extra)
	}
	ms := &vnMesh{NW: nw, CA: ca}
	idl := ca.issue(vs, "lh", "10.1.0.100/16", "", []string{"lh"})
	ms.L = nw.AddNode(idl, []*vnCA{ca}, "192.0.2.100:4242", lhOver)
	for i := 0; i < n; i++ {
		id := ca.issue(vs, fmt.Sprintf("p%d", i+1), fmt.Sprintf("10.1.0.%d/16", i+1), "", []string{"peers"})
		over := m{
			"lighthouse":      m{"hosts": []string{idl.Addr().String()}, "interval": 5},
			"static_host_map": m{idl.Addr().String(): []string{ms.L.Addr.String()}},
		}
		if extra != nil {
			over = vnMerge(over, extra)
		}
		p := nw.AddNode(id, []*vnCA{ca}, fmt.Sprintf("192.0.2.%d:4242", i+1), over)
		addr := p.Addr.Addr()
		p.C.SetLocalAddrsFn(func(*LocalAllowList) []netip.Addr { return []netip.Addr{addr} })
		ms.Peers = append(ms.Peers, p)
	}
	ms.L.Start()
	for _, p := range ms.Peers {
		p.Start()
	}
	nw.Settle()
	return ms
}
