//go:build !e2e_testing

package nebula

// C49, real-socket variant, listeners owned by a node: the lighthouse DNS responder (lighthouse.serve_dns, real udp socket
// on 127.0.0.1) and the debug sshd (tcp listener). Stop points: right after Start (PRNG yields), inside the bind window of
// the responder (its goroutine has claimed the server slot and logged "Starting DNS responder" but has not bound yet - the
// window is reached by scheduling, and also forced by a log sink that is slow at exactly that line, the logger being a
// parameter of Main), responder up and answering, during a reload that turns serve_dns on, during a reload that moves the
// port, after a reload that turned it off; sshd right after Start and while accepting.
//
// Oracle: after Stop+Wait returned, the node owns no goroutine and the service port can be bound again. No clock decides a
// violation: things that are merely slow (goroutines still winding down within the polling bound) are inconclusive; a
// stopped node that STILL answers a DNS query / still accepts a connection / still holds the port with a live goroutine
// after Stop+Wait returned and the whole polling bound elapsed is a witness.

import (
	"context"
	"crypto/ed25519"
	"crypto/rand"
	"encoding/pem"
	"fmt"
	"log/slog"
	"net"
	"runtime"
	"sync/atomic"
	"testing"
	"time"

	"github.com/miekg/dns"
	"github.com/slackhq/nebula/cert"
	"github.com/slackhq/nebula/cert_test"
	"github.com/slackhq/nebula/verifkit"
	"go.yaml.in/yaml/v3"
	"golang.org/x/crypto/ssh"
)

const c49sAttempts = 1000 // x 10 ms

// c49sLog is the node's log sink: it counts the responder's start line and can be slow at it once.
type c49sLog struct {
	lines   atomic.Int64
	hold    atomic.Bool
	atLine  chan struct{}
	release chan struct{}
}

func (h *c49sLog) Enabled(_ context.Context, lv slog.Level) bool { return lv >= slog.LevelInfo }
func (h *c49sLog) WithAttrs([]slog.Attr) slog.Handler            { return h }
func (h *c49sLog) WithGroup(string) slog.Handler                 { return h }
func (h *c49sLog) Handle(_ context.Context, rec slog.Record) error {
	if rec.Message == "Starting DNS responder" {
		h.lines.Add(1)
		if h.hold.CompareAndSwap(true, false) {
			close(h.atLine)
			<-h.release
		}
	}
	return nil
}

func c49sFreePort(network string) int {
	if network == "tcp" {
		ln, err := net.Listen("tcp", "127.0.0.1:0")
		if err != nil {
			return 0
		}
		defer ln.Close()
		return ln.Addr().(*net.TCPAddr).Port
	}
	pc, err := net.ListenPacket("udp", "127.0.0.1:0")
	if err != nil {
		return 0
	}
	defer pc.Close()
	return pc.LocalAddr().(*net.UDPAddr).Port
}

func c49sCanBind(network string, port int) bool {
	addr := fmt.Sprintf("127.0.0.1:%d", port)
	if network == "tcp" {
		ln, err := net.Listen("tcp", addr)
		if err != nil {
			return false
		}
		ln.Close()
		return true
	}
	pc, err := net.ListenPacket("udp", addr)
	if err != nil {
		return false
	}
	pc.Close()
	return true
}

// c49sAnswers: does anything answer a DNS query (any reply at all) / accept a tcp connection on the port?
func c49sAnswers(network string, port int) bool {
	addr := fmt.Sprintf("127.0.0.1:%d", port)
	if network == "tcp" {
		c, err := net.DialTimeout("tcp", addr, 200*time.Millisecond)
		if err != nil {
			return false
		}
		c.Close()
		return true
	}
	q := new(dns.Msg)
	q.SetQuestion("d.", dns.TypeA)
	cl := &dns.Client{Net: "udp", Timeout: 200 * time.Millisecond}
	in, _, err := cl.Exchange(q, addr)
	return err == nil && in != nil
}

func (n *c49rNode) reload(over m) {
	cur := m{}
	b, _ := yaml.Marshal(n.cfg.Settings)
	yaml.Unmarshal(b, &cur)
	cb, _ := yaml.Marshal(c49rMerge(cur, over))
	n.do(func() { n.cfg.ReloadConfigString(string(cb)) })
}

// dnsSlot: (slot claimed, bind completed) of the node's responder right now.
func (n *c49rNode) dnsSlot() (claimed, bound bool) {
	ds := n.c.f.dnsServer
	if ds == nil {
		return
	}
	ds.serverMu.Lock()
	srv, st := ds.server, ds.started
	ds.serverMu.Unlock()
	if srv == nil || st == nil {
		return false, false
	}
	select {
	case <-st:
		return true, true
	default:
		return true, false
	}
}

func TestVerifC49RealServices(t *testing.T) {
	r := verifkit.NewReporter(t, "C49", "services",
		"case = one life of a node owning a real listener (lighthouse DNS responder on a loopback udp port, sshd on a loopback tcp port) stopped at one of: right after Start with PRNG yields, inside the responder's bind window (reached by scheduling or forced by a log sink slow at the start line), responder answering, reload turning serve_dns on, reload moving the port, after a reload that turned it off, sshd accepting; distinct = (service, phase) classes; deciding observations after Stop+Wait returned and the polling bound elapsed: goroutines with the node's label, whether the port can be bound again, whether the stopped node still answers")
	defer r.Done()
	now := time.Now()
	cc, _, key, cpem := cert_test.NewTestCaCert(cert.Version2, cert.Curve_CURVE25519, now.Add(-2*time.Hour), now.Add(48*time.Hour), nil, nil, nil)
	ca := &c49rCA{c: cc, key: key, pem: cpem}
	seq := 0
	lport := 0 // a lighthouse must listen on a fixed underlay port: one per node life, kept across its reloads

	// run builds a node, lets phase drive it up to the stop point (it returns the ports to watch), stops it and judges.
	type env struct {
		n    *c49rNode
		lg   *c49sLog
		rng  interface{ IntN(int) int }
		held bool // the responder goroutine is parked at its start line and must be released once Stop+Wait returned
	}
	run := func(class, network string, over m, rngIdx int, phase func(e *env) (ports []int, ok bool)) {
		seq++
		if network == "udp" {
			over = c49rMerge(over, m{"listen": m{"port": lport}})
		}
		lg := &c49sLog{atLine: make(chan struct{}), release: make(chan struct{})}
		released := false
		release := func() {
			if !released {
				released = true
				close(lg.release)
			}
		}
		defer release()
		n, err := c49rBuildL(ca, fmt.Sprintf("svc#%d:%s", seq, class), "d", "10.1.0.100/16", over, slog.New(lg))
		if err != nil {
			r.Inconclusive(fmt.Sprintf("%s: Main failed: %v", class, err))
			return
		}
		e := &env{n: n, lg: lg, rng: verifkit.SubRand("C49svc", rngIdx)}
		r.Pre("class=%s node=%s", class, n.label)
		ports, ok := phase(e)
		if !ok {
			r.Count("phases_not_reached", 1)
		}
		if network == "udp" {
			if claimed, bound := n.dnsSlot(); claimed && !bound {
				// the responder goroutine holds the server slot and has not finished binding at the stop request
				r.Count("dns.stop_requests_inside_the_bind_window", 1)
			} else if bound {
				r.Count("dns.stop_requests_with_the_responder_bound", 1)
			} else {
				r.Count("dns.stop_requests_before_the_slot_was_claimed", 1)
			}
		}
		done := make(chan struct{})
		go func() {
			defer close(done)
			n.do(func() {
				n.c.Stop()
				n.c.Wait()
			})
		}()
		returned := false
		for a := 0; a < c49rAttempts && !returned; a++ {
			select {
			case <-done:
				returned = true
			case <-time.After(10 * time.Millisecond):
			}
		}
		r.Eval(1)
		r.DistinctClass(class)
		r.Count("stops", 1)
		release()
		if !returned {
			_, g := c49Alive(n.label, true)
			r.Inconclusive(fmt.Sprintf("%s: Stop+Wait did not return within the polling bound (node goroutines: %v)", class, c49Sigs(g)))
			return
		}
		alive, groups, free := 0, []c49Group(nil), false
		for a := 0; a < c49sAttempts; a++ {
			alive, groups = c49Alive(n.label, true)
			free = true
			for _, p := range ports {
				free = free && c49sCanBind(network, p)
			}
			if alive == 0 && free {
				break
			}
			time.Sleep(10 * time.Millisecond)
		}
		rec := func() map[string]any {
			return map[string]any{"class": class, "ports": ports, "node_goroutines": c49Dump(groups), "responder_start_lines_logged": lg.lines.Load()}
		}
		switch {
		case alive == 0 && free:
			r.Count("nodes_with_no_goroutine_left_and_port_free", 1)
		default:
			answered := false
			for _, p := range ports {
				answered = answered || c49sAnswers(network, p)
			}
			switch {
			case answered && network == "udp":
				r.Violation("C49/dns-responder-answers-after-stop", fmt.Sprintf("%s: Stop and Wait returned, the polling bound elapsed, and the stopped node still answers DNS queries on %v (node goroutines: %v)", class, ports, c49Sigs(groups)), rec())
			case answered:
				r.Violation("C49/listener-accepts-after-stop", fmt.Sprintf("%s: Stop and Wait returned, the polling bound elapsed, and the stopped node still accepts connections on %v (node goroutines: %v)", class, ports, c49Sigs(groups)), rec())
			case !free && alive > 0:
				r.Violation("C49/service-port-held-after-stop:"+fmt.Sprint(c49Leafs(groups)), fmt.Sprintf("%s: Stop and Wait returned, the polling bound elapsed, port %v cannot be bound and goroutines of the node are alive: %v", class, ports, c49Sigs(groups)), rec())
			default:
				r.Inconclusive(fmt.Sprintf("%s: after Stop+Wait and the polling bound: %d node goroutine(s) alive %v, ports free=%v", class, alive, c49Sigs(groups), free))
			}
		}
		if n.c.Context().Err() == nil {
			r.Violation("C49/context-alive-after-stop", class+": Control.Context() is not cancelled after Stop", rec())
		}
	}

	dnsCfg := func(on bool, port int) m {
		return m{"tun": m{"disabled": true}, "listen": m{"host": "127.0.0.1", "port": lport}, "lighthouse": m{"am_lighthouse": true, "serve_dns": on, "dns": m{"host": "127.0.0.1", "port": port}}}
	}
	waitFor := func(f func() bool) bool {
		for a := 0; a < c49rAttempts; a++ {
			if f() {
				return true
			}
			time.Sleep(10 * time.Millisecond)
		}
		return false
	}
	atLine := func(e *env) bool {
		for a := 0; a < c49rAttempts; a++ {
			select {
			case <-e.lg.atLine:
				return true
			case <-time.After(10 * time.Millisecond):
			}
		}
		return false
	}
	yields := func(e *env, max int) {
		for i, k := 0, e.rng.IntN(max); i < k; i++ {
			runtime.Gosched()
		}
	}

	type cs struct {
		class string
		run   func(idx int)
	}
	var cases []cs
	add := func(class string, f func(idx int)) { cases = append(cases, cs{class, f}) }

	add("dns/right-after-start", func(idx int) {
		p := c49sFreePort("udp")
		run("dns/right-after-start", "udp", dnsCfg(true, p), idx, func(e *env) ([]int, bool) {
			e.n.do(func() { e.n.c.Start() })
			yields(e, 3000)
			return []int{p}, true
		})
	})
	add("dns/in-bind-window(log-sink-slow-at-start-line)", func(idx int) {
		p := c49sFreePort("udp")
		run("dns/in-bind-window(log-sink-slow-at-start-line)", "udp", dnsCfg(true, p), idx, func(e *env) ([]int, bool) {
			e.lg.hold.Store(true)
			e.n.do(func() { e.n.c.Start() })
			return []int{p}, atLine(e)
		})
	})
	add("dns/answering", func(idx int) {
		p := c49sFreePort("udp")
		run("dns/answering", "udp", dnsCfg(true, p), idx, func(e *env) ([]int, bool) {
			e.n.do(func() { e.n.c.Start() })
			ok := waitFor(func() bool { return c49sAnswers("udp", p) })
			if ok {
				r.Count("dns.responder_seen_answering_before_stop", 1)
			}
			return []int{p}, ok
		})
	})
	for _, held := range []bool{false, true} {
		sfx := ""
		if held {
			sfx = "(log-sink-slow-at-start-line)"
		}
		add("dns/reload-turns-it-on"+sfx, func(idx int) {
			p := c49sFreePort("udp")
			run("dns/reload-turns-it-on"+sfx, "udp", dnsCfg(false, p), idx, func(e *env) ([]int, bool) {
				e.n.do(func() { e.n.c.Start() })
				time.Sleep(20 * time.Millisecond)
				if held {
					e.lg.hold.Store(true)
					e.n.reload(dnsCfg(true, p))
					return []int{p}, atLine(e)
				}
				go e.n.reload(dnsCfg(true, p))
				yields(e, 3000)
				return []int{p}, true
			})
		})
		add("dns/reload-moves-the-port"+sfx, func(idx int) {
			p, p2 := c49sFreePort("udp"), c49sFreePort("udp")
			run("dns/reload-moves-the-port"+sfx, "udp", dnsCfg(true, p), idx, func(e *env) ([]int, bool) {
				e.n.do(func() { e.n.c.Start() })
				ok := waitFor(func() bool { return c49sAnswers("udp", p) })
				if held {
					e.lg.hold.Store(true)
					e.n.reload(dnsCfg(true, p2))
					return []int{p, p2}, ok && atLine(e)
				}
				go e.n.reload(dnsCfg(true, p2))
				yields(e, 3000)
				return []int{p, p2}, ok
			})
		})
	}
	add("dns/after-reload-turned-it-off", func(idx int) {
		p := c49sFreePort("udp")
		run("dns/after-reload-turned-it-off", "udp", dnsCfg(true, p), idx, func(e *env) ([]int, bool) {
			e.n.do(func() { e.n.c.Start() })
			ok := waitFor(func() bool { return c49sAnswers("udp", p) })
			e.n.reload(dnsCfg(false, p))
			ok = ok && waitFor(func() bool { return c49sCanBind("udp", p) })
			return []int{p}, ok
		})
	})

	// sshd
	_, hostPriv, _ := ed25519.GenerateKey(rand.Reader)
	var hostPEM string
	if blk, err := ssh.MarshalPrivateKey(hostPriv, ""); err == nil {
		hostPEM = string(pem.EncodeToMemory(blk))
	}
	userPub, _, _ := ed25519.GenerateKey(rand.Reader)
	var userKey string
	if pk, err := ssh.NewPublicKey(userPub); err == nil {
		userKey = string(ssh.MarshalAuthorizedKey(pk))
	}
	sshCfg := func(port int) m {
		return m{"tun": m{"disabled": true}, "sshd": m{"enabled": true, "listen": fmt.Sprintf("127.0.0.1:%d", port), "host_key": hostPEM,
			"authorized_users": []m{{"user": "verif", "keys": []string{userKey}}}}}
	}
	if hostPEM != "" && userKey != "" {
		add("sshd/right-after-start", func(idx int) {
			p := c49sFreePort("tcp")
			run("sshd/right-after-start", "tcp", sshCfg(p), idx, func(e *env) ([]int, bool) {
				e.n.do(func() { e.n.c.Start() })
				yields(e, 3000)
				return []int{p}, true
			})
		})
		add("sshd/accepting", func(idx int) {
			p := c49sFreePort("tcp")
			run("sshd/accepting", "tcp", sshCfg(p), idx, func(e *env) ([]int, bool) {
				e.n.do(func() { e.n.c.Start() })
				ok := waitFor(func() bool { return c49sAnswers("tcp", p) })
				if ok {
					r.Count("sshd.listener_seen_accepting_before_stop", 1)
				}
				return []int{p}, ok
			})
		})
	} else {
		r.Count("sshd_cases_skipped_no_key", 1)
	}

	reps := verifkit.Scale(3, 40)
	idx := 0
	for rep := 0; rep < reps; rep++ {
		for _, c := range cases {
			idx++
			if !verifkit.Mine(idx) {
				continue
			}
			lport = c49sFreePort("udp")
			c.run(idx)
		}
	}
}
