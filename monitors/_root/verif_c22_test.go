package nebula

// C22 — firewall configuration parses exactly.
//
// Real path: YAML text -> config.C.LoadString -> NewFirewallFromConfig (AddFirewallRulesFromConfig / convertRule /
// parsePort / AddRule) -> Firewall.Drop.
// Reference (from the statement and examples/config.yml, working on the TEXT the author wrote):
//   - a rule list loads only if every rule is a mapping that names a known protocol (any/tcp/udp/icmp), a valid port
//     (`any`, `fragment`, decimal 0..65535, decimal range lo-hi with lo<=hi; ignored for icmp) and at least one of
//     host/group/groups/cidr/local_cidr/ca_name/ca_sha; cidr and local_cidr are `any` or a CIDR;
//   - port text outside 0-65535, non-decimal or a malformed range must be REJECTED, never reinterpreted;
//   - when it loads, the firewall admits exactly the packets the C16 reference admits for the textual rules;
//   - a panic while loading is a violation.
// Three reference outcomes per configuration: must-reject, must-load (only documented value forms used), either
// (forms the documentation does not cover: stray whitespace in ports, legacy `code`, single-element `group` list,
// group+groups together, null / list / map where a scalar is expected). "either + loaded" is still compared with the
// textual reading where one exists.

import (
	"fmt"
	"math/rand/v2"
	"net/netip"
	"regexp"
	"runtime/debug"
	"slices"
	"sort"
	"strconv"
	"strings"
	"testing"

	"github.com/slackhq/nebula/config"
	"github.com/slackhq/nebula/firewall"
	"github.com/slackhq/nebula/verifkit"
	"go.yaml.in/yaml/v3"
)

const (
	c22Scalar = iota
	c22Null
	c22List
	c22Map
)

// c22Val is a value as written in the YAML text.
type c22Val struct {
	YAML  string   `json:"yaml"`
	Kind  int      `json:"kind"`
	Text  string   `json:"text,omitempty"` // scalars: the characters of the value (quotes removed)
	Plain bool     `json:"plain,omitempty"`
	Elems []c22Val `json:"elems,omitempty"`
}

func c22S(text string) c22Val { return c22Val{YAML: text, Kind: c22Scalar, Text: text, Plain: true} }
func c22Q(text string) c22Val {
	return c22Val{YAML: strconv.Quote(text), Kind: c22Scalar, Text: text}
}
func c22N(spelling string) c22Val { return c22Val{YAML: spelling, Kind: c22Null} }
func c22L(elems ...c22Val) c22Val {
	ys := make([]string, len(elems))
	for i, e := range elems {
		ys[i] = e.YAML
	}
	return c22Val{YAML: "[" + strings.Join(ys, ", ") + "]", Kind: c22List, Elems: elems}
}
func c22M() c22Val { return c22Val{YAML: "{a: b}", Kind: c22Map} }

type c22Field struct {
	Key string `json:"key"`
	Val c22Val `json:"val"`
}

// c22RuleDoc is one item of firewall.inbound / firewall.outbound: a mapping (Fields) or something else (NotMap).
type c22RuleDoc struct {
	Fields []c22Field `json:"fields,omitempty"`
	NotMap *c22Val    `json:"not_a_mapping,omitempty"`
}

func (d c22RuleDoc) get(k string) (c22Val, bool) {
	for _, f := range d.Fields {
		if f.Key == k {
			return f.Val, true
		}
	}
	return c22Val{}, false
}

func (d c22RuleDoc) yaml(indent string) string {
	if d.NotMap != nil {
		return indent + "- " + d.NotMap.YAML + "\n"
	}
	var b strings.Builder
	for i, f := range d.Fields {
		lead := indent + "  "
		if i == 0 {
			lead = indent + "- "
		}
		b.WriteString(lead + f.Key + ": " + f.Val.YAML + "\n")
	}
	return b.String()
}

type c22Config struct {
	DefaultLocalAny *bool        `json:"default_local_cidr_any,omitempty"`
	Inbound         []c22RuleDoc `json:"inbound"`
	Outbound        []c22RuleDoc `json:"outbound"`
	InboundRaw      string       `json:"inbound_raw,omitempty"` // when set, written instead of the list (not-a-list cases)
}

func (c c22Config) yaml() string {
	var b strings.Builder
	b.WriteString("firewall:\n")
	if c.DefaultLocalAny != nil {
		fmt.Fprintf(&b, "  default_local_cidr_any: %v\n", *c.DefaultLocalAny)
	}
	wr := func(name string, rs []c22RuleDoc) {
		if len(rs) == 0 {
			return
		}
		b.WriteString("  " + name + ":\n")
		for _, r := range rs {
			b.WriteString(r.yaml("    "))
		}
	}
	if c.InboundRaw != "" {
		b.WriteString("  inbound: " + c.InboundRaw + "\n")
	} else {
		wr("inbound", c.Inbound)
	}
	wr("outbound", c.Outbound)
	b.WriteString("pki: {}\n")
	return b.String()
}

// ---------------------------------------------------------------------------------------------------
// reference validator

const (
	c22MustLoad = iota
	c22Either
	c22MustReject
)

var (
	c22Decimal   = regexp.MustCompile(`^[0-9]+$`)
	c22Canonical = regexp.MustCompile(`^(0|[1-9][0-9]*)$`)
	// spellings a YAML 1.1/1.2 resolver may turn into a non-string (number, bool, timestamp)
	c22YamlTyped = regexp.MustCompile(`^([-+]?(\.[0-9]+|[0-9][0-9_]*(\.[0-9_]*)?)([eE][-+]?[0-9]+)?|[-+]?0x[0-9a-fA-F_]+|[-+]?0o?[0-7_]+|[-+]?0b[01_]+|[-+]?\.(inf|Inf|INF)|\.(nan|NaN|NAN)|true|True|TRUE|false|False|FALSE|[0-9]{4}-[0-9]{2}-[0-9]{2})$`)
)

type c22Judgement struct {
	Status    int
	Reasons   []string // why must-reject
	Soft      []string // why either
	NoVerdict bool     // no textual reading to compare the loaded rules with
	Rules     []c16Rule
	// witness-class predicates
	PortLiteral  bool // a port/code is an unquoted YAML numeric literal that is not plain canonical decimal
	NameLiteral  bool // a name-like field is an unquoted scalar that YAML types as number/bool/timestamp with another spelling
	NullField    bool // some field is null
	GroupsNull   bool
	GroupsNonStr bool
	GroupEmpty   bool
}

func (j *c22Judgement) reject(why string) {
	j.Status = c22MustReject
	j.Reasons = append(j.Reasons, why)
}
func (j *c22Judgement) soft(why string, noVerdict bool) {
	if j.Status == c22MustLoad {
		j.Status = c22Either
	}
	j.Soft = append(j.Soft, why)
	if noVerdict {
		j.NoVerdict = true
	}
}

// c22Str reads a field where the documentation expects one string: (text, present, well-typed).
func (j *c22Judgement) str(d c22RuleDoc, key string) (string, bool, bool) {
	v, ok := d.get(key)
	if !ok {
		return "", false, true
	}
	switch v.Kind {
	case c22Null:
		j.NullField = true
		j.soft(key+" is null", false)
		return "", false, true // reads as not provided
	case c22Scalar:
		return v.Text, v.Text != "", true
	}
	return "", true, false
}

// c22RefPort parses port text. ok=false: invalid. ws: needed whitespace trimming (undocumented).
func c22RefPort(text string) (kind, lo, hi int, ok, ws bool) {
	t := text
	if strings.ContainsAny(t, " \t") {
		ws = true
		parts := strings.Split(t, "-")
		for i := range parts {
			parts[i] = strings.Trim(parts[i], " \t")
		}
		t = strings.Join(parts, "-")
	}
	switch t {
	case "any":
		return c16PortAny, 0, 0, true, ws
	case "fragment":
		return c16PortFragment, 0, 0, true, ws
	}
	dec := func(s string) (int, bool) {
		if !c22Decimal.MatchString(s) {
			return 0, false
		}
		s = strings.TrimLeft(s, "0")
		if len(s) > 5 {
			return 0, false
		}
		n := 0
		for _, c := range s {
			n = n*10 + int(c-'0')
		}
		return n, n <= 65535
	}
	if n, good := dec(t); good {
		if n == 0 {
			return c16PortAny, 0, 0, true, ws // "Takes `0` or `any` as any"
		}
		return c16PortSingle, n, n, true, ws
	}
	parts := strings.Split(t, "-")
	if len(parts) != 2 {
		return 0, 0, 0, false, ws
	}
	a, ga := dec(parts[0])
	b, gb := dec(parts[1])
	if !ga || !gb || a > b {
		return 0, 0, 0, false, ws
	}
	if a == 0 {
		return c16PortAny, 0, 0, true, ws // a range that starts at 0 contains the `any` value (reference choice, listed in the evidence)
	}
	return c16PortRange, a, b, true, ws
}

func c22ValidCIDR(text string) bool {
	if text == "any" {
		return true
	}
	i := strings.IndexByte(text, '/')
	if i < 0 {
		return false
	}
	a, err := netip.ParseAddr(text[:i])
	if err != nil || a.Zone() != "" {
		return false
	}
	bits := text[i+1:]
	if !c22Canonical.MatchString(bits) || len(bits) > 3 {
		return false
	}
	n, _ := strconv.Atoi(bits)
	return n <= a.BitLen()
}

func c22IsTypedLiteral(v c22Val) bool {
	return v.Kind == c22Scalar && v.Plain && c22YamlTyped.MatchString(v.Text) && !c22Canonical.MatchString(v.Text) && v.Text != "true" && v.Text != "false"
}

func c22JudgeRule(j *c22Judgement, d c22RuleDoc, incoming bool, where string) {
	if d.NotMap != nil {
		j.reject(where + ": rule is not a mapping")
		return
	}
	rule := c16Rule{Incoming: incoming}

	proto, _, typed := j.str(d, "proto")
	if !typed || !slices.Contains([]string{"any", "tcp", "udp", "icmp"}, proto) {
		j.reject(fmt.Sprintf("%s: proto %q is not one of any/tcp/udp/icmp", where, proto))
	}
	rule.Proto = proto

	for _, k := range []string{"port", "code"} {
		if v, ok := d.get(k); ok && v.Kind == c22Scalar && v.Plain && !c22Canonical.MatchString(v.Text) && c22YamlTyped.MatchString(v.Text) {
			j.PortLiteral = true
		}
	}
	port, hasPort, portTyped := j.str(d, "port")
	code, hasCode, codeTyped := j.str(d, "code")
	switch {
	case proto == "icmp":
		// "a port specification is ignored if proto is `icmp`"
		if hasPort && hasCode {
			j.soft(where+": port and code both given on an icmp rule", false)
		}
	case hasPort && hasCode:
		j.soft(where+": port and code both given", true)
	case !hasPort && !hasCode:
		j.reject(where + ": no port")
	default:
		text, typedOK := port, portTyped
		if hasCode {
			text, typedOK = code, codeTyped
			j.soft(where+": legacy `code` used instead of port", false)
		}
		if !typedOK {
			j.reject(where + ": port is not a scalar")
			break
		}
		kind, lo, hi, ok, ws := c22RefPort(text)
		if !ok {
			j.reject(fmt.Sprintf("%s: port text %q is not any/fragment/decimal 0-65535/decimal range", where, text))
			break
		}
		if ws {
			j.soft(where+": whitespace inside port text", false)
		}
		rule.PortKind, rule.Lo, rule.Hi = kind, lo, hi
	}

	selectors := 0
	name := func(key string) string {
		s, has, typed := j.str(d, key)
		if v, ok := d.get(key); ok && c22IsTypedLiteral(v) {
			j.NameLiteral = true
		}
		if !typed {
			j.soft(where+": "+key+" is not a scalar", true)
			selectors++
			return ""
		}
		if has {
			selectors++
		}
		return s
	}
	rule.Host = name("host")
	rule.CAName = name("ca_name")
	rule.CASha = name("ca_sha")
	rule.Cidr = name("cidr")
	rule.LocalCidr = name("local_cidr")
	for _, k := range []string{"cidr", "local_cidr"} {
		if v, ok := d.get(k); ok && v.Kind == c22Scalar && v.Text != "" && !c22ValidCIDR(v.Text) {
			j.reject(fmt.Sprintf("%s: %s %q is neither `any` nor a CIDR", where, k, v.Text))
		}
	}

	var single, multi []string
	hasGroup, hasGroups := false, false
	if v, ok := d.get("group"); ok {
		switch v.Kind {
		case c22Null:
			j.NullField = true
			j.soft(where+": group is null", false)
		case c22Scalar:
			if c22IsTypedLiteral(v) {
				j.NameLiteral = true
			}
			if v.Text != "" {
				single, hasGroup = []string{v.Text}, true
			}
		case c22List:
			hasGroup = true
			if len(v.Elems) == 0 {
				j.GroupEmpty = true
			}
			if len(v.Elems) == 1 && v.Elems[0].Kind == c22Scalar {
				j.soft(where+": group given as a one-element list", false)
				single = []string{v.Elems[0].Text}
				if c22IsTypedLiteral(v.Elems[0]) {
					j.NameLiteral = true
				}
			} else {
				j.soft(where+": group given as a list", true)
			}
		default:
			hasGroup = true
			j.soft(where+": group is a mapping", true)
		}
	}
	if v, ok := d.get("groups"); ok {
		switch v.Kind {
		case c22Null:
			j.NullField, j.GroupsNull = true, true
			j.soft(where+": groups is null", false)
		case c22Scalar:
			if c22IsTypedLiteral(v) {
				j.NameLiteral = true
			}
			if v.Text != "" {
				multi, hasGroups = []string{v.Text}, true
			}
		case c22List:
			for _, e := range v.Elems {
				if e.Kind != c22Scalar {
					j.GroupsNonStr = true
					j.soft(where+": groups has a non-scalar element", true)
					continue
				}
				if e.Plain && c22YamlTyped.MatchString(e.Text) {
					j.GroupsNonStr = true // YAML will type this element as a number/bool, not a string
					if c22IsTypedLiteral(e) {
						j.NameLiteral = true
					}
				}
				multi = append(multi, e.Text)
			}
			hasGroups = len(v.Elems) > 0
		default:
			hasGroups = true
			j.soft(where+": groups is a mapping", true)
		}
	}
	if hasGroup && hasGroups {
		j.soft(where+": group and groups both given", true)
	}
	if hasGroup || hasGroups {
		selectors++
	}
	rule.Groups = append(single, multi...)
	if selectors == 0 {
		j.reject(where + ": none of host, group, groups, cidr, local_cidr, ca_name, ca_sha given")
	}
	j.Rules = append(j.Rules, rule)
}

func c22Judge(c c22Config) *c22Judgement {
	j := &c22Judgement{}
	if c.InboundRaw != "" {
		j.reject("firewall.inbound is not a list")
	}
	for i, d := range c.Inbound {
		c22JudgeRule(j, d, true, fmt.Sprintf("inbound #%d", i))
	}
	for i, d := range c.Outbound {
		c22JudgeRule(j, d, false, fmt.Sprintf("outbound #%d", i))
	}
	return j
}

// ---------------------------------------------------------------------------------------------------
// value tables: first `good` entries of every table are documented forms

type c22Table struct {
	key  string
	good []c22Val
	odd  []c22Val
}

func c22Tables(w *c16World) map[string]*c22Table {
	sha := func(i int) string { return w.CAs[i].Sha }
	t := map[string]*c22Table{}
	add := func(key string, good, odd []c22Val) { t[key] = &c22Table{key, good, odd} }
	add("port",
		[]c22Val{c22S("80"), c22Q("80"), c22S("443"), c22S("any"), c22Q("any"), c22S("0"), c22S("fragment"), c22S("80-81"), c22Q("80-81"), c22S("400-443"), c22S("65535"), c22S("65000-65535"), c22S("80-80"), c22S("1"), c22S("0-100"), c22Q("0080"), c22S("10-120"),
			// boundary ranges: the whole port space, one short of it at either end, degenerate ranges
			c22S("0-65535"), c22S("0-0"), c22S("65535-65535"), c22S("1-1"), c22Q("65535-65535"), c22S("65534-65535"), c22S("1-2")},
		[]c22Val{c22Q("0 - 65535"), c22Q("0 - 0"), c22Q("65535 - 65535"), c22Q(" 1 - 1 "), c22Q("80 - 81"), c22Q(" 80"), c22Q("80 "), c22Q(" 80-81 "), c22Q(" any"),
			c22S("65536"), c22Q("65536"), c22S("-1"), c22Q("-1"), c22S("81-80"), c22Q("80-"), c22Q("-80"), c22S("80-81-82"), c22Q("80,81"), c22S("ANY"), c22S("Any"), c22S("Fragment"), c22Q(""), c22S("http"),
			c22Q("0x50"), c22Q("1e2"), c22Q("８０"), c22S("80-65536"), c22S("65536-65537"), c22Q("+80"), c22S("4294967376"), c22S("99999999999999999999"), c22S("80.5"), c22S("80-0x51"), c22S("0-65536"), c22Q("1--2"), c22Q("80 81"),
			c22S("0x50"), c22S("0o120"), c22S("0120"), c22S("0b1010000"), c22S("8_0"), c22S("+80"), c22S("80.0"), c22S("8e1"), c22S("1e2"), c22S("4.43e2"), c22S(".8e2"), c22S("80."), c22S("010"), c22S("0x1BB"),
			c22S("true"), c22L(c22S("80")), c22L(c22S("80"), c22S("81")), c22M(), c22N("~"), c22N("null"), c22N("")})
	add("port-wide", []c22Val{c22S("1-65535"), c22Q("1-65535"), c22S("1-65534"), c22S("2-65535")},
		[]c22Val{c22Q("1 - 65535"), c22Q(" 1 - 65535 "), c22Q("1 -65535"), c22Q("1 - 65534"), c22Q("2 - 65535")})
	add("code", []c22Val{c22S("80"), c22S("any")}, []c22Val{c22S("0x50"), c22S("65536"), c22N("~"), c22L(c22S("80"))})
	add("proto",
		[]c22Val{c22S("tcp"), c22S("tcp"), c22S("udp"), c22S("icmp"), c22S("any"), c22Q("tcp")},
		[]c22Val{c22S("TCP"), c22S("Tcp"), c22S("6"), c22N("~"), c22L(c22S("tcp")), c22S("icmpv6"), c22Q("tcp "), c22S("true"), c22M(), c22Q(""), c22S("ip"), c22N("")})
	add("host",
		[]c22Val{c22S("host-a"), c22S("any"), c22Q("host-a"), c22S("host-b"), c22S("nope"), c22S("123"), c22Q("010")},
		[]c22Val{c22S("010"), c22S("1e3"), c22S("1.0"), c22S("True"), c22S("0x10"), c22S("2024-01-01"), c22S("1_000"), c22S("+5"), c22N("~"), c22N(""), c22N("null"), c22L(c22S("host-a")), c22M(), c22Q(""), c22S("true")})
	add("group",
		[]c22Val{c22S("g1"), c22S("g2"), c22S("any"), c22Q("g1"), c22S("nope"), c22Q("1.0")},
		[]c22Val{c22S("010"), c22S("1.0"), c22S("True"), c22S("2024-01-01"), c22L(c22S("g1")), c22L(c22S("g1"), c22S("g2")), c22L(), c22N("~"), c22N(""), c22M(), c22L(c22S("010"))})
	add("groups",
		[]c22Val{c22L(c22S("g1")), c22L(c22S("g1"), c22S("g2")), c22L(c22S("any")), c22S("g1"), c22L(c22Q("g2")), c22L(c22S("nope")), c22L(c22Q("010"))},
		[]c22Val{c22L(), c22N("~"), c22N(""), c22L(c22S("1"), c22S("2")), c22L(c22S("g1"), c22S("2")), c22L(c22S("g1"), c22N("~")), c22L(c22L(c22S("g1"))), c22M(), c22L(c22S("010")), c22L(c22S("True")), c22L(c22S("1.5")), c22S("010")})
	add("cidr",
		[]c22Val{c22S("10.0.1.0/24"), c22Q("10.0.1.0/24"), c22S("0.0.0.0/0"), c22Q("::/0"), c22S("any"), c22S("10.0.1.9/24"), c22S("10.0.1.7/32"), c22Q("fd00::/64"), c22S("10.0.0.0/16")},
		[]c22Val{c22S("10.0.1.0"), c22S("10.0.1.0/33"), c22S("example"), c22S("ANY"), c22S("10"), c22N("~"), c22L(c22S("10.0.1.0/24")), c22S("10.0.1/24"), c22Q("10.0.1.0/24 "), c22S("1.0"), c22Q("10.0.1.0/-1"), c22Q("fd00::/129"), c22N(""), c22M()})
	add("local_cidr",
		[]c22Val{c22S("any"), c22S("10.0.0.1/32"), c22S("10.0.0.0/16"), c22S("192.168.0.0/24"), c22S("192.168.0.64/26"), c22S("0.0.0.0/0")},
		[]c22Val{c22S("192.168.0.0"), c22N("~"), c22S("nope"), c22S("192.168.0.0/240"), c22L(c22S("any")), c22N("")})
	add("ca_name", []c22Val{c22S("ca-a"), c22S("ca-b"), c22S("ca-nope")}, []c22Val{c22N("~"), c22S("010"), c22L(c22S("ca-a"))})
	add("ca_sha", []c22Val{c22S(sha(0)), c22S(sha(1)), c22Q(sha(2)), c22S("00" + sha(0)[2:])}, []c22Val{c22N("~"), c22M()})
	return t
}

var c22FieldOrder = []string{"port", "code", "proto", "host", "group", "groups", "cidr", "local_cidr", "ca_name", "ca_sha"}

// c22GenRule: mostly well-formed rules; `odd` in 0..2 fields drawn from the whole table.
func c22GenRule(rng *rand.Rand, tabs map[string]*c22Table) c22RuleDoc {
	if rng.IntN(60) == 0 {
		v := c16Pick(rng, []c22Val{c22S("80"), c22L(c22S("a"), c22S("b")), c22N("~"), c22Q("port: 80")})
		return c22RuleDoc{NotMap: &v}
	}
	present := map[string]bool{"port": rng.IntN(12) > 0, "proto": rng.IntN(25) > 0, "code": rng.IntN(25) == 0}
	for _, k := range []string{"host", "group", "groups", "cidr", "local_cidr", "ca_name", "ca_sha"} {
		present[k] = rng.IntN(4) == 0
	}
	if rng.IntN(12) > 0 && !present["host"] && !present["group"] && !present["groups"] && !present["cidr"] {
		present[c16Pick(rng, []string{"host", "host", "group", "groups", "cidr"})] = true
	}
	if present["group"] && present["groups"] && rng.IntN(6) > 0 {
		present["groups"] = false
	}
	oddBudget := 0
	switch rng.IntN(10) {
	case 0, 1, 2:
		oddBudget = 1
	case 3:
		oddBudget = 2
	}
	var keys []string
	for _, k := range c22FieldOrder {
		if present[k] {
			keys = append(keys, k)
		}
	}
	oddKeys := map[string]bool{}
	for ; oddBudget > 0 && len(keys) > 0; oddBudget-- {
		oddKeys[c16Pick(rng, keys)] = true
	}
	var d c22RuleDoc
	for _, k := range keys {
		tb := tabs[k]
		v := c16Pick(rng, tb.good)
		if oddKeys[k] {
			v = c16Pick(rng, tb.odd)
		}
		if k == "port" && rng.IntN(120) == 0 {
			// the whole port space and its neighbours (rare: the real table gets one nested table per port)
			wide := tabs["port-wide"]
			v = c16Pick(rng, append(slices.Clone(wide.good), wide.odd...))
		}
		d.Fields = append(d.Fields, c22Field{k, v})
	}
	if rng.IntN(20) == 0 {
		d.Fields = append(d.Fields, c22Field{c16Pick(rng, []string{"ports", "prot", "hosts", "Port", "comment"}), c22S("80")})
	}
	rng.Shuffle(len(d.Fields), func(i, j int) { d.Fields[i], d.Fields[j] = d.Fields[j], d.Fields[i] })
	if len(d.Fields) == 0 {
		d.Fields = []c22Field{{"proto", c22S("tcp")}}
	}
	return d
}

// ---------------------------------------------------------------------------------------------------
// harness

type c22Harness struct {
	r      *verifkit.Reporter
	w      *c16World
	nodes  [2]*c16Node // [flag off, flag on], same certificate shape
	peers  []*c16Peer
	his    [2][]*HostInfo
	probes []c22Probe

	lastDisagreement string
	verbatim         bool // keep "label -> key" of every disagreement in the evidence (fields unit)
}

type c22Probe struct {
	p        firewall.Packet
	incoming bool
}

func newC22Harness(r *verifkit.Reporter) *c22Harness {
	w := c16NewWorld()
	h := &c22Harness{r: r, w: w}
	nn := w.nodes()
	h.nodes = [2]*c16Node{nn[1], nn[2]}
	// peers named / grouped after every name-like text of the tables AND after what a YAML resolver could turn them into
	names := []string{"host-a", "host-b", "123", "010", "8", "1e3", "1000", "1.0", "1", "True", "true", "0x10", "16", "2024-01-01", "<nil>", "1_000", "+5", "5", "[host-a]"}
	groupSets := [][]string{{"g1"}, {"g1", "g2"}, {"g2"}, nil, {"010"}, {"8"}, {"1.0"}, {"1"}, {"True"}, {"true"}, {"<nil>"}, {"2024-01-01"}, {"g1", "2"}, {"1", "2"}, {"1.5"}, {"[g1]"}, {"g1", "<nil>"}, {"2024-01-01 00:00:00 +0000 UTC"}}
	for i, n := range names {
		addr := netip.PrefixFrom(netip.AddrFrom4([4]byte{10, 0, 1, byte(5 + i)}), 16)
		p := w.newPeer(n, groupSets[i%len(groupSets)], []netip.Prefix{addr}, nil, i%3)
		if p == nil {
			panic("c22 peer refused: " + n)
		}
		h.peers = append(h.peers, p)
	}
	for i, gs := range groupSets {
		addr := netip.PrefixFrom(netip.AddrFrom4([4]byte{10, 0, 2, byte(5 + i)}), 16)
		p := w.newPeer("host-c", gs, []netip.Prefix{addr}, nil, (i+1)%3)
		if p == nil {
			panic(fmt.Sprintf("c22 group peer refused: %v", gs))
		}
		h.peers = append(h.peers, p)
	}
	for k := range h.nodes {
		for _, p := range h.peers {
			h.his[k] = append(h.his[k], p.hostInfo(h.nodes[k]))
		}
	}
	locals := []netip.Addr{c16A("10.0.0.1"), c16A("192.168.0.9"), c16A("192.168.0.70")}
	// destination ports: both ends of the port space (0, 1, 2, 65534, 65535) for every protocol that has ports, non-first
	// fragments (Fragment=true, ports 0) for every protocol, so that a range silently widened to `any` or narrowed by one
	// shows up as a verdict mismatch
	tcpPorts := []uint16{0, 1, 2, 8, 10, 16, 64, 79, 80, 81, 82, 100, 120, 399, 400, 443, 444, 1000, 65000, 65534, 65535}
	udpPorts := []uint16{0, 1, 2, 80, 81, 65534, 65535}
	edge := []uint16{0, 1, 80, 443, 65534, 65535}
	for _, in := range []bool{true, false} {
		for li, la := range locals {
			mk := func(proto uint8, dst uint16, frag bool) {
				p := firewall.Packet{LocalAddr: la, Protocol: proto, Fragment: frag}
				if proto == 6 || proto == 17 {
					if !frag {
						if in {
							p.LocalPort, p.RemotePort = dst, 40000
						} else {
							p.LocalPort, p.RemotePort = 40000, dst
						}
					}
				} else if c16IsICMP(proto) && !frag {
					p.RemotePort = 80
				}
				h.probes = append(h.probes, c22Probe{p, in})
			}
			tp, up := tcpPorts, udpPorts
			if li > 0 {
				tp, up = edge, edge
			}
			for _, d := range tp {
				mk(6, d, false)
			}
			for _, d := range up {
				mk(17, d, false)
			}
			for _, proto := range []uint8{6, 17, 1, 58, 47} {
				mk(proto, 0, true)
			}
			mk(1, 0, false)
			mk(58, 0, false)
			mk(47, 0, false)
		}
	}
	r.Info("probe_set", fmt.Sprintf("%d peers x %d packets per loaded configuration", len(h.peers), len(h.probes)))
	r.Info("reference_choices", []string{
		"port text is judged as written: only `any`, `fragment`, ASCII decimal 0..65535 (leading zeros allowed) and decimal lo-hi with lo<=hi are valid; everything else (hex, octal, exponent, sign, underscore, fraction, upper case) must be rejected",
		"`0`, and a range that starts at 0 (e.g. `0-100`), read as `any` (documentation: \"Takes `0` or `any` as any\"); the range form is an open cell fixed to this reading",
		"whitespace inside port text, the legacy `code` key, a one-element list for `group`, group+groups together and null/list/map values where a scalar is expected are not covered by the documentation: loading may succeed or fail (status `either`); null reads as `not provided`",
		"a rule with `proto: icmp` ignores its port text entirely",
		"C16 open cells (ICMP vs proto any+port; non-first fragments) as in C16",
	})
	return h
}

// c22Resolved is what the repository's YAML library makes of an unquoted scalar, printed the way convertRule prints
// values. It is used ONLY to name the witness class of a disagreement (never to decide whether there is one).
func c22Resolved(text string) string {
	var v any
	if err := yaml.Unmarshal([]byte(text), &v); err != nil {
		return text
	}
	return fmt.Sprintf("%v", v)
}

const (
	c22XPorts = 1 << iota // unquoted port/code scalars read as YAML types them
	c22XNames             // unquoted name-like scalars (host, group(s), ca_*, cidr) read as YAML types them
	c22XNull              // null read as the literal string "<nil>"
)

var c22XKeys = map[int]string{
	c22XPorts: "C22/port-yaml-numeric-literal-reinterpreted",
	c22XNames: "C22/unquoted-yaml-typed-scalar-name-reinterpreted",
	c22XNull:  "C22/null-field-becomes-literal-nil-string",
}

func c22XNames3(x int) string {
	var out []string
	for _, bit := range []int{c22XPorts, c22XNames, c22XNull} {
		if x&bit != 0 {
			out = append(out, c22XKeys[bit])
		}
	}
	return strings.Join(out, ", ")
}

// c22Explain rewrites the configuration the way an explanation says the loader misreads it.
func c22Explain(c c22Config, x int) c22Config {
	var val func(key string, v c22Val, top bool) c22Val
	val = func(key string, v c22Val, top bool) c22Val {
		switch v.Kind {
		case c22Scalar:
			isPort := key == "port" || key == "code"
			if v.Plain && ((isPort && x&c22XPorts != 0) || (!isPort && x&c22XNames != 0)) {
				if t := c22Resolved(v.Text); t != v.Text {
					return c22Q(t)
				}
			}
		case c22Null:
			if x&c22XNull != 0 && top {
				return c22Q("<nil>")
			}
		case c22List:
			out := make([]c22Val, len(v.Elems))
			for i, e := range v.Elems {
				out[i] = val(key, e, false)
			}
			return c22L(out...)
		}
		return v
	}
	conv := func(in []c22RuleDoc) []c22RuleDoc {
		out := make([]c22RuleDoc, len(in))
		for i, d := range in {
			out[i] = c22RuleDoc{NotMap: d.NotMap}
			for _, f := range d.Fields {
				out[i].Fields = append(out[i].Fields, c22Field{f.Key, val(f.Key, f.Val, true)})
			}
		}
		return out
	}
	return c22Config{DefaultLocalAny: c.DefaultLocalAny, Inbound: conv(c.Inbound), Outbound: conv(c.Outbound), InboundRaw: c.InboundRaw}
}

type c22Outcome struct {
	loaded bool
	err    error
	fw     *Firewall
	node   *c16Node
	k      int
}

// consistent compares what really happened with a judgement. Returns "" when they agree.
func (h *c22Harness) consistent(j *c22Judgement, o *c22Outcome, count bool) (string, map[string]any) {
	switch {
	case j.Status == c22MustReject && o.loaded:
		return fmt.Sprintf("configuration loaded although the text must be rejected: %v", j.Reasons), nil
	case j.Status == c22MustLoad && !o.loaded:
		return fmt.Sprintf("well-formed configuration was refused: %v", o.err), nil
	case !o.loaded || j.NoVerdict:
		return "", nil
	}
	nprobe, nallow := 0, 0
	for pi, peer := range h.peers {
		hi := h.his[o.k][pi]
		for _, pr := range h.probes {
			p := pr.p
			p.RemoteAddr = peer.Addrs[0].Addr()
			v := c16Ref(o.node, peer, j.Rules, p, pr.incoming)
			derr := o.fw.Drop(p, pr.incoming, hi, h.w.pool, nil)
			got := derr == nil
			nprobe++
			if got {
				nallow++
				c16FreshConntrack(o.fw)
			}
			if got != v.Allow {
				return fmt.Sprintf("loaded firewall returns %v but the textual rules %v say allow=%v for a %s probe %v from peer name=%q groups=%v", derr, j.Rules, v.Allow, c16PktClass(p), c16PktMap(p, pr.incoming), peer.Name, peer.Groups),
					map[string]any{"probe": c16PktMap(p, pr.incoming), "peer": peer.describe(), "reference_allow": v.Allow, "drop_returned": fmt.Sprint(derr)}
			}
		}
	}
	if count {
		h.r.Count("probe_verdicts_compared", nprobe)
		h.r.Count("probe_verdicts_allow", nallow)
		if nallow > 0 && nallow < nprobe {
			h.r.Count("loaded_configs_with_mixed_verdicts", 1)
		}
	}
	return "", nil
}

var c22StatusNames = []string{"must-load", "either", "must-reject"}

// run loads one configuration through the real code and judges it.
func (h *c22Harness) run(c c22Config, label string) {
	r := h.r
	text := c.yaml()
	j := c22Judge(c)
	rec := func() map[string]any {
		return map[string]any{"label": label, "yaml": text, "config": c, "reference_status": c22StatusNames[j.Status],
			"reject_reasons": j.Reasons, "undocumented_forms": j.Soft, "textual_rules": fmt.Sprint(j.Rules)}
	}
	r.Pre("%s\n%s", label, text)
	cfg := config.NewC(h.w.l)
	if err := cfg.LoadString(text); err != nil {
		r.Count("yaml_syntax_error", 1)
		r.Info("last_yaml_syntax_error", map[string]any{"yaml": text, "err": err.Error()})
		return
	}
	o := &c22Outcome{}
	if c.DefaultLocalAny != nil && *c.DefaultLocalAny {
		o.k = 1
	}
	o.node = h.nodes[o.k]
	r.Eval(1)
	sigParts := []string{fmt.Sprint(j.Status)}
	for _, d := range append(slices.Clone(c.Inbound), c.Outbound...) {
		if d.NotMap != nil {
			sigParts = append(sigParts, "notmap:"+d.NotMap.YAML)
			continue
		}
		fs := make([]string, 0, len(d.Fields))
		for _, f := range d.Fields {
			fs = append(fs, f.Key+"="+f.Val.YAML)
		}
		sort.Strings(fs)
		sigParts = append(sigParts, strings.Join(fs, ";"))
	}
	r.Distinct(strings.Join(sigParts, "|"))

	// a panic while loading is a violation (own recover: the witness class is named from the panic and the input)
	var panicked any
	var stack string
	func() {
		defer func() {
			if e := recover(); e != nil {
				panicked, stack = e, string(debug.Stack())
			}
		}()
		o.fw, o.err = NewFirewallFromConfig(h.w.l, &CertState{v2Cert: o.node.crt}, cfg)
	}()
	if panicked != nil {
		msg := fmt.Sprint(panicked)
		key := "C22/load-panics"
		switch {
		case j.GroupEmpty && strings.Contains(msg, "index out of range [0] with length 0"):
			key = "C22/load-panics-group-empty-list"
		case j.GroupsNonStr && strings.Contains(msg, "interface conversion"):
			key = "C22/load-panics-groups-nonstring-element"
		case j.GroupsNull && strings.Contains(msg, "nil pointer"):
			key = "C22/load-panics-groups-null"
		}
		m := rec()
		m["panicked_with"] = msg
		m["stack"] = stack
		h.violation(key, "NewFirewallFromConfig panicked with: "+msg, m, label)
		r.Count("load_panics", 1)
		r.DistinctClass(fmt.Sprintf("status=%s result=panicked", c22StatusNames[j.Status]))
		return
	}
	o.loaded = o.err == nil
	r.DistinctClass(fmt.Sprintf("status=%s loaded=%v port_literal=%v name_literal=%v null=%v", c22StatusNames[j.Status], o.loaded, j.PortLiteral, j.NameLiteral, j.NullField))

	what, extra := h.consistent(j, o, true)
	if what == "" {
		switch {
		case j.Status == c22MustReject:
			r.Count("rejected_as_required", 1)
		case j.Status == c22MustLoad:
			r.Count("loaded_as_required", 1)
		case o.loaded && j.NoVerdict:
			r.Count("either_loaded_without_textual_reading", 1)
		case o.loaded:
			r.Count("either_loaded_and_matches_text", 1)
		default:
			r.Count("either_rejected", 1)
		}
		return
	}
	// disagreement: name the witness class by the smallest set of known misreadings that explains the real behaviour
	r.Count("disagreements", 1)
	h.lastDisagreement = label
	m := rec()
	for k, v := range extra {
		m[k] = v
	}
	// the YAML-typing explanations first, alone and together: a reading that involves the null misreading can land in a
	// cell without a verdict (e.g. port and code both given) and would then "explain" anything
	for _, x := range []int{c22XPorts, c22XNames, c22XPorts | c22XNames, c22XNull, c22XPorts | c22XNull, c22XNames | c22XNull, c22XPorts | c22XNames | c22XNull} {
		ec := c22Explain(c, x)
		if w2, _ := h.consistent(c22Judge(ec), o, false); w2 == "" {
			m["explained_by_reading_the_text_as"] = ec.yaml()
			for _, bit := range []int{c22XPorts, c22XNames, c22XNull} {
				if x&bit == 0 {
					continue
				}
				w := what
				if other := x &^ bit; other != 0 {
					// several misreadings in one configuration: describe what remains once the others are granted
					if w3, ex3 := h.consistent(c22Judge(c22Explain(c, other)), o, false); w3 != "" {
						w = w3 + " (the same configuration also shows: " + c22XNames3(other) + ")"
						for k, v := range ex3 {
							m[k] = v
						}
					}
				}
				h.violation(c22XKeys[bit], w, m, label)
			}
			return
		}
	}
	key := "C22/loaded-rules-differ-from-text"
	switch {
	case j.Status == c22MustReject && o.loaded:
		key = "C22/invalid-config-loaded"
	case j.Status == c22MustLoad && !o.loaded:
		key = "C22/valid-config-rejected"
	}
	h.violation(key, what, m, label)
}

func (h *c22Harness) violation(key, what string, m map[string]any, label string) {
	h.r.Violation(key, what, m)
	if h.verbatim {
		h.r.DistinctClass("DISAGREES " + label + " -> " + key)
	}
}

func c22Base() []c22Field {
	return []c22Field{{"port", c22S("80")}, {"proto", c22S("tcp")}, {"host", c22S("host-a")}}
}

// TestVerifC22Fields puts every value of every table, alone, into an otherwise well-formed rule.
func TestVerifC22Fields(t *testing.T) {
	r := verifkit.NewReporter(t, "C22", "fields",
		"EXHAUSTIVE over the value tables: every (field, value) pair of the tables (string/int/float/bool/list/map/null spellings, the whole port grammar table, group vs groups, code, cidr strings) substituted or added alone in the base rule {port: 80, proto: tcp, host: host-a} (and in a base without host so the value is the only selector), inbound and outbound, default_local_cidr_any on/off; plus not-a-mapping rules and not-a-list tables; distinct = distinct (field=value set, reference status)")
	defer r.Done()
	h := newC22Harness(r)
	h.verbatim = true
	tabs := c22Tables(h.w)
	n := 0
	yes := true
	for _, key := range c22FieldOrder {
		tb := tabs[key]
		vals := append(slices.Clone(tb.good), tb.odd...)
		if key == "port" {
			vals = append(vals, tabs["port-wide"].good...)
			vals = append(vals, tabs["port-wide"].odd...)
		}
		for _, v := range vals {
			for variant := 0; variant < 3; variant++ {
				var fs []c22Field
				for _, f := range c22Base() {
					if f.Key == key || (variant >= 1 && f.Key == "host") || (key == "code" && f.Key == "port") {
						continue
					}
					fs = append(fs, f)
				}
				fs = append(fs, c22Field{key, v})
				c := c22Config{}
				if variant == 2 {
					c.Outbound = []c22RuleDoc{{Fields: fs}}
					c.DefaultLocalAny = &yes
				} else {
					c.Inbound = []c22RuleDoc{{Fields: fs}}
				}
				n++
				if verifkit.Mine(n) {
					h.run(c, fmt.Sprintf("fields %s=%s variant=%d", key, v.YAML, variant))
				}
			}
		}
	}
	// icmp ignores any port text
	for _, v := range append(slices.Clone(tabs["port"].good), tabs["port"].odd...) {
		n++
		if verifkit.Mine(n) {
			h.run(c22Config{Inbound: []c22RuleDoc{{Fields: []c22Field{{"port", v}, {"proto", c22S("icmp")}, {"host", c22S("any")}}}}}, "icmp port="+v.YAML)
		}
	}
	for _, raw := range []string{"{port: 80, proto: tcp, host: any}", "5", "tcp", "true"} {
		n++
		if verifkit.Mine(n) {
			h.run(c22Config{InboundRaw: raw}, "inbound not a list: "+raw)
		}
	}
	for _, v := range []c22Val{c22S("80"), c22L(c22S("a")), c22N("~"), c22Q("port: 80")} {
		vv := v
		n++
		if verifkit.Mine(n) {
			h.run(c22Config{Inbound: []c22RuleDoc{{Fields: c22Base()}, {NotMap: &vv}}}, "rule not a mapping: "+v.YAML)
		}
	}
	if verifkit.Mine(0) {
		h.run(c22Config{}, "no rules at all")
	}
	r.Exhaustive(fmt.Sprintf("all %d single-value substitutions of the field tables", n))
	if r.Counter("yaml_syntax_error") > 0 {
		r.Inconclusive("some table values are not valid YAML in their position (see info.last_yaml_syntax_error)")
	}
	r.Sample(map[string]any{"base_rule": "port: 80, proto: tcp, host: host-a", "substitutions": n})
}

// TestVerifC22Configs generates whole configurations.
func TestVerifC22Configs(t *testing.T) {
	r := verifkit.NewReporter(t, "C22", "configs",
		"PRNG configurations: 0..3 inbound and 0..2 outbound rules, every rule a mapping with a random subset of {port,code,proto,host,group,groups,cidr,local_cidr,ca_name,ca_sha} in random order, values drawn from the documented forms and (0..2 fields per rule) from the odd forms of the tables (every YAML type, port grammar, cidr strings), unknown keys, non-mapping items, default_local_cidr_any on/off/absent; loaded firewalls are probed with 37 peers x 152 packets (both ends of the port space for tcp/udp, port 0, non-first fragments of every protocol, icmp, icmpv6, gre) and compared with the C16 reference applied to the textual rules; distinct = distinct (reference status, set of field=value per rule)")
	defer r.Done()
	h := newC22Harness(r)
	tabs := c22Tables(h.w)
	cases := verifkit.Scale(30_000, 3_000_000)
	for cs := 0; cs < cases; cs++ {
		if !verifkit.Mine(cs) {
			continue
		}
		rng := verifkit.SubRand("C22configs", cs)
		var c c22Config
		switch rng.IntN(3) {
		case 0:
			b := rng.IntN(2) == 0
			c.DefaultLocalAny = &b
		}
		for n := rng.IntN(4); n > 0; n-- {
			c.Inbound = append(c.Inbound, c22GenRule(rng, tabs))
		}
		for n := rng.IntN(3); n > 0; n-- {
			c.Outbound = append(c.Outbound, c22GenRule(rng, tabs))
		}
		if rng.IntN(5) == 0 {
			// related rules: a rule with several selectors and a narrow local_cidr, followed by a rule that repeats ONE of its
			// selectors (same proto / port / ca) with a different local_cidr. Each rule must keep meaning what its own text says.
			tbl := &c.Inbound
			if rng.IntN(3) == 0 {
				tbl = &c.Outbound
			}
			port, proto := c16Pick(rng, []string{"80", "any", "80-81", "443"}), c16Pick(rng, []string{"tcp", "udp", "any"})
			lc := []string{"10.0.0.1/32", "192.168.0.0/24", "192.168.0.64/26", "10.0.0.0/16", "any"}
			sel := map[string]c22Val{"host": c22S(c16Pick(rng, []string{"host-a", "host-b"})), "group": c22S(c16Pick(rng, []string{"g1", "g2"})), "cidr": c22S(c16Pick(rng, []string{"10.0.1.0/24", "10.0.1.7/32", "10.0.0.0/16"}))}
			keys := []string{"host", "group", "cidr"}
			rng.Shuffle(len(keys), func(i, j int) { keys[i], keys[j] = keys[j], keys[i] })
			nsel := 2 + rng.IntN(2)
			first := c22RuleDoc{Fields: []c22Field{{"port", c22S(port)}, {"proto", c22S(proto)}, {"local_cidr", c22S(lc[rng.IntN(3)])}}}
			for _, k := range keys[:nsel] {
				first.Fields = append(first.Fields, c22Field{k, sel[k]})
			}
			rk := keys[rng.IntN(nsel)]
			if rk == "group" && rng.IntN(2) == 0 {
				rk = keys[(slices.Index(keys, "group")+1)%nsel]
			}
			second := c22RuleDoc{Fields: []c22Field{{"port", c22S(port)}, {"proto", c22S(proto)}, {rk, sel[rk]}, {"local_cidr", c22S(lc[rng.IntN(len(lc))])}}}
			if rng.IntN(4) == 0 {
				first, second = second, first
			}
			*tbl = append(*tbl, first, second)
			r.Count("configs_with_related_rule_pairs", 1)
		}
		if rng.IntN(100) == 0 {
			c.InboundRaw = c16Pick(rng, []string{"{port: 80, proto: tcp, host: any}", "5", "any"})
		}
		h.run(c, fmt.Sprintf("configs case %d", cs))
		if cs < 3 {
			r.Sample(map[string]any{"yaml": c.yaml(), "reference_status": c22Judge(c).Status})
		}
	}
}
