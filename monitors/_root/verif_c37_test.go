package nebula

// C37 — remote address lists are deduplicated and deterministically ordered.
//
// Reference (from the property statement): the candidate list is
//
//	sort(unique( U_owner {learned v4, learned v6} ∪ reported v4 ∪ reported v6  ∪  resolved(DNS) that pass the
//	             list's address filter )  \  blocked )
//
// ordered by the key (not preferred, class, address bytes, port) with class IPv6 < public IPv4 < private IPv4
// (private = RFC 1918: 10/8, 172.16/12, 192.168/16) and preferred = inside any of the preferred ranges given
// to the call. Relay candidates = sorted(unique( U_owner reported relays )).
//
// The history applies the operations the rest of nebula applies to a RemoteList (learn, set/prepend reported
// v4/v6 per owner, set relays, static/DNS results and their change, block, unblock via ResetBlockedRemotes /
// RefreshFromHandshake, ResetForOwner, ClearHostnameResults) and reads CopyAddrs / ForEach / Len / relays with
// changing preferred ranges, also twice in a row without a change in between.
//
// Not generated (assumptions): IPv4-mapped IPv6 addresses and zoned addresses (the UDP layer and the protobuf
// conversions unmap before they reach the list); more than MaxRemotes reported entries per owner and family
// (the truncation belongs to C36).

import (
	"bytes"
	"context"
	"encoding/binary"
	"fmt"
	"log/slog"
	"math/rand/v2"
	"net/netip"
	"slices"
	"sort"
	"testing"
	"time"

	"github.com/slackhq/nebula/verifkit"
)

// ---------- reference ----------

type c37Owner struct {
	learned4, learned6   *netip.AddrPort
	reported4, reported6 []netip.AddrPort
	relays               []netip.Addr
}

type c37Model struct {
	owners  map[netip.Addr]*c37Owner
	dns     []netip.AddrPort
	blocked map[netip.AddrPort]bool
	filter  func(netip.Addr) bool // nil: everything passes
}

func (m *c37Model) owner(a netip.Addr) *c37Owner {
	o := m.owners[a]
	if o == nil {
		o = &c37Owner{}
		m.owners[a] = o
	}
	return o
}

func c37Private4(a netip.Addr) bool {
	b := a.As4()
	return b[0] == 10 || (b[0] == 172 && b[1]&0xf0 == 16) || (b[0] == 192 && b[1] == 168)
}

func c37Preferred(a netip.Addr, pref []netip.Prefix) bool {
	for _, p := range pref {
		if p.Addr().BitLen() == a.BitLen() && p.Masked().Contains(a) {
			return true
		}
	}
	return false
}

// c37Key is the sort key of the statement: preferred, then IPv6, public IPv4, private IPv4, then address, port.
func c37Key(ap netip.AddrPort, pref []netip.Prefix) []byte {
	k := make([]byte, 0, 20)
	if c37Preferred(ap.Addr(), pref) {
		k = append(k, 0)
	} else {
		k = append(k, 1)
	}
	switch {
	case ap.Addr().Is6():
		k = append(k, 0)
	case !c37Private4(ap.Addr()):
		k = append(k, 1)
	default:
		k = append(k, 2)
	}
	k = append(k, ap.Addr().AsSlice()...)
	return binary.BigEndian.AppendUint16(k, ap.Port())
}

func (m *c37Model) sources() (all []netip.AddrPort) {
	for _, o := range m.owners {
		if o.learned4 != nil {
			all = append(all, *o.learned4)
		}
		if o.learned6 != nil {
			all = append(all, *o.learned6)
		}
		all = append(all, o.reported4...)
		all = append(all, o.reported6...)
	}
	for _, d := range m.dns {
		if m.filter == nil || m.filter(d.Addr()) {
			all = append(all, d)
		}
	}
	return
}

func (m *c37Model) expect(pref []netip.Prefix) (list []netip.AddrPort, dups, blockedOut int) {
	set := map[netip.AddrPort]bool{}
	for _, a := range m.sources() {
		if m.blocked[a] {
			blockedOut++
			continue
		}
		if set[a] {
			dups++
		}
		set[a] = true
	}
	for a := range set {
		list = append(list, a)
	}
	sort.Slice(list, func(i, j int) bool { return bytes.Compare(c37Key(list[i], pref), c37Key(list[j], pref)) < 0 })
	return
}

func (m *c37Model) expectRelays() []netip.Addr {
	set := map[netip.Addr]bool{}
	for _, o := range m.owners {
		for _, r := range o.relays {
			set[r] = true
		}
	}
	out := make([]netip.Addr, 0, len(set))
	for a := range set {
		out = append(out, a)
	}
	sort.Slice(out, func(i, j int) bool {
		if out[i].BitLen() != out[j].BitLen() {
			return out[i].BitLen() < out[j].BitLen()
		}
		return bytes.Compare(out[i].AsSlice(), out[j].AsSlice()) < 0
	})
	return out
}

// ---------- pools ----------

var c37V4Pool = []string{"10.0.0.1", "10.0.0.2", "10.255.255.255", "9.255.255.255", "11.0.0.0", "172.16.0.1", "172.31.255.255", "172.15.255.255",
	"172.32.0.0", "192.168.1.1", "192.168.1.2", "192.167.255.255", "192.169.0.0", "100.64.0.1", "127.0.0.1", "169.254.1.1", "1.1.1.1", "8.8.8.8",
	"203.0.113.7", "255.255.255.255", "0.0.0.1", "172.16.0.1", "192.168.100.100"}
var c37V6Pool = []string{"fd00::1", "fd00::2", "fdff:ffff::1", "2001:db8::1", "2001:db8::2", "2600::1", "fe80::1", "::1", "ff02::1", "fc00::", "::2", "2001:db8:0:1::"}
var c37Ports = []uint16{1, 80, 4242, 4243, 65535, 0}
var c37PrefPool = []string{"10.0.0.0/8", "10.0.0.0/30", "172.16.0.0/12", "192.168.1.0/24", "192.168.0.0/16", "0.0.0.0/0", "1.1.1.1/32", "8.0.0.0/7",
	"fd00::/8", "fd00::/64", "::/0", "2001:db8::/32", "fe80::/10", "203.0.113.0/24", "100.64.0.0/10", "172.32.0.0/16"}
var c37OwnerPool = []string{"10.128.0.1", "10.128.0.2", "10.128.0.3", "fd80::1", "fd80::2"}

type c37Gen struct {
	rng   *rand.Rand
	v4    []netip.Addr
	v6    []netip.Addr
	ports []uint16
}

func newC37Gen(rng *rand.Rand) *c37Gen {
	g := &c37Gen{rng: rng}
	for k := 3 + rng.IntN(6); k > 0; k-- {
		g.v4 = append(g.v4, netip.MustParseAddr(c37V4Pool[rng.IntN(len(c37V4Pool))]))
	}
	for k := 2 + rng.IntN(4); k > 0; k-- {
		g.v6 = append(g.v6, netip.MustParseAddr(c37V6Pool[rng.IntN(len(c37V6Pool))]))
	}
	if rng.IntN(3) == 0 { // a few fully random addresses too
		var b4 [4]byte
		binary.BigEndian.PutUint32(b4[:], rng.Uint32())
		g.v4 = append(g.v4, netip.AddrFrom4(b4))
		var b6 [16]byte
		binary.BigEndian.PutUint64(b6[:8], rng.Uint64()|1<<61)
		binary.BigEndian.PutUint64(b6[8:], rng.Uint64())
		if a := netip.AddrFrom16(b6); !a.Is4In6() {
			g.v6 = append(g.v6, a)
		}
	}
	for k := 1 + rng.IntN(3); k > 0; k-- {
		g.ports = append(g.ports, c37Ports[rng.IntN(len(c37Ports))])
	}
	return g
}

func (g *c37Gen) ap(v6 bool) netip.AddrPort {
	pool := g.v4
	if v6 {
		pool = g.v6
	}
	return netip.AddrPortFrom(pool[g.rng.IntN(len(pool))], g.ports[g.rng.IntN(len(g.ports))])
}

func (g *c37Gen) aps(v6 bool, max int) []netip.AddrPort {
	n := g.rng.IntN(max + 1)
	out := make([]netip.AddrPort, 0, n)
	for i := 0; i < n; i++ {
		out = append(out, g.ap(v6))
	}
	return out
}

func (g *c37Gen) pref() []netip.Prefix {
	if g.rng.IntN(4) == 0 {
		return nil
	}
	var out []netip.Prefix
	for k := 1 + g.rng.IntN(3); k > 0; k-- {
		out = append(out, netip.MustParsePrefix(c37PrefPool[g.rng.IntN(len(c37PrefPool))]))
	}
	if g.rng.IntN(4) == 0 { // a host route for one of the pool addresses
		a := g.ap(g.rng.IntN(2) == 0).Addr()
		out = append(out, netip.PrefixFrom(a, a.BitLen()))
	}
	return out
}

func c37V4(ap netip.AddrPort) *V4AddrPort {
	b := ap.Addr().As4()
	return &V4AddrPort{Addr: binary.BigEndian.Uint32(b[:]), Port: uint32(ap.Port())}
}

func c37V6(ap netip.AddrPort) *V6AddrPort {
	b := ap.Addr().As16()
	return &V6AddrPort{Hi: binary.BigEndian.Uint64(b[:8]), Lo: binary.BigEndian.Uint64(b[8:]), Port: uint32(ap.Port())}
}

func c37Strs[T fmt.Stringer](l []T) []string {
	out := make([]string, len(l))
	for i, a := range l {
		out[i] = a.String()
	}
	return out
}

func c37HashList(h uint64, l []netip.AddrPort) uint64 {
	for _, a := range l {
		for _, c := range a.Addr().AsSlice() {
			h = (h ^ uint64(c)) * 1099511628211
		}
		h = (h ^ uint64(a.Port())) * 1099511628211
	}
	return h
}

// ---------- monitor ----------

func TestVerifC37Histories(t *testing.T) {
	r := verifkit.NewReporter(t, "C37", "histories",
		"PRNG histories on a real RemoteList: per walk a small address/port pool (RFC1918 edges, public, special-purpose, IPv6 ULA/global/link-local) so that the same address arrives from several owners and sources; operations learn / set+prepend reported v4,v6 (with and without a caller filter) / set relays / static+DNS results and their change / block / unblock (ResetBlockedRemotes, RefreshFromHandshake) / ResetForOwner / ClearHostnameResults; after each step CopyAddrs, ForEach, Len and relays are read with a fresh random preferred-range set (sometimes twice without a change in between) and compared with sort(unique(union)-blocked); distinct = distinct (expected list, preferred ranges) pairs, classes = (operation, groups present, duplicates collapsed, blocked excluded)")
	defer r.Done()
	l := slog.New(slog.DiscardHandler)
	if verifkit.Mine(0) {
		c37Directed(r)
	}
	walks := verifkit.Scale(4000, 600_000)
	steps := 60
	for wk := 0; wk < walks; wk++ {
		if !verifkit.Mine(wk) {
			continue
		}
		rng := verifkit.SubRand("C37walk", wk)
		g := newC37Gen(rng)
		owners := make([]netip.Addr, 0, 4)
		for k := 1 + rng.IntN(4); k > 0; k-- {
			owners = append(owners, netip.MustParseAddr(c37OwnerPool[rng.IntN(len(c37OwnerPool))]))
		}
		m := &c37Model{owners: map[netip.Addr]*c37Owner{}, blocked: map[netip.AddrPort]bool{}}
		var shouldAdd func([]netip.Addr, netip.Addr) bool
		if rng.IntN(2) == 0 {
			denied := map[netip.Addr]bool{}
			for k := rng.IntN(3); k > 0; k-- {
				denied[g.ap(rng.IntN(2) == 0).Addr()] = true
			}
			m.filter = func(a netip.Addr) bool { return !denied[a] }
			shouldAdd = func(_ []netip.Addr, a netip.Addr) bool { return !denied[a] }
		}
		peer := []netip.Addr{netip.MustParseAddr("10.128.0.99")}
		rl := NewRemoteList(peer, shouldAdd)
		var hist []string
		unblockedStale := false // an unblock happened and nothing has changed the sources since
		record := func() map[string]any {
			return map[string]any{"walk": wk, "history": slices.Clone(hist), "note": "re-run with the same VERIF_SEED; history lists every operation applied to the RemoteList in order"}
		}
		lastOp := "new"
		for s := 0; s < steps; s++ {
			owner := owners[rng.IntN(len(owners))]
			op := rng.IntN(20)
			dirty := true
			r.Pre("C37 walk %d step %d history=%v", wk, s, hist)
			panicked := r.Guard("C37/panic", func() any { return record() }, func() {
				switch {
				case op <= 2: // learn
					ap := g.ap(rng.IntN(3) == 0)
					lastOp = "learn"
					hist = append(hist, fmt.Sprintf("LearnRemote(%s, %s)", owner, ap))
					rl.LearnRemote(owner, ap)
					if ap.Addr().Is4() {
						m.owner(owner).learned4 = &ap
					} else {
						m.owner(owner).learned6 = &ap
					}
				case op <= 5: // set reported v4
					in := g.aps(false, 6)
					lastOp = "set4"
					var keep func(netip.AddrPort) bool
					if rng.IntN(4) == 0 {
						bad := g.ap(false).Addr()
						keep = func(a netip.AddrPort) bool { return a.Addr() != bad }
						hist = append(hist, fmt.Sprintf("SetV4(%s, %v, callerFilter=not %s)", owner, c37Strs(in), bad))
					} else {
						hist = append(hist, fmt.Sprintf("SetV4(%s, %v)", owner, c37Strs(in)))
					}
					var to []*V4AddrPort
					var kept []netip.AddrPort
					for _, a := range in {
						to = append(to, c37V4(a))
						if keep == nil || keep(a) {
							kept = append(kept, a)
						}
					}
					rl.Lock()
					rl.unlockedSetV4(owner, peer[0], to, func(_ netip.Addr, v *V4AddrPort) bool {
						if keep == nil {
							return true
						}
						var b [4]byte
						binary.BigEndian.PutUint32(b[:], v.Addr)
						return keep(netip.AddrPortFrom(netip.AddrFrom4(b), uint16(v.Port)))
					})
					rl.Unlock()
					m.owner(owner).reported4 = kept
				case op <= 8: // set reported v6
					in := g.aps(true, 5)
					lastOp = "set6"
					hist = append(hist, fmt.Sprintf("SetV6(%s, %v)", owner, c37Strs(in)))
					var to []*V6AddrPort
					for _, a := range in {
						to = append(to, c37V6(a))
					}
					rl.Lock()
					rl.unlockedSetV6(owner, peer[0], to, func(netip.Addr, *V6AddrPort) bool { return true })
					rl.Unlock()
					m.owner(owner).reported6 = in
				case op == 9: // prepend (static host path)
					v6 := rng.IntN(3) == 0
					ap := g.ap(v6)
					o := m.owner(owner)
					if (v6 && len(o.reported6) >= MaxRemotes) || (!v6 && len(o.reported4) >= MaxRemotes) {
						dirty = false
						return
					}
					lastOp = "prepend"
					hist = append(hist, fmt.Sprintf("Prepend(%s, %s)", owner, ap))
					rl.Lock()
					if v6 {
						rl.unlockedPrependV6(owner, c37V6(ap))
						o.reported6 = append([]netip.AddrPort{ap}, o.reported6...)
					} else {
						rl.unlockedPrependV4(owner, c37V4(ap))
						o.reported4 = append([]netip.AddrPort{ap}, o.reported4...)
					}
					rl.Unlock()
				case op <= 11: // relays
					var rel []netip.Addr
					for k := rng.IntN(5); k > 0; k-- {
						rel = append(rel, netip.MustParseAddr(c37OwnerPool[rng.IntN(len(c37OwnerPool))]))
					}
					lastOp = "relays"
					hist = append(hist, fmt.Sprintf("SetRelay(%s, %v)", owner, c37Strs(rel)))
					rl.Lock()
					rl.unlockedSetRelay(owner, rel)
					rl.Unlock()
					m.owner(owner).relays = rel
				case op == 12: // static host / DNS results installed (as lighthouse.addStaticRemotes does: new results, list marked changed)
					in := append(g.aps(false, 3), g.aps(true, 2)...)
					lastOp = "dns-set"
					var hp []string
					for _, a := range in {
						hp = append(hp, a.String())
					}
					hist = append(hist, fmt.Sprintf("SetHostnameResults(%v)", hp))
					hr, err := NewHostnameResults(context.Background(), l, time.Hour, "ip", time.Second, hp, func() {})
					if err != nil {
						panic(fmt.Sprintf("harness: NewHostnameResults(%v): %v", hp, err))
					}
					rl.Lock()
					rl.unlockedSetHostnamesResults(hr)
					rl.shouldRebuild = true
					rl.Unlock()
					m.dns = in
				case op == 13: // the resolver found a different set: what the DNS goroutine does (store + onUpdate marks the list changed)
					if rl.hr == nil {
						dirty = false
						return
					}
					in := append(g.aps(false, 3), g.aps(true, 2)...)
					lastOp = "dns-change"
					hist = append(hist, fmt.Sprintf("DNSResultsChange(%v)", c37Strs(in)))
					ips := map[netip.AddrPort]struct{}{}
					for _, a := range in {
						ips[a] = struct{}{}
					}
					rl.hr.ips.Store(&ips)
					rl.Lock()
					rl.shouldRebuild = true
					rl.Unlock()
					m.dns = in
				case op == 14:
					lastOp = "dns-clear"
					hist = append(hist, "ClearHostnameResults()")
					rl.ClearHostnameResults()
					m.dns = nil
				case op <= 16: // block: mostly something that is in the list
					ap := g.ap(rng.IntN(3) == 0)
					if cur, _, _ := m.expect(nil); len(cur) > 0 && rng.IntN(3) != 0 {
						ap = cur[rng.IntN(len(cur))]
					}
					lastOp = "block"
					hist = append(hist, fmt.Sprintf("BlockRemote(%s)", ap))
					rl.BlockRemote(ViaSender{UdpAddr: ap})
					m.blocked[ap] = true
				case op == 17: // unblock
					dirty = false
					if rng.IntN(2) == 0 {
						lastOp = "unblock-reset"
						hist = append(hist, "ResetBlockedRemotes()")
						rl.ResetBlockedRemotes()
					} else {
						lastOp = "unblock-handshake"
						hist = append(hist, "RefreshFromHandshake()")
						rl.RefreshFromHandshake(peer)
					}
					if len(m.blocked) > 0 {
						unblockedStale = true
					}
					m.blocked = map[netip.AddrPort]bool{}
				case op == 18:
					lastOp = "reset-owner"
					hist = append(hist, fmt.Sprintf("ResetForOwner(%s)", owner))
					rl.ResetForOwner(owner)
					if o := m.owners[owner]; o != nil {
						o.reported4, o.reported6 = nil, nil
					}
				default: // no operation: only the preferred ranges change
					dirty = false
					lastOp = "none"
				}
			})
			if panicked {
				break
			}
			if dirty {
				unblockedStale = false
			}

			// observe (sometimes twice with different preferred ranges and nothing in between)
			bad := false
			for rep := 0; rep < 1+rng.IntN(2); rep++ {
				pref := g.pref()
				want, dups, blockedOut := m.expect(pref)
				wantRelays := m.expectRelays()
				var got, gotEach []netip.AddrPort
				var gotPrefFlags []bool
				var gotLen int
				var gotRelays []netip.Addr
				hist = append(hist, fmt.Sprintf("CopyAddrs(preferred=%v)", c37Strs(pref)))
				if r.Guard("C37/panic", func() any { return record() }, func() {
					got = rl.CopyAddrs(pref)
					rl.RLock()
					gotRelays = slices.Clone(rl.relays)
					rl.RUnlock()
					rl.ForEach(pref, func(a netip.AddrPort, p bool) {
						gotEach = append(gotEach, a)
						gotPrefFlags = append(gotPrefFlags, p)
					})
					gotLen = rl.Len(pref)
				}) {
					bad = true
					break
				}
				r.Eval(1)
				h := c37HashList(1469598103934665603, want)
				for _, p := range pref {
					h = c37HashList(h, []netip.AddrPort{netip.AddrPortFrom(p.Addr(), uint16(p.Bits()))})
				}
				r.DistinctU64(h)
				groups := [4]bool{}
				for _, a := range want {
					switch {
					case c37Preferred(a.Addr(), pref):
						groups[0] = true
					case a.Addr().Is6():
						groups[1] = true
					case !c37Private4(a.Addr()):
						groups[2] = true
					default:
						groups[3] = true
					}
				}
				r.DistinctClass(fmt.Sprintf("op=%s rep=%d groups(pref,v6,pub4,priv4)=%v dups=%v blockedOut=%v relays=%v", lastOp, rep, groups, dups > 0, blockedOut > 0, len(wantRelays) > 0))
				if dups > 0 {
					r.Count("observations_with_duplicates_collapsed", 1)
				}
				if blockedOut > 0 {
					r.Count("observations_with_blocked_excluded", 1)
				}
				if groups == [4]bool{true, true, true, true} {
					r.Count("observations_with_all_four_groups", 1)
				}
				if rep == 1 {
					r.Count("observations_resort_only", 1)
				}

				rec := func() map[string]any {
					rc := record()
					rc["preferred"], rc["expected"], rc["got"] = c37Strs(pref), c37Strs(want), c37Strs(got)
					return rc
				}
				if !slices.Equal(got, want) {
					bad = true
					key, what := "C37/order", "same set, wrong order"
					gs, ws := map[netip.AddrPort]int{}, map[netip.AddrPort]bool{}
					for _, a := range got {
						gs[a]++
					}
					for _, a := range want {
						ws[a] = true
					}
					var missing, extra []netip.AddrPort
					dup := false
					for a, n := range gs {
						if n > 1 {
							dup = true
						}
						if !ws[a] {
							extra = append(extra, a)
						}
					}
					for a := range ws {
						if gs[a] == 0 {
							missing = append(missing, a)
						}
					}
					switch {
					case dup:
						key, what = "C37/duplicate", "an address appears twice"
					case len(extra) > 0:
						key, what = "C37/extra-address", fmt.Sprintf("addresses not in (sources minus blocked): %v", extra)
						for _, a := range extra {
							if m.blocked[a] {
								key = "C37/blocked-address-listed"
							}
						}
					case len(missing) > 0:
						key, what = "C37/missing-address", fmt.Sprintf("addresses of the sources missing: %v", missing)
						if unblockedStale {
							// differential attribution on the real code: does a forced re-collection repair it?
							rl.Lock()
							rl.shouldRebuild = true
							rl.Unlock()
							if again := rl.CopyAddrs(pref); slices.Equal(again, want) {
								key = "C37/unblocked-address-missing-until-next-change"
								what = fmt.Sprintf("after the blocked list was cleared %v stay missing until some source changes", missing)
								bad = false // the forced rebuild resynchronised the list: the walk can go on
								unblockedStale = false
							}
						}
					}
					r.Violation(key, fmt.Sprintf("walk %d step %d after %s: %s; got %v want %v", wk, s, lastOp, what, c37Strs(got), c37Strs(want)), rec())
				} else {
					if !slices.Equal(gotEach, got) || gotLen != len(got) {
						bad = true
						rc := rec()
						rc["foreach"], rc["len"] = c37Strs(gotEach), gotLen
						r.Violation("C37/accessors-differ", fmt.Sprintf("ForEach/Len disagree with CopyAddrs: %v len=%d vs %v", c37Strs(gotEach), gotLen, c37Strs(got)), rc)
					}
					for i, a := range gotEach {
						if i < len(gotPrefFlags) && gotPrefFlags[i] != c37Preferred(a.Addr(), pref) {
							r.Violation("C37/preferred-flag", fmt.Sprintf("ForEach marks %s preferred=%v under %v", a, gotPrefFlags[i], pref), rec())
						}
					}
				}
				if !slices.Equal(gotRelays, wantRelays) {
					bad = true
					rc := rec()
					rc["relays_got"], rc["relays_expected"] = c37Strs(gotRelays), c37Strs(wantRelays)
					r.Violation("C37/relay-mismatch", fmt.Sprintf("walk %d step %d after %s: relays got %v want %v", wk, s, lastOp, c37Strs(gotRelays), c37Strs(wantRelays)), rc)
				}
				if bad {
					break
				}
				if r.WantSample() && len(want) >= 6 && dups > 0 && blockedOut > 0 {
					r.Sample(map[string]any{"preferred": c37Strs(pref), "list": c37Strs(got), "relays": c37Strs(gotRelays), "duplicates_collapsed": dups, "blocked_excluded": blockedOut})
				}
			}
			if bad {
				break
			}
		}
	}
}

// c37Directed: the documentation-sized scenarios (one owner, a handful of addresses).
func c37Directed(r *verifkit.Reporter) {
	ap := netip.MustParseAddrPort
	owner1, owner2 := netip.MustParseAddr("10.128.0.1"), netip.MustParseAddr("10.128.0.2")
	peer := netip.MustParseAddr("10.128.0.99")
	all := func(netip.Addr, *V4AddrPort) bool { return true }
	all6 := func(netip.Addr, *V6AddrPort) bool { return true }
	check := func(key, name string, rl *RemoteList, pref []netip.Prefix, want []netip.AddrPort, steps []string) {
		var got []netip.AddrPort
		if r.Guard("C37/panic", func() any { return steps }, func() { got = rl.CopyAddrs(pref) }) {
			return
		}
		r.Eval(1)
		r.Distinct("directed|" + name)
		r.DistinctClass("directed: " + name)
		if !slices.Equal(got, want) {
			r.Violation(key, fmt.Sprintf("%s: got %v want %v", name, c37Strs(got), c37Strs(want)),
				map[string]any{"scenario": name, "steps": steps, "preferred": c37Strs(pref), "got": c37Strs(got), "expected": c37Strs(want)})
		}
	}

	// 1. ordering of the four groups, duplicates across owners
	rl := NewRemoteList([]netip.Addr{peer}, nil)
	rl.Lock()
	rl.unlockedSetV4(owner1, peer, []*V4AddrPort{c37V4(ap("10.0.0.1:4242")), c37V4(ap("1.1.1.1:4242")), c37V4(ap("1.1.1.1:80")), c37V4(ap("192.168.1.1:4242"))}, all)
	rl.unlockedSetV4(owner2, peer, []*V4AddrPort{c37V4(ap("1.1.1.1:4242")), c37V4(ap("172.16.0.1:4242"))}, all)
	rl.unlockedSetV6(owner2, peer, []*V6AddrPort{c37V6(ap("[2001:db8::1]:4242")), c37V6(ap("[fd00::1]:4242"))}, all6)
	rl.Unlock()
	rl.LearnRemote(owner1, ap("10.0.0.1:4242"))
	steps := []string{"owner1 reports 10.0.0.1:4242 1.1.1.1:4242 1.1.1.1:80 192.168.1.1:4242", "owner2 reports 1.1.1.1:4242 172.16.0.1:4242 [2001:db8::1]:4242 [fd00::1]:4242", "owner1 learns 10.0.0.1:4242"}
	check("C37/order", "four groups, no preferred ranges", rl, nil,
		[]netip.AddrPort{ap("[2001:db8::1]:4242"), ap("[fd00::1]:4242"), ap("1.1.1.1:80"), ap("1.1.1.1:4242"), ap("10.0.0.1:4242"), ap("172.16.0.1:4242"), ap("192.168.1.1:4242")}, steps)
	check("C37/order", "preferred 192.168.0.0/16 and fd00::/8", rl, []netip.Prefix{netip.MustParsePrefix("192.168.0.0/16"), netip.MustParsePrefix("fd00::/8")},
		[]netip.AddrPort{ap("[fd00::1]:4242"), ap("192.168.1.1:4242"), ap("[2001:db8::1]:4242"), ap("1.1.1.1:80"), ap("1.1.1.1:4242"), ap("10.0.0.1:4242"), ap("172.16.0.1:4242")}, steps)

	// 2. block, then unblock
	rl = NewRemoteList([]netip.Addr{peer}, nil)
	rl.Lock()
	rl.unlockedSetV4(owner1, peer, []*V4AddrPort{c37V4(ap("1.1.1.1:4242")), c37V4(ap("8.8.8.8:4242"))}, all)
	rl.Unlock()
	steps = []string{"owner1 reports 1.1.1.1:4242 8.8.8.8:4242"}
	check("C37/missing-address", "two reported", rl, nil, []netip.AddrPort{ap("1.1.1.1:4242"), ap("8.8.8.8:4242")}, steps)
	rl.BlockRemote(ViaSender{UdpAddr: ap("1.1.1.1:4242")})
	steps = append(steps, "BlockRemote(1.1.1.1:4242)")
	check("C37/blocked-address-listed", "one blocked", rl, nil, []netip.AddrPort{ap("8.8.8.8:4242")}, steps)
	rl.ResetBlockedRemotes()
	steps = append(steps, "ResetBlockedRemotes()")
	check("C37/unblocked-address-missing-until-next-change", "blocked list cleared by ResetBlockedRemotes", rl, nil, []netip.AddrPort{ap("1.1.1.1:4242"), ap("8.8.8.8:4242")}, steps)
	rl.BlockRemote(ViaSender{UdpAddr: ap("8.8.8.8:4242")})
	steps = append(steps, "BlockRemote(8.8.8.8:4242)")
	check("C37/blocked-address-listed", "other one blocked", rl, nil, []netip.AddrPort{ap("1.1.1.1:4242")}, steps)
	rl.RefreshFromHandshake([]netip.Addr{peer})
	steps = append(steps, "RefreshFromHandshake()")
	check("C37/unblocked-address-missing-until-next-change", "blocked list cleared by RefreshFromHandshake", rl, nil, []netip.AddrPort{ap("1.1.1.1:4242"), ap("8.8.8.8:4242")}, steps)
}
