package nebula

// C49 helpers shared by the bubble unit (tester transport) and the real-socket unit: per-node goroutine attribution
// through runtime/pprof labels. Every call into a node is made under the label {"c49node": <id>}; goroutines inherit the
// labels of their creator, and the goroutine profile at debug=1 prints the labels of every group.

import (
	"bytes"
	"fmt"
	"regexp"
	"runtime"
	"runtime/pprof"
	"sort"
	"strings"
)

// ---------------------------------------------------------------------------------------------
// goroutine profile with labels

type c49Group struct {
	N       int
	Labels  string
	Funcs   []string // leaf first (runtime frames are elided by the profile)
	Runtime []string // the runtime functions at the top of the stack, from the raw program counters
	Text    string
}

// blockedOnPlainChannel reports that the goroutine is parked in a channel send or receive that is not part of a select:
// no timer can wake it, so once its partner is gone it sits there for ever (and cannot spin).
func (g *c49Group) blockedOnPlainChannel() bool {
	for _, f := range g.Runtime {
		if f == "runtime.selectgo" {
			return false
		}
	}
	for _, f := range g.Runtime {
		if f == "runtime.chanrecv" || f == "runtime.chansend" {
			return true
		}
	}
	return false
}

var c49LabelRe = regexp.MustCompile(`"c49node":"([^"]*)"`)

func c49Profile() []c49Group {
	var buf bytes.Buffer
	pprof.Lookup("goroutine").WriteTo(&buf, 1)
	var out []c49Group
	for _, blk := range strings.Split(buf.String(), "\n\n") {
		lines := strings.Split(strings.TrimSpace(blk), "\n")
		if len(lines) == 0 {
			continue
		}
		var g c49Group
		if strings.HasPrefix(lines[0], "goroutine profile:") {
			lines = lines[1:]
			if len(lines) == 0 {
				continue
			}
		}
		if _, err := fmt.Sscanf(lines[0], "%d @", &g.N); err != nil {
			continue
		}
		for _, pcs := range strings.Fields(lines[0])[2:] {
			var pc uintptr
			if _, err := fmt.Sscanf(pcs, "0x%x", &pc); err == nil {
				if f := runtime.FuncForPC(pc - 1); f != nil && strings.HasPrefix(f.Name(), "runtime.") {
					g.Runtime = append(g.Runtime, f.Name())
					continue
				}
			}
			break
		}
		for _, ln := range lines[1:] {
			if strings.HasPrefix(ln, "# labels:") {
				g.Labels = strings.TrimSpace(strings.TrimPrefix(ln, "# labels:"))
				continue
			}
			f := strings.Fields(strings.TrimPrefix(ln, "#"))
			if len(f) >= 2 {
				fn := f[1]
				if i := strings.LastIndex(fn, "+0x"); i > 0 {
					fn = fn[:i]
				}
				g.Funcs = append(g.Funcs, fn)
			}
		}
		g.Text = strings.Join(lines, "\n")
		out = append(out, g)
	}
	return out
}

func (g *c49Group) node() string {
	m := c49LabelRe.FindStringSubmatch(g.Labels)
	if m == nil {
		return ""
	}
	return m[1]
}

// processGlobal: goroutines that a library starts once per process, on behalf of whichever node touches it first, and
// that no node can stop. Only one: the meter arbiter of rcrowley/go-metrics (started by the first Timer/Meter, i.e. by
// the runtime memstats a stats-enabled node registers; it ticks for the life of the process and is shared by all nodes).
func (g *c49Group) processGlobal() bool {
	return len(g.Funcs) > 0 && g.Funcs[len(g.Funcs)-1] == "github.com/rcrowley/go-metrics.(*meterArbiter).tick"
}

// sig names a goroutine by its innermost and outermost nebula frames: "leaf<-entry".
func (g *c49Group) sig() string {
	short := func(s string) string { return strings.TrimPrefix(s, "github.com/slackhq/") }
	leaf, entry := "", ""
	for _, f := range g.Funcs {
		if strings.HasPrefix(f, "github.com/slackhq/nebula") && !strings.Contains(f, "c49") {
			if leaf == "" {
				leaf = short(f)
			}
			entry = short(f)
		}
	}
	if leaf == "" && len(g.Funcs) > 0 {
		leaf = g.Funcs[0]
		entry = g.Funcs[len(g.Funcs)-1]
	}
	return leaf + "<-" + entry
}

// c49Alive returns the goroutines currently labelled as belonging to node label (stoppers excluded unless withStoppers).
func c49Alive(label string, withStoppers bool) (n int, groups []c49Group) {
	for _, g := range c49Profile() {
		if g.node() != label || g.processGlobal() {
			continue
		}
		if !withStoppers && strings.Contains(g.Labels, `"c49role":"stopper"`) {
			continue
		}
		n += g.N
		groups = append(groups, g)
	}
	return
}

func c49Sigs(groups []c49Group) []string {
	set := map[string]bool{}
	for i := range groups {
		set[groups[i].sig()] = true
	}
	var out []string
	for s := range set {
		out = append(out, s)
	}
	sort.Strings(out)
	return out
}

// c49Leafs is the set of innermost nebula functions the goroutines sit in: the stable part of a witness class (the same
// blocking call can strand the tun reader, the handshake manager or a udp reader, and then shows up as a Wait that never
// returns or as a plain leftover goroutine).
func c49Leafs(groups []c49Group) []string {
	set := map[string]bool{}
	for i := range groups {
		s := groups[i].sig()
		set[s[:strings.Index(s, "<-")]] = true
	}
	var out []string
	for s := range set {
		out = append(out, s)
	}
	sort.Strings(out)
	return out
}

func c49Dump(groups []c49Group) []string {
	var out []string
	for _, g := range groups {
		out = append(out, g.Text)
	}
	return out
}

func c49FullDump() string {
	var buf bytes.Buffer
	pprof.Lookup("goroutine").WriteTo(&buf, 2)
	s := buf.String()
	if len(s) > 60000 {
		s = s[:60000] + "\n...truncated"
	}
	return s
}
