//go:build e2e_testing

package nebula

// C32 — pending handshakes retry with linear back-off, give up after the configured attempts, keep at most 100 queued
// packets and release them exactly once, in order, subject to the outbound firewall.
//
// One started node in a synctest bubble (virtual time). The peer's underlay address is learned through the lighthouse
// cache (not the static map, so no trigger-driven extra attempt), and belongs to a puppet peer that answers the k-th
// transmission or never. The handshake manager's socket is wrapped so that every handshake transmission gets the
// exact virtual time it was written at.
// Oracle (from the statement and the handshakes section of examples/config.yml: "wait try_interval after the 1st
// attempt, 2 * try_interval after the 2nd, etc"):
//   - the gap between attempt n and n+1 is n*interval, rounded up by the timer wheel by at most two ticks;
//   - never answered: exactly `retries` attempts, then the pending entry and its index disappear n*interval (+<=2 ticks)
//     after the last attempt, not earlier;
//   - answered at attempt k: no further attempt, pending state gone, and the data packets that follow are exactly the
//     first min(queued,100) queued packets that the outbound rules allow, each once, in queue order.

import (
	"fmt"
	"net/netip"
	"runtime"
	"slices"
	"testing"
	"time"

	"github.com/slackhq/nebula/cert"
	"github.com/slackhq/nebula/header"
	"github.com/slackhq/nebula/udp"
	"github.com/slackhq/nebula/verifkit"
)

type c32Conn struct {
	udp.Conn
	stamps *[]time.Time
}

func (c *c32Conn) WriteTo(b []byte, addr netip.AddrPort) error {
	if len(b) >= header.Len && b[0]&0x0f == byte(header.Handshake) {
		*c.stamps = append(*c.stamps, time.Now())
	}
	return c.Conn.WriteTo(b, addr)
}

func TestVerifC32(t *testing.T) {
	r := verifkit.NewReporter(t, "C32", "pending",
		"one started node per case; try_interval in {10ms..1s}, retries 1..12, 0..150 queued unique packets to two destination ports with outbound rules allowing one, both or neither, answer at attempt k or never; distinct = (interval, retries, queued class, rule class, answered-at) tuples")
	defer r.Done()
	cases := verifkit.Scale(80, 4000)
	for cs := 0; cs < cases; cs++ {
		if !verifkit.Mine(cs) {
			continue
		}
		rng := verifkit.SubRand("C32", cs)
		interval := []time.Duration{10 * time.Millisecond, 50 * time.Millisecond, 100 * time.Millisecond, 333 * time.Millisecond, time.Second}[rng.IntN(5)]
		retries := 1 + rng.IntN(12)
		queued := []int{0, 1, 5, 99, 100, 101, 150, rng.IntN(150)}[rng.IntN(8)]
		answerAt := 0 // never
		if rng.IntN(3) != 0 {
			answerAt = 1 + rng.IntN(retries)
		}
		ruleClass := rng.IntN(4) // 0: allow all, 1: only port 80, 2: only port 81, 3: nothing outbound but icmp
		var outbound []m
		switch ruleClass {
		case 0:
			outbound = []m{{"proto": "any", "port": "any", "host": "any"}}
		case 1:
			outbound = []m{{"proto": "udp", "port": 80, "host": "any"}}
		case 2:
			outbound = []m{{"proto": "udp", "port": 81, "group": "pg"}}
		case 3:
			outbound = []m{{"proto": "icmp", "port": "any", "host": "any"}}
		}
		allowed := func(dport uint16) bool {
			return ruleClass == 0 || (ruleClass == 1 && dport == 80) || (ruleClass == 2 && dport == 81)
		}
		vnRunBubble(t, func(t *testing.T) {
			ca := vnNewCA(cert.Version2, cert.Curve_CURVE25519)
			nw := vnNewNet(t)
			a := nw.AddNode(ca.issue([]cert.Version{cert.Version2}, "a", "10.1.0.1/16,fd00:1::1/64", "", nil), []*vnCA{ca}, "192.0.2.1:4242",
				m{"handshakes": m{"try_interval": interval.String(), "retries": retries}, "firewall": m{"outbound": outbound}})
			// the peer is certified for two addresses; half of the cases dial it through the second one
			pid := ca.issue([]cert.Version{cert.Version2}, "p", "10.1.0.9/16,fd00:1::9/64", "", []string{"pg"})
			dial := pid.Addr()
			src := a.Ident.Addr()
			mkPkt := vnUDP4
			if cs%2 == 1 {
				dial, src, mkPkt = pid.Addrs()[1], a.Ident.Addrs()[1], vnUDP6
				r.Count("cases_dialling_the_peers_second_address", 1)
			}
			pp := nw.AddPuppet(pid, []*vnCA{ca}, "192.0.2.9:4242", cert.Version2)
			var stamps []time.Time
			a.F.handshakeManager.outside = &c32Conn{Conn: a.F.handshakeManager.outside, stamps: &stamps}
			a.Start()
			a.C.InjectLightHouseAddr(dial, pp.Addr)
			nw.Settle()
			defer nw.StopAll()
			rec := func(extra map[string]any) map[string]any {
				mm := map[string]any{"case": cs, "try_interval": interval.String(), "retries": retries, "queued": queued, "rule_class": ruleClass, "answer_at_attempt": answerAt}
				for k, v := range extra {
					mm[k] = v
				}
				return mm
			}
			// queue packets
			start := time.Now()
			var ids [][16]byte
			var ports []uint16
			for i := 0; i < queued || i < 1; i++ {
				dport := uint16(80 + rng.IntN(2))
				pkt, id := mkPkt(src, dial, uint16(10000+i), dport, rng.IntN(32))
				ids = append(ids, id)
				ports = append(ports, dport)
				nw.TunSend(a, pkt)
			}
			if queued == 0 {
				// the first packet only starts the handshake; it is queued too
				queued = 1
			}
			hsm := a.F.handshakeManager
			pendingIdx := func() (uint32, bool) {
				hsm.RLock()
				defer hsm.RUnlock()
				hh, ok := hsm.vpnIps[dial]
				if !ok {
					return 0, false
				}
				return hh.hostinfo.localIndexId, true
			}
			if _, ok := pendingIdx(); !ok {
				r.Inconclusive(fmt.Sprintf("case %d: no pending handshake after the first packet", cs))
				return
			}
			hsm.RLock()
			stored := len(hsm.vpnIps[dial].packetStore)
			hsm.RUnlock()
			r.Eval(1)
			wantStored := min(queued, 100)
			if stored != wantStored {
				key := "C32/queue-not-capped-at-100"
				if stored < wantStored {
					key = "C32/queued-packet-not-retained"
				}
				r.Violation(key, fmt.Sprintf("case %d: %d packets sent while pending, %d retained (want %d)", cs, queued, stored, wantStored), rec(map[string]any{"retained": stored}))
			}

			// Interleaving variant: while the reply is being processed, right before the pending handshake is completed
			// (verif hook hs.beforeComplete, on the node's own reader goroutine), one more packet is written to the tun and
			// the hook waits until the tun reader has put it into the pending handshake's queue. It was accepted into the
			// queue, so it must be sent exactly once, after the packets queued before it.
			lateQueue := answerAt != 0 && rng.IntN(2) == 0
			var lateID [16]byte
			var latePort uint16
			lateStored := false
			if lateQueue {
				latePort = uint16(80 + rng.IntN(2))
				var latePkt []byte
				latePkt, lateID = mkPkt(src, dial, 20000, latePort, 8)
				fired := false
				hook := func(id int) {
					if id != verifHsBeforeComplete || fired {
						return
					}
					fired = true
					count := func() int {
						hsm.RLock()
						defer hsm.RUnlock()
						if hh, ok := hsm.vpnIps[dial]; ok {
							return len(hh.packetStore)
						}
						return -1
					}
					before := count()
					a.C.InjectTunPacket(latePkt)
					limit := 5_000_000
					if before >= maxCachedPackets {
						limit = 20_000 // the queue is full, the packet will be counted as dropped, nothing to wait for
					}
					for spin := 0; spin < limit; spin++ {
						if n := count(); n != before {
							lateStored = n > before
							break
						}
						runtime.Gosched()
					}
					r.Count("packets_injected_between_reply_and_completion", 1)
				}
				verifHook.Store(&hook)
				defer verifHook.Store(nil)
			}

			step := interval / 4
			var tun *vnTunnel
			var removedAt time.Time
			attemptsSeen := 0
			var answeredStamp time.Time
			var dataAfter []*vnPacket
			var lastIdx uint32
			deadline := start.Add(hsTimeout(int64(retries), interval) + 6*interval + time.Duration(retries)*2*interval)
			for time.Now().Before(deadline) {
				nw.Advance(step)
				// take the node's emissions
				out := nw.Inflight
				nw.Inflight = nil
				for _, p := range out {
					if p.HOK && p.H.Type == header.Handshake && p.H.MessageCounter == 1 && p.To == pp.Addr {
						attemptsSeen++
						p.Sender = a
						if answerAt != 0 && attemptsSeen == answerAt && tun == nil {
							tun = pp.RespondNoDeliver(p)
							if tun != nil {
								answeredStamp = time.Now()
								nw.Inject(a, pp.Addr, tun.Stage2)
								nw.Settle()
								for _, q := range nw.Inflight {
									dataAfter = append(dataAfter, q)
								}
								nw.Inflight = nil
							}
						}
					} else if tun != nil {
						dataAfter = append(dataAfter, p)
					}
				}
				if idx, ok := pendingIdx(); ok {
					lastIdx = idx
				} else if removedAt.IsZero() {
					removedAt = time.Now()
				}
				if !removedAt.IsZero() && time.Since(removedAt) > 3*interval {
					break
				}
			}
			r.DistinctClass(fmt.Sprintf("interval=%s retries=%d queued=%s rules=%d answered_at=%d late_queue=%v", interval, retries, map[bool]string{true: ">100", false: "<=100"}[queued > 100], ruleClass, answerAt, lateQueue))
			r.Distinct(fmt.Sprintf("case %d", cs))
			r.Eval(len(stamps))

			// group transmissions into attempts (one burst per attempt, same virtual instant)
			var attempts []time.Time
			for _, s := range stamps {
				if len(attempts) == 0 || !s.Equal(attempts[len(attempts)-1]) {
					attempts = append(attempts, s)
				}
			}
			tick := interval
			for n := 1; n < len(attempts); n++ {
				gap := attempts[n].Sub(attempts[n-1])
				lo, hi := time.Duration(n)*interval, time.Duration(n)*interval+2*tick
				if gap < lo || gap > hi {
					r.Violation("C32/backoff-gap-out-of-bounds", fmt.Sprintf("case %d: gap after attempt %d is %s, want %s..%s (try_interval %s)", cs, n, gap, lo, hi, interval),
						rec(map[string]any{"attempt_times_since_start": c32Since(start, attempts)}))
					break
				}
				r.Count("gaps_checked", 1)
			}
			if len(attempts) > 0 && attempts[0].Sub(start) > 3*interval {
				r.Violation("C32/first-attempt-late", fmt.Sprintf("case %d: first attempt %s after the handshake was started (try_interval %s)", cs, attempts[0].Sub(start), interval), rec(nil))
			}
			if answerAt == 0 || tun == nil {
				if answerAt == 0 {
					r.Count("never_answered_cases", 1)
					if len(attempts) != retries {
						r.Violation("C32/attempt-count-differs-from-retries", fmt.Sprintf("case %d: %d attempts observed, retries=%d", cs, len(attempts), retries), rec(map[string]any{"attempt_times_since_start": c32Since(start, attempts)}))
					}
					if removedAt.IsZero() {
						r.Violation("C32/pending-state-never-removed", fmt.Sprintf("case %d: pending handshake still present %s after start", cs, time.Since(start)), rec(nil))
					} else if len(attempts) > 0 {
						last := attempts[len(attempts)-1]
						lo := time.Duration(len(attempts)) * interval
						hi := lo + 2*tick + step
						d := removedAt.Sub(last)
						if d < lo-step || d > hi {
							r.Violation("C32/give-up-time-out-of-bounds", fmt.Sprintf("case %d: pending state removed %s after the last attempt, want %s..%s", cs, d, lo, hi), rec(map[string]any{"attempt_times_since_start": c32Since(start, attempts)}))
						}
					}
					hsm.RLock()
					_, idxLeft := hsm.indexes[lastIdx]
					hsm.RUnlock()
					if idxLeft && !removedAt.IsZero() {
						r.Violation("C32/index-not-released", fmt.Sprintf("case %d: pending index %d still registered after give-up", cs, lastIdx), rec(nil))
					}
					if a.F.hostMap.QueryVpnAddr(dial) != nil {
						r.Violation("C32/tunnel-without-answer", "a tunnel exists although nobody answered", rec(nil))
					}
				}
				return
			}
			// answered
			r.Count("answered_cases", 1)
			if len(attempts) != answerAt {
				r.Violation("C32/attempt-after-completion", fmt.Sprintf("case %d: answered attempt %d but %d attempts were transmitted", cs, answerAt, len(attempts)), rec(map[string]any{"attempt_times_since_start": c32Since(start, attempts)}))
			}
			if _, ok := pendingIdx(); ok {
				r.Violation("C32/pending-state-after-completion", fmt.Sprintf("case %d: pending entry still present after completion", cs), rec(nil))
			}
			_ = answeredStamp
			var got [][16]byte
			for _, p := range dataAfter {
				if !p.HOK || p.H.Type != header.Message || p.H.Subtype != header.MessageNone {
					continue
				}
				_, plain, err := tun.Open(p.Data)
				if err != nil {
					continue
				}
				if id, ok := vnPayloadID(plain); ok {
					got = append(got, id)
				}
			}
			var want [][16]byte
			for i := 0; i < len(ids) && i < 100; i++ {
				if allowed(ports[i]) {
					want = append(want, ids[i])
				}
			}
			if lateQueue && lateStored && allowed(latePort) {
				want = append(want, lateID)
				r.Count("late_queued_packets_expected", 1)
			}
			r.Count("queued_packets_expected_on_completion", len(want))
			if lateQueue && !lateStored && allowed(latePort) && len(got) == len(want)+1 {
				// the packet written to the tun during completion was not taken into the queue (it was full, or the tun reader
				// only got to it once the tunnel was up): it then goes out as ordinary traffic, on the tun reader's own routine,
				// anywhere among the packets the completing routine is releasing
				if i := slices.Index(got, lateID); i >= 0 && c32Equal(slices.Delete(slices.Clone(got), i, i+1), want) {
					r.Count("late_packet_sent_as_ordinary_traffic_while_the_queue_was_released", 1)
					got = slices.Delete(slices.Clone(got), i, i+1)
				}
			}
			if !c32Equal(got, want) {
				key := "C32/queued-packets-released-wrongly"
				seen := map[[16]byte]int{}
				for _, g := range got {
					seen[g]++
				}
				wantSet := map[[16]byte]bool{}
				for _, x := range want {
					wantSet[x] = true
				}
				for g, c := range seen {
					if c > 1 {
						key = "C32/queued-packet-sent-twice"
					}
					if !wantSet[g] {
						key = "C32/queued-packet-sent-against-firewall-or-cap"
					}
				}
				if key == "C32/queued-packets-released-wrongly" && len(got) == len(want) {
					key = "C32/queued-packets-out-of-order"
				} else if key == "C32/queued-packets-released-wrongly" && len(got) < len(want) {
					key = "C32/queued-packet-lost"
				}
				r.Violation(key, fmt.Sprintf("case %d: on completion %d queued packets were sent, expected %d (queued %d, rule class %d)", cs, len(got), len(want), queued, ruleClass),
					rec(map[string]any{"sent_ids": c32Hex(got), "expected_ids": c32Hex(want)}))
			}
			if cs < 3 {
				r.Sample(rec(map[string]any{"attempt_times_since_start": c32Since(start, attempts), "queued_sent_on_completion": len(got)}))
			}
		})
	}
}

func c32Since(start time.Time, ts []time.Time) []string {
	var out []string
	for _, x := range ts {
		out = append(out, x.Sub(start).String())
	}
	return out
}

func c32Equal(a, b [][16]byte) bool {
	if len(a) != len(b) {
		return false
	}
	for i := range a {
		if a[i] != b[i] {
			return false
		}
	}
	return true
}

func c32Hex(a [][16]byte) []string {
	var out []string
	for _, x := range a {
		out = append(out, verifkit.Hex(x[8:]))
	}
	return out
}
