package nebula

// C42 — certificate reload never changes a node's identity.
//
// The real PKI (pki.go) is created from a config.C and then reloaded through the config reload callback
// (the SIGHUP path) with generated cert / key / CA / blocklist combinations supplied inline as PEM.
//
// Oracle, written from the property statement:
//   identity(state)  = (networks of the v2 certificate, else of the v1 certificate ; curve)
//   reload accepted  (PKI.getCertState() returns a new state)  =>
//        identity(new) == identity(old)                               [a reload that would change networks/curve is refused]
//        the certificates in use are exactly those of the supplied configuration, none expired / not yet valid,
//        v1 and v2 share one public key, one curve and the primary network, the private key is the pair of that
//        public key, and every derived field (myVpnNetworks, myVpnAddrs, tables, credentials) is consistent
//   reload refused   (same *CertState)  =>  nothing in it changed       [the previous certificates stay in use]
//   CA bundle unreadable  =>  PKI.GetCAPool() is the same pool with the same content
//   CA bundle readable    =>  the pool in use is built from exactly that bundle and that blocklist
//   connection manager, per-check decision (makeTrafficDecision with an explicit now): a peer whose fingerprint
//   is blocklisted or whose CA is no longer trusted by the trust configuration in force gets closeTunnel,
//   a peer that is still trusted and not blocklisted does not.
//
// Key rotation (same networks and curve, new key pair) is not forbidden by the statement; it is counted, not judged.

import (
	"bytes"
	"crypto/ecdh"
	"fmt"
	"log/slog"
	"net/netip"
	"slices"
	"sort"
	"strings"
	"testing"
	"time"

	"github.com/slackhq/nebula/cert"
	"github.com/slackhq/nebula/cert_test"
	"github.com/slackhq/nebula/config"
	"github.com/slackhq/nebula/verifkit"
	"go.yaml.in/yaml/v3"
)

// ---------------------------------------------------------------------------------------------------------------
// material

var (
	c42CAFrom      = time.Date(1990, 1, 1, 0, 0, 0, 0, time.UTC)
	c42CATo        = time.Date(2200, 1, 1, 0, 0, 0, 0, time.UTC)
	c42CAExpiredTo = time.Date(1992, 1, 1, 0, 0, 0, 0, time.UTC)
	c42HostFrom    = time.Date(1991, 1, 1, 0, 0, 0, 0, time.UTC)
	c42HostTo      = time.Date(2199, 1, 1, 0, 0, 0, 0, time.UTC)
	c42ExpiredTo   = time.Date(1991, 6, 1, 0, 0, 0, 0, time.UTC)
	c42NotYetFrom  = time.Date(2190, 1, 1, 0, 0, 0, 0, time.UTC)
	// explicit "now" for the connection manager decisions (never the wall clock)
	c42CheckNow = time.Date(2030, 1, 1, 0, 0, 0, 0, time.UTC)
)

const (
	c42Valid = iota
	c42Expired
	c42NotYet
)

var c42NetSets = [][]netip.Prefix{
	0: {netip.MustParsePrefix("10.1.0.5/16")},
	1: {netip.MustParsePrefix("10.2.0.5/16")},                                       // another network
	2: {netip.MustParsePrefix("10.1.0.6/16")},                                       // same network, another address
	3: {netip.MustParsePrefix("10.1.0.5/24")},                                       // same address, another mask
	4: {netip.MustParsePrefix("10.1.0.5/16"), netip.MustParsePrefix("10.9.0.5/16")}, // extra secondary network
	5: {netip.MustParsePrefix("10.9.0.5/16"), netip.MustParsePrefix("10.1.0.5/16")}, // reordered (other primary in a v1 certificate; v2 certificates are issued sorted)
	6: {netip.MustParsePrefix("10.1.0.5/16"), netip.MustParsePrefix("fd00::5/64")},  // v2 only
	7: {netip.MustParsePrefix("fd00::5/64")},                                        // v2 only
	8: {netip.MustParsePrefix("fd00::5/64"), netip.MustParsePrefix("10.1.0.5/16")},  // v2 only
}

func c42NetsOKForV1(i int) bool { return i <= 5 }

type c42CA struct {
	id      string
	curve   cert.Curve
	crt     cert.Certificate
	priv    []byte
	pem     string
	fp      string
	expired bool
}

type c42Key struct {
	curve cert.Curve
	pub   []byte
	priv  []byte
	pem   string
}

// c42Spec describes one host certificate of the node.
type c42Spec struct {
	Ver  int // 1 or 2
	Key  int // index into keys (0,1 = X25519 ; 2,3 = P256)
	Nets int // index into c42NetSets
	Val  int // c42Valid / c42Expired / c42NotYet
	CA   int // signer variant 0/1 (of the certificate's curve)
}

func (s c42Spec) String() string {
	return fmt.Sprintf("v%d/k%d/n%d/%s/ca%d", s.Ver, s.Key, s.Nets, [...]string{"valid", "expired", "notyet"}[s.Val], s.CA)
}

type c42Cert struct {
	crt cert.Certificate
	pem string
	fp  string
}

type c42Peer struct {
	ca    int // index into cas
	crt   cert.Certificate
	fp    string
	altFP string
	hi    *HostInfo
}

type c42Mat struct {
	cas   []*c42CA // 0:A 1:B (25519) 2:P 3:Q (P256) 4:X (25519, expired)
	keys  []*c42Key
	certs map[c42Spec]*c42Cert
	fpOf  map[string]c42Spec
	peers []*c42Peer
	t     testing.TB
	// a host certificate PEM that is NOT a CA (for "host cert inside the CA bundle") and a CA PEM used as host cert
	allFPs []string
}

func c42NewMat(t testing.TB) *c42Mat {
	m := &c42Mat{certs: map[c42Spec]*c42Cert{}, fpOf: map[string]c42Spec{}, t: t}
	mk := func(id string, curve cert.Curve, to time.Time, expired bool) {
		c, _, priv, pem := cert_test.NewTestCaCert(cert.Version2, curve, c42CAFrom, to, nil, nil, nil)
		fp, err := c.Fingerprint()
		if err != nil {
			t.Fatal(err)
		}
		m.cas = append(m.cas, &c42CA{id: id, curve: curve, crt: c, priv: priv, pem: string(pem), fp: fp, expired: expired})
	}
	mk("A", cert.Curve_CURVE25519, c42CATo, false)
	mk("B", cert.Curve_CURVE25519, c42CATo, false)
	mk("P", cert.Curve_P256, c42CATo, false)
	mk("Q", cert.Curve_P256, c42CATo, false)
	mk("X", cert.Curve_CURVE25519, c42CAExpiredTo, true)
	for i := 0; i < 4; i++ {
		k := &c42Key{}
		if i < 2 {
			k.curve = cert.Curve_CURVE25519
			k.pub, k.priv = cert_test.X25519Keypair()
		} else {
			k.curve = cert.Curve_P256
			k.pub, k.priv = cert_test.P256Keypair()
		}
		k.pem = string(cert.MarshalPrivateKeyToPEM(k.curve, k.priv))
		m.keys = append(m.keys, k)
	}
	// peers for the connection-manager decisions: two signed by A, one by B, one P256 peer signed by P
	for i, ca := range []int{0, 0, 1, 2} {
		var pub []byte
		if m.cas[ca].curve == cert.Curve_P256 {
			pub, _ = cert_test.P256Keypair()
		} else {
			pub, _ = cert_test.X25519Keypair()
		}
		tbs := &cert.TBSCertificate{Version: cert.Version2, Curve: m.cas[ca].curve, Name: fmt.Sprintf("peer%d", i),
			Networks:  []netip.Prefix{netip.PrefixFrom(netip.AddrFrom4([4]byte{10, 1, 1, byte(10 + i)}), 16)},
			NotBefore: c42HostFrom, NotAfter: c42HostTo, PublicKey: pub}
		c, err := tbs.Sign(m.cas[ca].crt, m.cas[ca].curve, m.cas[ca].priv)
		if err != nil {
			t.Fatal(err)
		}
		fp, _ := c.Fingerprint()
		alt, _ := cert.CalculateAlternateFingerprint(c)
		m.peers = append(m.peers, &c42Peer{ca: ca, crt: c, fp: fp, altFP: alt})
		m.allFPs = append(m.allFPs, fp)
		if alt != "" {
			m.allFPs = append(m.allFPs, alt)
		}
	}
	m.allFPs = append(m.allFPs, strings.Repeat("ab", 32))
	return m
}

// netsOf is what the issued certificate really carries (v2 certificates are issued with sorted networks).
func (m *c42Mat) netsOf(s c42Spec) []netip.Prefix { return m.cert(m.t, s).crt.Networks() }

func (m *c42Mat) signer(s c42Spec) *c42CA {
	if m.keys[s.Key].curve == cert.Curve_P256 {
		return m.cas[2+s.CA]
	}
	return m.cas[s.CA]
}

func (m *c42Mat) cert(t testing.TB, s c42Spec) *c42Cert {
	if c, ok := m.certs[s]; ok {
		return c
	}
	k := m.keys[s.Key]
	ca := m.signer(s)
	from, to := c42HostFrom, c42HostTo
	switch s.Val {
	case c42Expired:
		to = c42ExpiredTo
	case c42NotYet:
		from = c42NotYetFrom
	}
	tbs := &cert.TBSCertificate{Version: cert.Version(s.Ver), Curve: k.curve, Name: "node", Networks: slices.Clone(c42NetSets[s.Nets]),
		NotBefore: from, NotAfter: to, PublicKey: k.pub}
	c, err := tbs.Sign(ca.crt, ca.curve, ca.priv)
	if err != nil {
		t.Fatalf("C42: cannot sign %v: %v", s, err)
	}
	pem, err := c.MarshalPEM()
	if err != nil {
		t.Fatal(err)
	}
	fp, _ := c.Fingerprint()
	cc := &c42Cert{crt: c, pem: string(pem), fp: fp}
	m.certs[s] = cc
	m.fpOf[fp] = s
	return cc
}

// ---------------------------------------------------------------------------------------------------------------
// configurations

const (
	c42CertJunkNone     = iota
	c42CertJunkGarbage  // pki.cert is a PEM-looking blob that is no certificate
	c42CertJunkTrailing // valid blocks followed by junk
	c42CertJunkCA       // a CA certificate used as host certificate
	c42CertJunkEmpty    // pki.cert missing
	c42CertJunkNoFile   // path to a file that does not exist
	c42CertJunkMax
)

const (
	c42KeyGarbage = -1
	c42KeyEmpty   = -2
	c42KeyNoFile  = -3
)

const (
	c42CAJunkNone      = iota
	c42CAJunkGarbage   // PEM-looking blob that is no certificate
	c42CAJunkNoFile    // path that does not exist
	c42CAJunkEmpty     // pki.ca missing
	c42CAJunkDir       // path to a directory
	c42CAJunkTruncated // a CA PEM cut in the middle
	c42CAJunkTrailing  // valid CAs followed by junk          (ambiguous: all-or-nothing is all we demand)
	c42CAJunkHostCert  // valid CAs plus a non-CA certificate  (ambiguous)
	c42CAJunkMax
)

type c42Cfg struct {
	Certs    []c42Spec
	CertJunk int
	Key      int
	InitVer  int // 0 unset
	CAs      []int
	CAJunk   int
	Block    []string // fingerprints
}

func (c *c42Cfg) clone() *c42Cfg {
	n := *c
	n.Certs = slices.Clone(c.Certs)
	n.CAs = slices.Clone(c.CAs)
	n.Block = slices.Clone(c.Block)
	return &n
}

func (c *c42Cfg) String() string {
	var sb strings.Builder
	sb.WriteString("certs=[")
	for i, s := range c.Certs {
		if i > 0 {
			sb.WriteByte(' ')
		}
		sb.WriteString(s.String())
	}
	fmt.Fprintf(&sb, "] certjunk=%d key=%d initver=%d cas=%v cajunk=%d block=%d", c.CertJunk, c.Key, c.InitVer, c.CAs, c.CAJunk, len(c.Block))
	return sb.String()
}

const c42Garbage = "-----BEGIN NEBULA CERTIFICATE V2-----\nbm90IGEgY2VydGlmaWNhdGUgYXQgYWxs\n-----END NEBULA CERTIFICATE V2-----\n"

func (m *c42Mat) yaml(t testing.TB, c *c42Cfg) string {
	pki := map[string]any{}
	var sb strings.Builder
	for _, s := range c.Certs {
		sb.WriteString(m.cert(t, s).pem)
	}
	switch c.CertJunk {
	case c42CertJunkNone:
		if sb.Len() > 0 {
			pki["cert"] = sb.String()
		}
	case c42CertJunkGarbage:
		pki["cert"] = c42Garbage
	case c42CertJunkTrailing:
		pki["cert"] = sb.String() + "trailing junk that is not PEM\n"
	case c42CertJunkCA:
		pki["cert"] = m.cas[0].pem
	case c42CertJunkEmpty:
	case c42CertJunkNoFile:
		pki["cert"] = "/nonexistent/verif-c42/host.crt"
	}
	switch {
	case c.Key >= 0:
		pki["key"] = m.keys[c.Key].pem
	case c.Key == c42KeyGarbage:
		pki["key"] = "-----BEGIN NEBULA X25519 PRIVATE KEY-----\nAAAA\n-----END NEBULA X25519 PRIVATE KEY-----\n"
	case c.Key == c42KeyNoFile:
		pki["key"] = "/nonexistent/verif-c42/host.key"
	}
	if c.InitVer != 0 {
		pki["initiating_version"] = c.InitVer
	}
	sb.Reset()
	for _, i := range c.CAs {
		sb.WriteString(m.cas[i].pem)
	}
	switch c.CAJunk {
	case c42CAJunkNone:
		if sb.Len() > 0 {
			pki["ca"] = sb.String()
		}
	case c42CAJunkGarbage:
		pki["ca"] = c42Garbage
	case c42CAJunkNoFile:
		pki["ca"] = "/nonexistent/verif-c42/ca.crt"
	case c42CAJunkEmpty:
	case c42CAJunkDir:
		pki["ca"] = "/"
	case c42CAJunkTruncated:
		p := m.cas[0].pem
		pki["ca"] = p[:len(p)/2]
	case c42CAJunkTrailing:
		pki["ca"] = sb.String() + "trailing junk that is not PEM\n"
	case c42CAJunkHostCert:
		pki["ca"] = sb.String() + m.cert(t, c42Spec{Ver: 2, Key: 0, Nets: 0, Val: c42Valid, CA: 0}).pem
	}
	if len(c.Block) > 0 {
		pki["blocklist"] = c.Block
	}
	b, err := yaml.Marshal(map[string]any{"pki": pki})
	if err != nil {
		t.Fatal(err)
	}
	return string(b)
}

// ---------------------------------------------------------------------------------------------------------------
// model

type c42Ident struct {
	nets  string
	curve cert.Curve
}

func c42NetsStr(n []netip.Prefix) string {
	s := make([]string, len(n))
	for i, p := range n {
		s[i] = p.String()
	}
	return strings.Join(s, ",")
}

// c42CertClass classifies the certificate half of a configuration from the statement's point of view:
//
//	"ok"              loadable, every statement-level requirement met
//	"refuse:<why>"    the statement demands refusal regardless of the previous state
//	"unspec:<why>"    malformed in a way the statement does not talk about (either outcome is fine, but all-or-nothing)
//
// and returns the v1/v2 specs the configuration would put in use.
func (m *c42Mat) certClass(c *c42Cfg) (class string, v1, v2 *c42Spec) {
	if c.CertJunk != c42CertJunkNone {
		return fmt.Sprintf("unspec:cert-junk-%d", c.CertJunk), nil, nil
	}
	if c.Key < 0 {
		return "unspec:key-junk", nil, nil
	}
	if len(c.Certs) == 0 {
		return "unspec:no-cert", nil, nil
	}
	for i := range c.Certs {
		s := &c.Certs[i]
		if s.Ver == 1 {
			if v1 != nil {
				return "unspec:dup-version", nil, nil
			}
			v1 = s
		} else {
			if v2 != nil {
				return "unspec:dup-version", nil, nil
			}
			v2 = s
		}
	}
	for _, s := range c.Certs {
		if s.Val != c42Valid {
			return "refuse:expired", v1, v2
		}
	}
	for _, s := range c.Certs {
		if s.Key != c.Key {
			if m.keys[s.Key].curve != m.keys[c.Key].curve {
				return "refuse:key-curve-mismatch", v1, v2
			}
			return "refuse:key-mismatch", v1, v2
		}
	}
	if v1 != nil && v2 != nil {
		if m.netsOf(*v1)[0] != m.netsOf(*v2)[0] {
			return "refuse:v1v2-primary-differs", v1, v2
		}
	}
	if c.InitVer == 3 {
		return "unspec:bad-initiating-version", v1, v2
	}
	if c.InitVer == 1 && v1 == nil {
		return "unspec:initiating-version-1-without-v1", v1, v2
	}
	return "ok", v1, v2
}

func (m *c42Mat) identOf(v1, v2 *c42Spec) c42Ident {
	s := v2
	if s == nil {
		s = v1
	}
	return c42Ident{nets: c42NetsStr(m.netsOf(*s)), curve: m.keys[s.Key].curve}
}

func c42Shape(v1, v2 bool) string {
	switch {
	case v1 && v2:
		return "v1v2"
	case v1:
		return "v1"
	case v2:
		return "v2"
	}
	return "none"
}

func c42ShapeTo(s string) string {
	if s == "v1" || s == "v2" {
		return s + "-only"
	}
	return s
}

// c42CAClass: "readable", "unreadable" or "ambiguous".
func (m *c42Mat) caClass(c *c42Cfg) string {
	switch c.CAJunk {
	case c42CAJunkGarbage, c42CAJunkNoFile, c42CAJunkEmpty, c42CAJunkDir, c42CAJunkTruncated:
		return "unreadable"
	case c42CAJunkTrailing, c42CAJunkHostCert:
		return "ambiguous"
	}
	if len(c.CAs) == 0 {
		return "unreadable" // pki.ca missing
	}
	live := 0
	for _, i := range c.CAs {
		if !m.cas[i].expired {
			live++
		}
	}
	if live == 0 {
		return "ambiguous" // readable, but nothing usable in it: the statement does not say
	}
	return "readable"
}

// c42Trust is the trust configuration in force according to the model.
type c42Trust struct {
	cas   map[string]bool // fingerprints of all CAs of the bundle
	live  map[string]bool // the non-expired ones
	block map[string]bool
}

func (m *c42Mat) trustOf(c *c42Cfg) *c42Trust {
	tr := &c42Trust{cas: map[string]bool{}, live: map[string]bool{}, block: map[string]bool{}}
	for _, i := range c.CAs {
		tr.cas[m.cas[i].fp] = true
		if !m.cas[i].expired {
			tr.live[m.cas[i].fp] = true
		}
	}
	for _, b := range c.Block {
		tr.block[b] = true
	}
	return tr
}

func (tr *c42Trust) mustDisconnect(m *c42Mat, p *c42Peer) (bool, string) {
	if tr.block[p.fp] || (p.altFP != "" && tr.block[p.altFP]) {
		return true, "blocklisted"
	}
	if !tr.live[m.cas[p.ca].fp] {
		return true, "untrusted"
	}
	return false, "trusted"
}

// ---------------------------------------------------------------------------------------------------------------
// observation of the real state

type c42Snap struct {
	ptr                *CertState
	v1, v2             cert.Certificate
	v1fp, v2fp         string
	v1cred, v2cred     any
	key                string
	initVer            cert.Version
	nets, addrs        string
	cipher             string
	netTab, addrTab, b any
}

func c42FP(c cert.Certificate) string {
	if c == nil {
		return ""
	}
	fp, _ := c.Fingerprint()
	return fp
}

func c42TakeSnap(cs *CertState) c42Snap {
	as := make([]string, len(cs.myVpnAddrs))
	for i, a := range cs.myVpnAddrs {
		as[i] = a.String()
	}
	return c42Snap{ptr: cs, v1: cs.v1Cert, v2: cs.v2Cert, v1fp: c42FP(cs.v1Cert), v2fp: c42FP(cs.v2Cert),
		v1cred: cs.v1Credential, v2cred: cs.v2Credential, key: string(cs.privateKey), initVer: cs.initiatingVersion,
		nets: c42NetsStr(cs.myVpnNetworks), addrs: strings.Join(as, ","), cipher: cs.cipher,
		netTab: cs.myVpnNetworksTable, addrTab: cs.myVpnAddrsTable, b: cs.myVpnBroadcastAddrsTable}
}

func c42ObservedIdent(cs *CertState) (c42Ident, string) {
	c := cs.v2Cert
	if c == nil {
		c = cs.v1Cert
	}
	return c42Ident{nets: c42NetsStr(c.Networks()), curve: c.Curve()}, c42Shape(cs.v1Cert != nil, cs.v2Cert != nil)
}

func c42PubOf(curve cert.Curve, priv []byte) []byte {
	var k *ecdh.PrivateKey
	var err error
	if curve == cert.Curve_P256 {
		k, err = ecdh.P256().NewPrivateKey(priv)
	} else {
		k, err = ecdh.X25519().NewPrivateKey(priv)
	}
	if err != nil {
		return nil
	}
	return k.PublicKey().Bytes()
}

// c42CheckInvariants checks "the v1 and v2 certificates in use always share one key pair and primary network" and that
// everything derived from the certificates agrees with them. Returns "" or a description.
func c42CheckInvariants(cs *CertState) (key, what string) {
	if cs.v1Cert == nil && cs.v2Cert == nil {
		return "C42/no-certificate-in-use", "state without any certificate"
	}
	if cs.v1Cert != nil && cs.v1Cert.Version() != cert.Version1 || cs.v2Cert != nil && cs.v2Cert.Version() != cert.Version2 {
		return "C42/wrong-version-slot", "certificate stored in the slot of the other version"
	}
	if cs.v1Cert != nil && cs.v2Cert != nil {
		if !bytes.Equal(cs.v1Cert.PublicKey(), cs.v2Cert.PublicKey()) {
			return "C42/v1-v2-key-differs", "v1 and v2 certificates in use have different public keys"
		}
		if cs.v1Cert.Curve() != cs.v2Cert.Curve() {
			return "C42/v1-v2-curve-differs", "v1 and v2 certificates in use have different curves"
		}
		if cs.v1Cert.Networks()[0] != cs.v2Cert.Networks()[0] {
			return "C42/v1-v2-primary-network-differs", fmt.Sprintf("v1 primary %v, v2 primary %v", cs.v1Cert.Networks()[0], cs.v2Cert.Networks()[0])
		}
	}
	for _, c := range []cert.Certificate{cs.v1Cert, cs.v2Cert} {
		if c == nil {
			continue
		}
		if !cs.pkcs11Backed {
			pub := c42PubOf(c.Curve(), cs.privateKey)
			if pub == nil || !bytes.Equal(pub, c.PublicKey()) {
				return "C42/private-key-not-pair-of-certificate", fmt.Sprintf("private key in use is not the pair of the v%d certificate's public key", c.Version())
			}
		}
	}
	if (cs.v1Cert == nil) != (cs.v1Credential == nil) || (cs.v2Cert == nil) != (cs.v2Credential == nil) {
		return "C42/credential-slot-mismatch", "credential present without certificate or the reverse"
	}
	if cs.v1Credential != nil && cs.v1Credential.Cert != cs.v1Cert || cs.v2Credential != nil && cs.v2Credential.Cert != cs.v2Cert {
		return "C42/credential-of-other-certificate", "handshake credential does not carry the certificate in use"
	}
	if cs.getCertificate(cs.initiatingVersion) == nil {
		return "C42/initiating-version-without-certificate", fmt.Sprintf("initiating version %d has no certificate", cs.initiatingVersion)
	}
	id, _ := c42ObservedIdent(cs)
	if c42NetsStr(cs.myVpnNetworks) != id.nets {
		return "C42/derived-networks-inconsistent", fmt.Sprintf("myVpnNetworks=%v but certificates say %s", cs.myVpnNetworks, id.nets)
	}
	c := cs.v2Cert
	if c == nil {
		c = cs.v1Cert
	}
	if len(cs.myVpnAddrs) != len(c.Networks()) {
		return "C42/derived-addrs-inconsistent", "myVpnAddrs length differs from the networks in use"
	}
	for i, n := range c.Networks() {
		if cs.myVpnAddrs[i] != n.Addr() {
			return "C42/derived-addrs-inconsistent", fmt.Sprintf("myVpnAddrs[%d]=%v, certificate says %v", i, cs.myVpnAddrs[i], n.Addr())
		}
		if !cs.myVpnAddrsTable.Contains(n.Addr()) || !cs.myVpnNetworksTable.Contains(n.Addr()) {
			return "C42/derived-tables-inconsistent", fmt.Sprintf("own address %v missing from the lookup tables", n.Addr())
		}
	}
	// a handful of addresses that belong to no network set at all / to a network but are not our address
	for _, s := range []string{"10.1.0.7", "10.2.0.6", "10.9.0.6", "fd00::6", "192.0.2.1"} {
		a := netip.MustParseAddr(s)
		if cs.myVpnAddrsTable.Contains(a) {
			return "C42/derived-tables-inconsistent", fmt.Sprintf("%v reported as one of our addresses", a)
		}
		in := false
		for _, n := range c.Networks() {
			if n.Contains(a) {
				in = true
			}
		}
		if cs.myVpnNetworksTable.Contains(a) != in {
			return "C42/derived-tables-inconsistent", fmt.Sprintf("network table says %v for %v, certificates say %v", !in, a, in)
		}
	}
	return "", ""
}

// pool content as observable from outside the cert package
func (m *c42Mat) poolSnap(p *cert.CAPool) string {
	fps := p.GetFingerprints()
	sort.Strings(fps)
	var sb strings.Builder
	sb.WriteString(strings.Join(fps, ","))
	sb.WriteString("|")
	for _, f := range m.allFPs {
		if p.IsBlocklisted(f) {
			sb.WriteString(f[:8])
			sb.WriteByte(',')
		}
	}
	return sb.String()
}

func (m *c42Mat) poolWant(c *c42Cfg) string {
	tr := m.trustOf(c)
	var fps []string
	for f := range tr.cas {
		fps = append(fps, f)
	}
	sort.Strings(fps)
	var sb strings.Builder
	sb.WriteString(strings.Join(fps, ","))
	sb.WriteString("|")
	for _, f := range m.allFPs {
		if tr.block[f] {
			sb.WriteString(f[:8])
			sb.WriteByte(',')
		}
	}
	return sb.String()
}

// ---------------------------------------------------------------------------------------------------------------
// generator

func (m *c42Mat) randNets(rng interface{ IntN(int) int }, ver int) int {
	for {
		i := rng.IntN(len(c42NetSets))
		if ver == 2 || c42NetsOKForV1(i) {
			return i
		}
	}
}

func (m *c42Mat) genInitial(rng interface {
	IntN(int) int
}) *c42Cfg {
	c := &c42Cfg{}
	key := rng.IntN(4)
	shape := rng.IntN(3) // v1, v2, both
	ca := rng.IntN(2)
	if shape == 0 || shape == 2 {
		c.Certs = append(c.Certs, c42Spec{Ver: 1, Key: key, Nets: []int{0, 0, 0, 4, 1, 5}[rng.IntN(6)], CA: ca})
	}
	if shape == 1 || shape == 2 {
		n := []int{0, 0, 6, 4, 7, 8, 1}[rng.IntN(7)]
		if shape == 2 {
			// something with the same primary most of the time
			n1 := c.Certs[0].Nets
			switch rng.IntN(4) {
			case 0:
				n = n1
			case 1:
				if c42NetSets[n1][0] == c42NetSets[0][0] {
					n = []int{0, 4, 6}[rng.IntN(3)]
				} else {
					n = n1
				}
			case 2:
				n = n1
			}
		}
		c.Certs = append(c.Certs, c42Spec{Ver: 2, Key: key, Nets: n, CA: ca})
	}
	c.Key = key
	c.CAs = []int{0, 2}
	switch rng.IntN(4) {
	case 0:
		c.CAs = []int{0, 1, 2, 3}
	case 1:
		c.CAs = []int{0, 1, 2, 4}
	}
	if rng.IntN(8) == 0 {
		c.InitVer = 1 + rng.IntN(2)
	}
	return c
}

// c42Mutate applies one random edit; returns a label for the evidence.
func (m *c42Mat) mutate(rng interface{ IntN(int) int }, c *c42Cfg) string {
	pick := func() int { return rng.IntN(len(c.Certs)) }
	otherVer := func(v int) int { return 3 - v }
	switch op := rng.IntN(24); op {
	case 0: // renewal: same identity, other signer
		for i := range c.Certs {
			c.Certs[i].CA ^= 1
		}
		return "renew"
	case 1: // rotate the key pair (same curve) consistently
		if c.Key < 0 {
			c.Key = 0
		}
		nk := c.Key ^ 1
		for i := range c.Certs {
			c.Certs[i].Key = nk
		}
		c.Key = nk
		return "rotate-key"
	case 2: // private key no longer matches
		if c.Key < 0 {
			c.Key = 0
		}
		if rng.IntN(2) == 0 {
			c.Key ^= 1
		} else {
			c.Key = (c.Key + 2) % 4
		}
		return "mismatch-key"
	case 3: // only one certificate moves to another key
		if len(c.Certs) > 0 {
			i := pick()
			c.Certs[i].Key ^= 1
		}
		return "one-cert-other-key"
	case 4, 5: // all certificates move to another network set
		n := rng.IntN(len(c42NetSets))
		for i := range c.Certs {
			if c.Certs[i].Ver == 2 || c42NetsOKForV1(n) {
				c.Certs[i].Nets = n
			}
		}
		return "change-networks"
	case 6: // one certificate moves
		if len(c.Certs) > 0 {
			i := pick()
			c.Certs[i].Nets = m.randNets(rng, c.Certs[i].Ver)
		}
		return "change-networks-one"
	case 7, 8: // add the missing version
		if len(c.Certs) == 1 {
			s := c.Certs[0]
			s.Ver = otherVer(s.Ver)
			if rng.IntN(2) == 0 || (s.Ver == 1 && !c42NetsOKForV1(s.Nets)) {
				s.Nets = m.randNets(rng, s.Ver)
			}
			c.Certs = append(c.Certs, s)
			return "add-version"
		}
		fallthrough
	case 9, 10: // drop one version
		if len(c.Certs) >= 2 {
			i := pick()
			c.Certs = append(c.Certs[:i], c.Certs[i+1:]...)
			return "drop-version"
		}
		fallthrough
	case 11, 12, 13: // v1-only <-> v2-only
		if len(c.Certs) == 1 {
			s := &c.Certs[0]
			s.Ver = otherVer(s.Ver)
			lbl := "switch-version-same-networks"
			if rng.IntN(2) == 0 || (s.Ver == 1 && !c42NetsOKForV1(s.Nets)) {
				s.Nets = m.randNets(rng, s.Ver)
				lbl = "switch-version-other-networks"
			}
			if rng.IntN(4) == 0 {
				s.Key = (s.Key + 2) % 4
				c.Key = s.Key
				lbl += "-other-curve"
			}
			return lbl
		}
		return "noop"
	case 14: // expiry
		if len(c.Certs) > 0 {
			i := pick()
			c.Certs[i].Val = 1 + rng.IntN(2)
		}
		return "expire"
	case 15: // whole identity moves to the other curve
		if c.Key < 0 {
			c.Key = 0
		}
		nk := (c.Key + 2) % 4
		for i := range c.Certs {
			c.Certs[i].Key = nk
		}
		c.Key = nk
		return "change-curve"
	case 16:
		c.CertJunk = 1 + rng.IntN(c42CertJunkMax-1)
		return "cert-junk"
	case 17:
		c.Key = -1 - rng.IntN(3)
		return "key-junk"
	case 18:
		c.InitVer = rng.IntN(4)
		return "initiating-version"
	case 19: // duplicate version / reorder
		if len(c.Certs) > 0 && rng.IntN(2) == 0 {
			s := c.Certs[pick()]
			s.CA ^= 1
			c.Certs = append(c.Certs, s)
			return "dup-version"
		}
		slices.Reverse(c.Certs)
		return "reorder"
	case 20, 21: // trust store
		switch rng.IntN(6) {
		case 0:
			c.CAs = []int{0, 2}
		case 1:
			c.CAs = []int{1, 3}
		case 2:
			c.CAs = []int{0, 1, 2, 3, 4}
		case 3:
			c.CAs = []int{4}
		case 4:
			c.CAs = []int{rng.IntN(5)}
		case 5:
			c.CAs = nil
			for i := 0; i < 5; i++ {
				if rng.IntN(2) == 0 {
					c.CAs = append(c.CAs, i)
				}
			}
		}
		c.CAJunk = c42CAJunkNone
		return "change-cas"
	case 22:
		c.CAJunk = 1 + rng.IntN(c42CAJunkMax-1)
		return "ca-junk"
	default: // blocklist
		c.Block = nil
		for _, f := range m.allFPs {
			if rng.IntN(4) == 0 {
				c.Block = append(c.Block, f)
			}
		}
		return "blocklist"
	}
}

// ---------------------------------------------------------------------------------------------------------------
// the monitor

type c42Step struct {
	Moves    string `json:"moves"`
	Config   string `json:"config"`
	Accepted bool   `json:"certs_accepted"`
	PoolNew  bool   `json:"pool_replaced"`
}

func TestVerifC42Reload(t *testing.T) {
	r := verifkit.NewReporter(t, "C42", "reload",
		"history = one PKI created from a generated configuration followed by 8 config reloads (the SIGHUP callback path); every reload is 1-3 random edits (renew, rotate key, mismatched key, change networks of all/one certificate, add/drop/switch certificate version, expire, change curve, junk cert/key, initiating_version, CA set, unreadable CA bundle, blocklist) of the configuration in force or of the last attempt; distinct = distinct (state before, configuration) pairs; distinct_keys = (shape before, shape offered, certificate class, identity same?, CA class, verdicts) classes")
	defer r.Done()
	l := slog.New(slog.DiscardHandler)
	m := c42NewMat(t)
	histories := verifkit.Scale(5000, 300000)
	const steps = 8

	// bootstrap pool that trusts every CA, only used to build the peers' CachedCertificates like a handshake would
	boot := cert.NewCAPool()
	for _, ca := range m.cas[:4] {
		if err := boot.AddCA(ca.crt); err != nil {
			t.Fatal(err)
		}
	}
	cached := make([]*cert.CachedCertificate, len(m.peers))
	for i, p := range m.peers {
		cc, err := boot.VerifyCertificate(c42CheckNow, p.crt)
		if err != nil {
			t.Fatal(err)
		}
		cached[i] = cc
	}

	for h := 0; h < histories; h++ {
		if !verifkit.Mine(h) {
			continue
		}
		rng := verifkit.SubRand("C42hist", h)
		init := m.genInitial(rng)
		if rng.IntN(10) == 0 {
			m.mutate(rng, init)
		}
		var hist []c42Step
		replay := func(extra map[string]any) any {
			rec := map[string]any{"history": h, "initial": init.String(), "reloads": slices.Clone(hist),
				"legend": "cert spec = v<version>/k<key 0,1:X25519 2,3:P256>/n<network set>/<validity>/ca<signer variant>; network sets: " + c42LegendNets()}
			for k, v := range extra {
				rec[k] = v
			}
			return rec
		}
		r.Pre("history %d initial %s", h, init)

		conf := config.NewC(l)
		if err := conf.LoadString(m.yaml(t, init)); err != nil {
			t.Fatalf("C42: yaml: %v", err)
		}
		var pki *PKI
		var ierr error
		if r.Guard("C42/panic", func() any { return replay(nil) }, func() { pki, ierr = NewPKIFromConfig(l, conf) }) {
			continue
		}
		iclass, iv1, iv2 := m.certClass(init)
		r.Eval(1)
		if ierr != nil || pki == nil {
			r.Count("initial_refused", 1)
			r.DistinctClass("initial refused class=" + iclass + " ca=" + m.caClass(init))
			continue
		}
		r.Count("initial_accepted", 1)
		if strings.HasPrefix(iclass, "refuse:") {
			r.Violation("C42/initial-"+strings.TrimPrefix(iclass, "refuse:")+"-accepted", "initial configuration accepted although "+iclass, replay(nil))
			continue
		}
		if m.caClass(init) == "unreadable" {
			r.Violation("C42/initial-unreadable-ca-accepted", "initial configuration accepted with an unreadable CA bundle", replay(nil))
			continue
		}
		if k, what := c42CheckInvariants(pki.getCertState()); k != "" {
			r.Violation(k, "after initial load: "+what, replay(nil))
			continue
		}
		_ = iv1
		_ = iv2
		cur := init.clone()      // configuration whose certificates are in force
		trust := m.trustOf(init) // trust configuration in force (model)
		last := init.clone()

		// connection manager with the peers "handshaked" into its hostmap
		hostMap := newHostMap(l)
		pr := []netip.Prefix{}
		hostMap.preferredRanges.Store(&pr)
		ifce := &Interface{hostMap: hostMap, l: l, pki: pki}
		ifce.disconnectInvalid.Store(true) // the default of pki.disconnect_invalid
		cm := newConnectionManagerFromConfig(l, config.NewC(l), hostMap, NewPunchyFromConfig(l, config.NewC(l), nil))
		cm.intf = ifce
		ifce.connectionManager = cm
		hostMap.Lock()
		for i, p := range m.peers {
			p.hi = &HostInfo{vpnAddrs: []netip.Addr{p.crt.Networks()[0].Addr()}, localIndexId: uint32(100 + i), remoteIndexId: uint32(200 + i),
				ConnectionState: &ConnectionState{myCert: pki.getCertState().GetDefaultCertificate(), peerCert: cached[i]}}
			hostMap.unlockedAddHostInfo(p.hi, ifce)
		}
		hostMap.Unlock()

		for s := 0; s < steps; s++ {
			base := cur
			if rng.IntN(5) == 0 {
				base = last
			}
			cfg := base.clone()
			if base == cur {
				// the CA / blocklist half continues from the last attempt half of the time
				if rng.IntN(2) == 0 {
					cfg.CAs, cfg.CAJunk, cfg.Block = slices.Clone(last.CAs), last.CAJunk, slices.Clone(last.Block)
				} else {
					cfg.CAJunk = c42CAJunkNone
				}
				cfg.CertJunk = c42CertJunkNone
			}
			var moves []string
			for n := 1 + rng.IntN(3); n > 0; n-- {
				moves = append(moves, m.mutate(rng, cfg))
			}
			last = cfg.clone()
			y := m.yaml(t, cfg)
			step := c42Step{Moves: strings.Join(moves, "+"), Config: cfg.String()}
			hist = append(hist, step)
			r.Pre("history %d initial %s steps %v", h, init, hist)

			before := c42TakeSnap(pki.getCertState())
			idBefore, shapeBefore := c42ObservedIdent(before.ptr)
			poolBefore := pki.GetCAPool()
			poolSnapBefore := m.poolSnap(poolBefore)

			var rerr error
			if r.Guard("C42/panic", func() any { return replay(map[string]any{"yaml": y}) }, func() { rerr = conf.ReloadConfigString(y) }) {
				break
			}
			if rerr != nil {
				t.Fatalf("C42: ReloadConfigString: %v", rerr)
			}
			r.Eval(1)

			after := pki.getCertState()
			accepted := after != before.ptr
			poolAfter := pki.GetCAPool()
			poolNew := poolAfter != poolBefore
			hist[len(hist)-1].Accepted, hist[len(hist)-1].PoolNew = accepted, poolNew
			rp := func() any { return replay(map[string]any{"yaml_of_last_reload": y}) }

			class, v1, v2 := m.certClass(cfg)
			caClass := m.caClass(cfg)
			shapeOffered := "none"
			identSame := "n/a"
			if v1 != nil || v2 != nil {
				shapeOffered = c42Shape(v1 != nil, v2 != nil)
				if m.identOf(v1, v2) == idBefore {
					identSame = "same"
				} else {
					identSame = "differs"
				}
			}
			r.DistinctClass(fmt.Sprintf("%s->%s class=%s ident=%s accepted=%v | ca=%s poolnew=%v", shapeBefore, shapeOffered, class, identSame, accepted, caClass, poolNew))
			r.Distinct(cur.String() + " => " + cfg.String())
			if r.WantSample() && s == 0 {
				r.Sample(map[string]any{"before": cur.String(), "offered": cfg.String(), "moves": step.Moves, "certs_accepted": accepted, "pool_replaced": poolNew})
			}
			bad := false
			viol := func(key, what string) {
				r.Violation(key, what, rp())
				bad = true
			}

			// ---- certificates
			if accepted {
				r.Count("reload_accepted", 1)
				idAfter, shapeAfter := c42ObservedIdent(after)
				if strings.HasPrefix(class, "refuse:") {
					viol("C42/"+strings.TrimPrefix(class, "refuse:")+"-accepted", fmt.Sprintf("reload accepted although the statement demands refusal (%s): %s", class, cfg))
				}
				// the state in use must be exactly what the configuration offers
				wantV1, wantV2, wantKey := "", "", ""
				if strings.HasPrefix(class, "unspec:") && (v1 == nil && v2 == nil) {
					viol("C42/accepted-state-not-from-config", fmt.Sprintf("malformed configuration (%s) produced a new certificate state", class))
				} else {
					if v1 != nil {
						wantV1 = m.cert(t, *v1).fp
					}
					if v2 != nil {
						wantV2 = m.cert(t, *v2).fp
					}
					if cfg.Key >= 0 {
						wantKey = string(m.keys[cfg.Key].priv)
					}
					if c42FP(after.v1Cert) != wantV1 || c42FP(after.v2Cert) != wantV2 || string(after.privateKey) != wantKey {
						viol("C42/accepted-state-not-from-config", fmt.Sprintf("accepted state holds v1=%.8s v2=%.8s, configuration offers v1=%.8s v2=%.8s (or another key)", c42FP(after.v1Cert), c42FP(after.v2Cert), wantV1, wantV2))
					}
				}
				for _, c := range []cert.Certificate{after.v1Cert, after.v2Cert} {
					if c == nil {
						continue
					}
					if sp, ok := m.fpOf[c42FP(c)]; ok && sp.Val != c42Valid {
						viol("C42/expired-certificate-in-use", fmt.Sprintf("certificate %v is in use after the reload", sp))
					}
				}
				if k, what := c42CheckInvariants(after); k != "" {
					viol(k, "after accepted reload: "+what)
				}
				if idAfter != idBefore {
					changed := "curve"
					if idAfter.nets != idBefore.nets {
						changed = "network"
					}
					viol(fmt.Sprintf("C42/%s-to-%s-%s-change-accepted", shapeBefore, c42ShapeTo(shapeAfter), changed),
						fmt.Sprintf("reload accepted and the node's identity changed: %s [%s] %s -> %s [%s] %s", shapeBefore, idBefore.nets, idBefore.curve, shapeAfter, idAfter.nets, idAfter.curve))
				}
				if string(after.privateKey) != before.key {
					r.Count("accepted_with_new_key_pair", 1)
				}
				cur = cfg.clone()
				cur.CertJunk = c42CertJunkNone
			} else {
				r.Count("reload_refused", 1)
				now := c42TakeSnap(pki.getCertState())
				if now != before {
					viol("C42/refused-but-state-changed", "the certificate state object was kept but its content changed")
				}
				if k, what := c42CheckInvariants(now.ptr); k != "" {
					viol(k, "after refused reload: "+what)
				}
				if class == "ok" && identSame == "same" {
					r.Count("refused_although_identity_kept", 1)
					r.Count("refused_although_identity_kept:"+shapeBefore+"->"+shapeOffered, 1)
				}
			}

			// ---- trust store
			snapAfter := m.poolSnap(poolAfter)
			switch caClass {
			case "unreadable":
				r.Count("ca_unreadable", 1)
				if poolNew || snapAfter != poolSnapBefore {
					viol("C42/unreadable-ca-replaced-trust-store", fmt.Sprintf("CA bundle unreadable (cajunk=%d) but the trust store changed", cfg.CAJunk))
				}
			case "readable":
				r.Count("ca_readable", 1)
				if !poolNew {
					viol("C42/readable-ca-not-applied", "readable CA bundle / blocklist was not put in force")
				} else if snapAfter != m.poolWant(cfg) {
					viol("C42/trust-store-not-from-config", "the trust store in force does not hold exactly the configured CAs and blocklist")
				}
				trust = m.trustOf(cfg)
			default:
				r.Count("ca_ambiguous", 1)
				if poolNew {
					tr := m.trustOf(cfg)
					for _, f := range poolAfter.GetFingerprints() {
						if !tr.cas[f] {
							viol("C42/trust-store-not-from-config", "trust store holds a CA that the configuration does not list")
						}
					}
					trust = tr
				} else if snapAfter != poolSnapBefore {
					viol("C42/unreadable-ca-replaced-trust-store", "trust store object kept but its content changed")
				}
			}
			if !poolNew {
				r.Count("pool_retained", 1)
			} else {
				r.Count("pool_replaced", 1)
			}

			// ---- connection manager: the decision of the next check for every peer
			for i, p := range m.peers {
				want, why := trust.mustDisconnect(m, p)
				p.hi.in.Store(true)
				p.hi.out.Store(true)
				p.hi.pendingDeletion.Store(false)
				var dec trafficDecision
				var inv bool
				if r.Guard("C42/panic", rp, func() {
					inv = cm.isInvalidCertificate(c42CheckNow, p.hi)
					dec, _, _ = cm.makeTrafficDecision(p.hi.localIndexId, c42CheckNow)
				}) {
					bad = true
					break
				}
				r.Count("check_"+why, 1)
				if want && (dec != closeTunnel || !inv) {
					viol("C42/"+why+"-peer-not-disconnected", fmt.Sprintf("peer %d is %s under the trust configuration in force but the check decided %d (invalid=%v)", i, why, dec, inv))
				}
				if !want && (dec == closeTunnel || dec == deleteTunnel || inv) {
					viol("C42/trusted-peer-disconnected", fmt.Sprintf("peer %d is trusted and not blocklisted under the trust configuration in force but the check decided %d (invalid=%v)", i, dec, inv))
				}
			}
			if bad && r.NViolations() > 12 {
				return
			}
			if bad {
				break
			}
		}
	}
}

func c42LegendNets() string {
	var sb strings.Builder
	for i, n := range c42NetSets {
		fmt.Fprintf(&sb, "n%d=[%s] ", i, c42NetsStr(n))
	}
	return sb.String()
}
