package nebula

// C20 reference side (shared by the C20 monitors of package iputil and package nebula and by C21;
// /verif/monitors/_root/verif_c20_ref_test.go is a verbatim copy with another package clause).
//
// Nothing in this file calls or is derived from the code under test.
//
//   - c20RefParse: an independent IPv4 / IPv6 classifier written from RFC 791, RFC 8200 (section 4, extension
//     headers), RFC 4302 (AH length), RFC 792 / RFC 4443 (ICMP layouts). The extension header walker has no
//     iteration limit other than the packet length.
//   - c20GpParse: the same facts as found by gopacket (github.com/google/gopacket/layers), the "full parser"
//     of the property statement. Only layers that gopacket decoded without error are used as facts.
//   - c20CrossCheck: the two references must agree wherever gopacket has an opinion (oracle self check).
//   - c20Gen*: the packet generator (a pure function of the PRNG handed in).
//
// Cells the statement leaves open and how they are fixed here:
//   - "extension header" = {0 hop-by-hop, 43 routing, 44 fragment, 51 AH, 60 destination options} (the set the
//     statement's quantifier names). Everything else, including 59/135/139/140/253/254, is an upper-layer
//     protocol value that is reported as is.
//   - ports are defined for TCP(6) and UDP(17); the ICMP identifier for ICMPv4 (proto 1 in IPv4: bytes 4..5 of
//     the ICMP message, as gopacket's ICMPv4.Id) and for ICMPv6 echo request/reply (proto 58 in IPv6). Protocols
//     that have ports in the same position by layout (DCCP 33, SCTP 132, UDP-Lite 136) are not judged on ports.
//     Every other protocol has no ports: the reported ports must be 0.
//   - the buffer is the packet: the IP length fields are not used to shorten or reject the buffer (gopacket
//     facts are only used when the length field does not cut the buffer short).
//   - header length of a non-first IPv6 fragment: offset of the fragment header or the offset behind it.

import (
	"encoding/binary"
	"fmt"
	"math/rand/v2"
	"net/netip"
	"strings"

	"github.com/google/gopacket"
	"github.com/google/gopacket/layers"
)

func c20IsExt(p uint8) bool { return p == 0 || p == 43 || p == 44 || p == 51 || p == 60 }

const (
	c20PortsNone     = 0 // protocol has no ports: reported ports must be 0/0
	c20PortsPorts    = 1 // source/destination port
	c20PortsICMPID   = 2 // ICMP identifier
	c20PortsUnjudged = 3 // ports by layout only (SCTP, DCCP, UDP-Lite)
)

type c20Step struct {
	typ uint8 // extension header type
	off int   // where it starts
	n   int   // its length in bytes
}

// c20Ref is what the independent parser finds in a byte string.
type c20Ref struct {
	v6       bool
	ipOK     bool // version and fixed header (addresses) found
	chainOK  bool // upper-layer protocol, header length and fragment status found
	l4OK     bool // ports / identifier found (or not applicable)
	why      string
	src, dst netip.Addr
	proto    uint8
	hdrLen   int
	hdrLen2  int // second admissible header length (non-first IPv6 fragment), else == hdrLen
	nonFirst bool
	anyFrag  bool
	kind     int
	sport    uint16
	dport    uint16
	id       uint16
	nExt     int       // extension headers walked completely
	nSeen    int       // extension headers entered (type and length bytes readable), complete or not
	steps    []c20Step // the walk
	lenField int       // total length the IP length field claims (v6: 40 + payload length)
	icmpType int       // -1 unless the upper layer is ICMP and its type byte is present
}

func (f *c20Ref) parseable() bool { return f.ipOK && f.chainOK && f.l4OK }

func (f *c20Ref) lenConsistent(data []byte) bool { return f.ipOK && f.lenField == len(data) }

func c20RefParse(data []byte) (f c20Ref) {
	f.icmpType = -1
	if len(data) < 1 {
		f.why = "empty"
		return
	}
	switch data[0] >> 4 {
	case 4:
		c20RefV4(data, &f)
	case 6:
		f.v6 = true
		c20RefV6(data, &f)
	default:
		f.why = "version"
	}
	return
}

func c20RefV4(data []byte, f *c20Ref) {
	if len(data) < 20 {
		f.why = "v4-short"
		return
	}
	ihl := int(data[0]&0x0f) * 4
	if ihl < 20 {
		f.why = "v4-ihl"
		return
	}
	if len(data) < ihl {
		f.why = "v4-hdr-trunc"
		return
	}
	f.ipOK = true
	f.src = netip.AddrFrom4([4]byte(data[12:16]))
	f.dst = netip.AddrFrom4([4]byte(data[16:20]))
	f.lenField = int(data[2])<<8 | int(data[3])
	f.proto = data[9]
	f.hdrLen, f.hdrLen2 = ihl, ihl
	fragOff := (int(data[6])&0x1f)<<8 | int(data[7])
	mf := data[6]&0x20 != 0
	f.nonFirst = fragOff != 0
	f.anyFrag = mf || fragOff != 0
	f.chainOK = true
	c20RefL4(data, f, 1)
}

func c20RefV6(data []byte, f *c20Ref) {
	if len(data) < 40 {
		f.why = "v6-short"
		return
	}
	f.ipOK = true
	f.src = netip.AddrFrom16([16]byte(data[8:24]))
	f.dst = netip.AddrFrom16([16]byte(data[24:40]))
	f.lenField = 40 + (int(data[4])<<8 | int(data[5]))
	nh := data[6]
	off := 40
	for c20IsExt(nh) {
		if off+2 > len(data) {
			f.why = "v6-ext-trunc"
			f.proto, f.hdrLen = nh, off
			return
		}
		f.nSeen++
		var n int
		switch nh {
		case 44:
			n = 8
		case 51:
			n = (int(data[off+1]) + 2) * 4
		default:
			n = (int(data[off+1]) + 1) * 8
		}
		if off+n > len(data) {
			f.why = "v6-ext-overrun"
			f.proto, f.hdrLen = nh, off
			return
		}
		if nh == 44 {
			f.anyFrag = true
			fo := (int(data[off+2])<<8 | int(data[off+3])) >> 3
			if fo != 0 {
				f.nonFirst = true
				f.proto = data[off]
				f.hdrLen, f.hdrLen2 = off, off+8
				f.steps = append(f.steps, c20Step{44, off, 8})
				f.nExt++
				if c20IsExt(f.proto) {
					// the upper-layer protocol is in another fragment: it cannot be determined
					f.why = "v6-nonfirst-frag-next-is-ext"
					return
				}
				f.chainOK = true
				f.kind = c20PortsNone
				f.l4OK = true
				return
			}
		}
		f.steps = append(f.steps, c20Step{nh, off, n})
		f.nExt++
		nh = data[off]
		off += n
	}
	f.proto = nh
	f.hdrLen, f.hdrLen2 = off, off
	f.chainOK = true
	c20RefL4(data, f, 58)
}

// c20RefL4 finds ports / identifier. icmpProto is the ICMP flavour that belongs to the IP version.
func c20RefL4(data []byte, f *c20Ref, icmpProto uint8) {
	off := f.hdrLen
	if f.nonFirst {
		f.kind = c20PortsNone
		f.l4OK = true
		return
	}
	switch {
	case f.proto == 6 || f.proto == 17:
		f.kind = c20PortsPorts
		if off+4 > len(data) {
			f.why = "l4-trunc"
			return
		}
		f.sport = binary.BigEndian.Uint16(data[off:])
		f.dport = binary.BigEndian.Uint16(data[off+2:])
		f.l4OK = true
	case f.proto == icmpProto:
		f.kind = c20PortsICMPID
		if off+1 > len(data) {
			f.why = "l4-trunc"
			return
		}
		f.icmpType = int(data[off])
		if f.v6 && f.icmpType != 128 && f.icmpType != 129 {
			// no identifier in this message
			f.id = 0
			f.l4OK = true
			return
		}
		if off+6 > len(data) {
			f.why = "l4-trunc"
			return
		}
		f.id = binary.BigEndian.Uint16(data[off+4:])
		f.l4OK = true
	case f.proto == 33 || f.proto == 132 || f.proto == 136:
		f.kind = c20PortsUnjudged
		f.l4OK = true
	default:
		f.kind = c20PortsNone
		f.l4OK = true
	}
}

// ---------------------------------------------------------------------------------------------
// gopacket facts

type c20Gp struct {
	ipOK     bool
	src, dst netip.Addr
	steps    []c20Step // extension headers gopacket decoded without error, in order
	stepsEnd bool      // the chain ended in a decoded non-extension next header value
	proto    uint8
	off      int
	nonFirst bool
	anyFrag  bool
	hasPorts bool
	sport    uint16
	dport    uint16
	hasID    bool
	id       uint16
	hasType  bool
	icmpType int
	trimmed  bool // the IP length field cut the buffer short: facts not comparable with "buffer is the packet"
	note     string
}

var c20GpOpts = gopacket.DecodeOptions{NoCopy: true}

// c20GpGood lists the layers gopacket decoded successfully: a layer followed by a decode failure may be the
// one that failed (some decoders add their layer before returning the error), so it is not a fact.
func c20GpGood(p gopacket.Packet) []gopacket.Layer {
	ls := p.Layers()
	out := ls[:0:0]
	for i, l := range ls {
		if l.LayerType() == gopacket.LayerTypeDecodeFailure {
			break
		}
		if i+1 < len(ls) && ls[i+1].LayerType() == gopacket.LayerTypeDecodeFailure {
			break
		}
		out = append(out, l)
	}
	return out
}

func c20GpParse(data []byte) (g c20Gp) {
	g.icmpType = -1
	if len(data) < 1 {
		return
	}
	var first gopacket.LayerType
	switch data[0] >> 4 {
	case 4:
		first = layers.LayerTypeIPv4
	case 6:
		first = layers.LayerTypeIPv6
	default:
		return
	}
	off := 0
	cur := data
	lt := first
	nh := -1
	for round := 0; round < 64; round++ {
		p := gopacket.NewPacket(cur, lt, c20GpOpts)
		reenter := false
		stop := false
		ext := func(typ uint8, n int, next layers.IPProtocol) {
			if first == layers.LayerTypeIPv4 {
				stop = true // IPv6 extension header numbers are plain protocol numbers in IPv4
				return
			}
			g.steps = append(g.steps, c20Step{typ, off, n})
			off += n
			nh = int(next)
			g.stepsEnd = !c20IsExt(uint8(nh))
		}
		for _, l := range c20GpGood(p) {
			switch v := l.(type) {
			case *layers.IPv4:
				if g.ipOK {
					stop = true // an encapsulated packet: not our business
					break
				}
				g.ipOK = true
				g.src, _ = netip.AddrFromSlice(v.SrcIP)
				g.dst, _ = netip.AddrFromSlice(v.DstIP)
				if int(v.Length) < len(data) {
					g.trimmed = true
				}
				off += len(v.Contents)
				nh = int(v.Protocol)
				g.nonFirst = v.FragOffset != 0
				g.anyFrag = v.FragOffset != 0 || v.Flags&layers.IPv4MoreFragments != 0
				g.stepsEnd = true
			case *layers.IPv6:
				if g.ipOK {
					stop = true
					break
				}
				g.ipOK = true
				g.src, _ = netip.AddrFromSlice(v.SrcIP)
				g.dst, _ = netip.AddrFromSlice(v.DstIP)
				if 40+int(v.Length) < len(data) {
					g.trimmed = true
				}
				off += len(v.Contents)
				nh = int(v.NextHeader)
				g.stepsEnd = !c20IsExt(uint8(nh))
			case *layers.IPv6HopByHop:
				ext(0, len(v.Contents), v.NextHeader)
			case *layers.IPv6Destination:
				ext(60, len(v.Contents), v.NextHeader)
			case *layers.IPv6Routing:
				ext(43, len(v.Contents), v.NextHeader)
			case *layers.IPSecAH:
				ext(51, len(v.Contents), v.NextHeader)
			case *layers.IPv6Fragment:
				if first == layers.LayerTypeIPv4 {
					stop = true
					break
				}
				g.steps = append(g.steps, c20Step{44, off, len(v.Contents)})
				g.anyFrag = true
				nh = int(v.NextHeader)
				if v.FragmentOffset != 0 {
					g.nonFirst = true
					g.off = off
					g.proto = uint8(nh)
					g.stepsEnd = true
					return
				}
				off += len(v.Contents)
				g.stepsEnd = !c20IsExt(uint8(nh))
			case *gopacket.Fragment:
				// gopacket does not look into fragments: continue behind the fragment header of a
				// first fragment with the decoder that belongs to the next header value.
				stop = true
				if !g.nonFirst && nh >= 0 {
					nlt := layers.IPProtocol(nh).LayerType()
					if nlt != gopacket.LayerTypeZero && nlt != gopacket.LayerTypePayload && len(v.LayerContents()) > 0 {
						cur = v.LayerContents()
						lt = nlt
						reenter = true
					}
				}
			case *layers.TCP:
				g.hasPorts, g.sport, g.dport = true, uint16(v.SrcPort), uint16(v.DstPort)
				stop = true
			case *layers.UDP:
				g.hasPorts, g.sport, g.dport = true, uint16(v.SrcPort), uint16(v.DstPort)
				stop = true
			case *layers.ICMPv4:
				g.hasID, g.id = true, v.Id
				g.hasType, g.icmpType = true, int(v.TypeCode.Type())
				stop = true
			case *layers.ICMPv6:
				g.hasType, g.icmpType = true, int(v.TypeCode.Type())
			case *layers.ICMPv6Echo:
				g.hasID, g.id = true, v.Identifier
				stop = true
			default:
				stop = true // first upper-layer header we do not look into
			}
			if stop {
				break
			}
		}
		if !reenter {
			break
		}
	}
	if g.ipOK && nh >= 0 {
		g.proto = uint8(nh)
		g.off = off
	}
	return
}

// c20CrossCheck compares the two references; "" when they agree on everything gopacket decoded.
func c20CrossCheck(data []byte, f *c20Ref, g *c20Gp) string {
	if !g.ipOK || g.trimmed {
		return ""
	}
	if !f.ipOK {
		return "gopacket decoded an IP header, reference did not"
	}
	if f.src != g.src || f.dst != g.dst {
		return fmt.Sprintf("addresses: ref %v>%v gopacket %v>%v", f.src, f.dst, g.src, g.dst)
	}
	for i, s := range g.steps {
		if i >= len(f.steps) || f.steps[i] != s {
			return fmt.Sprintf("extension header %d: gopacket %+v, reference walk %+v", i, s, f.steps)
		}
	}
	if !f.v6 {
		if f.nonFirst != g.nonFirst || f.anyFrag != g.anyFrag {
			return fmt.Sprintf("v4 fragment status: ref nonfirst=%v any=%v gopacket %v %v", f.nonFirst, f.anyFrag, g.nonFirst, g.anyFrag)
		}
	}
	if g.stepsEnd && len(g.steps) == len(f.steps) && f.chainOK {
		if f.proto != g.proto {
			return fmt.Sprintf("upper protocol: ref %d gopacket %d", f.proto, g.proto)
		}
		if f.hdrLen != g.off {
			return fmt.Sprintf("upper-layer offset: ref %d gopacket %d", f.hdrLen, g.off)
		}
		if f.v6 && (f.nonFirst != g.nonFirst || f.anyFrag != g.anyFrag) {
			return fmt.Sprintf("v6 fragment status: ref nonfirst=%v any=%v gopacket %v %v", f.nonFirst, f.anyFrag, g.nonFirst, g.anyFrag)
		}
		if g.hasPorts && !f.nonFirst {
			if f.kind != c20PortsPorts || !f.l4OK || f.sport != g.sport || f.dport != g.dport {
				return fmt.Sprintf("ports: ref kind=%d ok=%v %d>%d gopacket %d>%d", f.kind, f.l4OK, f.sport, f.dport, g.sport, g.dport)
			}
		}
		if g.hasID && !f.nonFirst && f.kind == c20PortsICMPID {
			if !f.l4OK || f.id != g.id {
				return fmt.Sprintf("icmp id: ref ok=%v %d gopacket %d", f.l4OK, f.id, g.id)
			}
		}
		if g.hasType && !f.nonFirst && f.kind == c20PortsICMPID && f.icmpType != g.icmpType {
			return fmt.Sprintf("icmp type: ref %d gopacket %d", f.icmpType, g.icmpType)
		}
	}
	return ""
}

// c20Sig is the structural signature of a case (what makes two cases "the same" for the coverage count).
func c20Sig(data []byte, f *c20Ref) string {
	var sb strings.Builder
	if !f.ipOK {
		fmt.Fprintf(&sb, "noip:%s:len%d", f.why, min(len(data), 41))
		if len(data) > 0 {
			fmt.Fprintf(&sb, ":v%d:ihl%d", data[0]>>4, data[0]&0xf)
		}
		return sb.String()
	}
	if f.v6 {
		sb.WriteString("6|")
		for _, s := range f.steps {
			fmt.Fprintf(&sb, "%d/%d,", s.typ, s.n)
		}
	} else {
		fmt.Fprintf(&sb, "4|ihl%d|", f.hdrLen)
	}
	rest := len(data) - f.hdrLen
	if rest > 9 {
		rest = 9
	}
	if rest < -1 {
		rest = -1
	}
	fmt.Fprintf(&sb, "|p%d|nf%v|af%v|%s|rest%d|k%d", f.proto, f.nonFirst, f.anyFrag, f.why, rest, f.kind)
	if f.icmpType >= 0 {
		fmt.Fprintf(&sb, "|t%d", f.icmpType)
	}
	return sb.String()
}

// ---------------------------------------------------------------------------------------------
// generator

type c20Pkt struct {
	data  []byte
	class string
	// clean: complete, self-consistent, unfragmented packet with at most 6 extension headers and a
	// complete transport header (used only for liveness counters, never for a verdict).
	clean bool
}

func c20Pick[T any](rng *rand.Rand, xs ...T) T { return xs[rng.IntN(len(xs))] }

func c20RandBytes(rng *rand.Rand, n int) []byte {
	b := make([]byte, n)
	for i := range b {
		b[i] = byte(rng.Uint32())
	}
	return b
}

func c20Edge32(rng *rand.Rand) uint32 {
	switch rng.IntN(6) {
	case 0:
		return 0
	case 1:
		return 0xffffffff - uint32(rng.IntN(3))
	case 2:
		return 0x7fffffff + uint32(rng.IntN(3))
	case 3:
		return uint32(rng.IntN(70000))
	default:
		return rng.Uint32()
	}
}

// c20GenL4 builds an upper-layer header plus payload for proto; big asks for a long payload sometimes.
func c20GenL4(rng *rand.Rand, proto uint8, v6 bool) []byte {
	pl := rng.IntN(40)
	switch rng.IntN(20) {
	case 0:
		pl = 0
	case 1:
		pl = 900 + rng.IntN(400)
	}
	switch {
	case proto == 6:
		doff := 5
		if rng.IntN(4) == 0 {
			doff = rng.IntN(16)
		}
		h := make([]byte, 20)
		binary.BigEndian.PutUint16(h[0:], c20Pick(rng, uint16(0), 22, 80, 443, 65535, uint16(rng.Uint32())))
		binary.BigEndian.PutUint16(h[2:], c20Pick(rng, uint16(0), 22, 80, 443, 65535, uint16(rng.Uint32())))
		binary.BigEndian.PutUint32(h[4:], c20Edge32(rng))
		binary.BigEndian.PutUint32(h[8:], c20Edge32(rng))
		h[12] = byte(doff<<4) | byte(rng.IntN(2))
		h[13] = byte(rng.Uint32())
		if rng.IntN(2) == 0 {
			h[13] = c20Pick(rng, byte(0x02), 0x12, 0x10, 0x18, 0x11, 0x04, 0x14, 0x01, 0x00, 0x29, 0xff)
		}
		binary.BigEndian.PutUint16(h[14:], uint16(rng.Uint32()))
		binary.BigEndian.PutUint16(h[16:], uint16(rng.Uint32()))
		if doff > 5 && rng.IntN(3) != 0 {
			h = append(h, c20RandBytes(rng, (doff-5)*4)...)
		}
		return append(h, c20RandBytes(rng, pl)...)
	case proto == 17:
		h := make([]byte, 8)
		binary.BigEndian.PutUint16(h[0:], c20Pick(rng, uint16(0), 53, 4242, 65535, uint16(rng.Uint32())))
		binary.BigEndian.PutUint16(h[2:], c20Pick(rng, uint16(0), 53, 4242, 65535, uint16(rng.Uint32())))
		binary.BigEndian.PutUint16(h[4:], uint16(8+pl))
		binary.BigEndian.PutUint16(h[6:], uint16(rng.Uint32()))
		return append(h, c20RandBytes(rng, pl)...)
	case proto == 1:
		h := make([]byte, 8)
		h[0] = c20Pick(rng, byte(0), 8, 8, 3, 4, 5, 11, 12, 13, 14, 17, 18, 9, 10, 30, byte(rng.Uint32()))
		h[1] = byte(rng.IntN(16))
		binary.BigEndian.PutUint16(h[2:], uint16(rng.Uint32()))
		binary.BigEndian.PutUint16(h[4:], c20Pick(rng, uint16(0), 1, 65535, uint16(rng.Uint32())))
		binary.BigEndian.PutUint16(h[6:], uint16(rng.Uint32()))
		return append(h, c20RandBytes(rng, pl)...)
	case proto == 58:
		h := make([]byte, 8)
		h[0] = c20Pick(rng, byte(128), 128, 129, 1, 2, 3, 4, 0, 5, 100, 127, 130, 133, 134, 135, 136, 143, 255, byte(rng.Uint32()))
		h[1] = byte(rng.IntN(8))
		binary.BigEndian.PutUint16(h[2:], uint16(rng.Uint32()))
		binary.BigEndian.PutUint16(h[4:], c20Pick(rng, uint16(0), 1, 65535, uint16(rng.Uint32())))
		binary.BigEndian.PutUint16(h[6:], uint16(rng.Uint32()))
		return append(h, c20RandBytes(rng, pl)...)
	case proto == 59:
		if rng.IntN(2) == 0 {
			return nil
		}
		return c20RandBytes(rng, rng.IntN(12))
	default:
		if rng.IntN(6) == 0 {
			return c20RandBytes(rng, rng.IntN(4))
		}
		return c20RandBytes(rng, 4+pl)
	}
}

func c20GenAddr4(rng *rand.Rand) []byte {
	switch rng.IntN(4) {
	case 0:
		return []byte{10, 0, 0, byte(1 + rng.IntN(3))}
	case 1:
		return []byte{192, 168, byte(rng.IntN(2)), byte(rng.IntN(256))}
	case 2:
		return c20Pick(rng, []byte{0, 0, 0, 0}, []byte{255, 255, 255, 255}, []byte{127, 0, 0, 1}, []byte{224, 0, 0, 1})
	}
	return c20RandBytes(rng, 4)
}

func c20GenAddr6(rng *rand.Rand) []byte {
	a := make([]byte, 16)
	switch rng.IntN(4) {
	case 0:
		a[0], a[1], a[15] = 0xfd, 0x00, byte(1+rng.IntN(3))
	case 1:
		a[0], a[1] = 0xfe, 0x80
		copy(a[8:], c20RandBytes(rng, 8))
	case 2:
		// v4-mapped / unspecified / loopback
		switch rng.IntN(3) {
		case 0:
			a[10], a[11] = 0xff, 0xff
			copy(a[12:], c20GenAddr4(rng))
		case 1:
			a[15] = 1
		}
	default:
		a = c20RandBytes(rng, 16)
	}
	return a
}

// valid IPv4 options filling n bytes (n multiple of 4)
func c20GenV4Options(rng *rand.Rand, n int) []byte {
	if n == 0 {
		return nil
	}
	if rng.IntN(4) == 0 {
		return c20RandBytes(rng, n)
	}
	o := make([]byte, 0, n)
	for len(o) < n {
		left := n - len(o)
		if left >= 4 && rng.IntN(2) == 0 {
			l := 3 + rng.IntN(min(left, 11)-2)
			o = append(o, c20Pick(rng, byte(7), 68, 131, 148), byte(l))
			o = append(o, c20RandBytes(rng, l-2)...)
		} else {
			o = append(o, 1) // NOP
		}
	}
	return o
}

func c20GenV4(rng *rand.Rand) c20Pkt {
	ihl := 5
	if rng.IntN(3) == 0 {
		ihl = 5 + rng.IntN(11)
	}
	proto := c20Pick(rng, uint8(6), 6, 6, 6, 17, 17, 17, 1, 1, 1, 58, 47, 50, 51, 132, 33, 136, 0, 2, 4, 41, 89, 255, uint8(rng.Uint32()))
	clean := true
	var ff uint16
	fragClass := "nofrag"
	switch rng.IntN(12) {
	case 0, 1:
		ff = 0x4000
		fragClass = "df"
	case 2:
		ff = 0x2000
		fragClass, clean = "first", false
	case 3:
		ff = 0x2000 | uint16(1+rng.IntN(200))
		fragClass, clean = "mid", false
	case 4:
		ff = c20Pick(rng, uint16(1), 0x1fff, 0x00ff, 0x0100, 0x1f00, uint16(1+rng.IntN(0x1fff)))
		fragClass, clean = "last", false
	case 5:
		ff = uint16(rng.Uint32())
		fragClass, clean = "randflags", false
	}
	l4 := c20GenL4(rng, proto, false)
	h := make([]byte, 20, ihl*4+len(l4))
	h[0] = 0x40 | byte(ihl)
	h[1] = byte(rng.IntN(256))
	binary.BigEndian.PutUint16(h[4:], uint16(rng.Uint32()))
	binary.BigEndian.PutUint16(h[6:], ff)
	h[8] = byte(1 + rng.IntN(255))
	h[9] = proto
	copy(h[12:], c20GenAddr4(rng))
	copy(h[16:], c20GenAddr4(rng))
	h = append(h, c20GenV4Options(rng, (ihl-5)*4)...)
	h = append(h, l4...)
	binary.BigEndian.PutUint16(h[2:], uint16(min(len(h), 65535)))
	binary.BigEndian.PutUint16(h[10:], ^c20Sum(h[:ihl*4], 0))
	mut := "ok"
	switch rng.IntN(14) {
	case 0, 1, 2:
		h = h[:rng.IntN(len(h)+1)]
		mut, clean = "trunc", false
	case 3:
		// cut close to the header / transport boundary
		cut := ihl*4 + rng.IntN(10) - 2
		if cut >= 0 && cut <= len(h) {
			h = h[:cut]
			mut, clean = "trunc-edge", false
		}
	case 4:
		binary.BigEndian.PutUint16(h[2:], c20Pick(rng, uint16(0), 19, uint16(ihl*4), uint16(ihl*4+2), uint16(len(h)+7), uint16(rng.Uint32())))
		mut, clean = "lenfield", false
	case 5:
		h[0] = 0x40 | byte(rng.IntN(5))
		mut, clean = "ihl-small", false
	case 6:
		h[rng.IntN(len(h))] ^= byte(1 << rng.IntN(8))
		mut, clean = "bitflip", false
	}
	if proto == 6 && len(l4) >= 20 && (l4[12]>>4 < 5 || int(l4[12]>>4)*4 > len(l4)) {
		clean = false
	}
	return c20Pkt{h, fmt.Sprintf("v4/ihl%d/p%d/%s/%s", ihl, proto, fragClass, mut), clean}
}

// c20GenExt builds one extension header of type typ whose next-header field is next.
func c20GenExt(rng *rand.Rand, typ, next uint8, nonFirstOK bool) []byte {
	switch typ {
	case 44:
		b := make([]byte, 8)
		b[0] = next
		b[1] = byte(c20Pick(rng, 0, 0, 0, rng.IntN(256)))
		var fo uint16
		if nonFirstOK && rng.IntN(3) == 0 {
			fo = c20Pick(rng, uint16(1), 0x1fff, 0x0020, 0x0100, uint16(1+rng.IntN(0x1fff)))
		}
		v := fo<<3 | uint16(rng.IntN(2)) | uint16(c20Pick(rng, 0, 0, 0, 2, 4, 6))
		binary.BigEndian.PutUint16(b[2:], v)
		binary.BigEndian.PutUint32(b[4:], rng.Uint32())
		return b
	case 51:
		n := c20Pick(rng, 2, 4, 4, 6, 1, 3, 0, rng.IntN(12))
		b := make([]byte, (n+2)*4)
		copy(b, c20RandBytes(rng, len(b)))
		b[0], b[1] = next, byte(n)
		b[2], b[3] = 0, 0
		return b
	case 43:
		n := c20Pick(rng, 0, 2, 2, 4, 1, 3, rng.IntN(8))
		b := make([]byte, (n+1)*8)
		copy(b, c20RandBytes(rng, len(b)))
		b[0], b[1] = next, byte(n)
		b[2] = c20Pick(rng, byte(0), 0, 0, 2, 3, 4, byte(rng.Uint32()))
		copy(b[4:8], []byte{0, 0, 0, 0})
		return b
	default: // 0, 60: options area filled with PadN / Pad1 (mostly) or random bytes
		n := c20Pick(rng, 0, 0, 0, 1, 1, 2, 3, rng.IntN(6))
		b := make([]byte, (n+1)*8)
		b[0], b[1] = next, byte(n)
		area := b[2:]
		switch rng.IntN(5) {
		case 0:
			copy(area, c20RandBytes(rng, len(area)))
		case 1:
			// Pad1 only (all zero)
		default:
			area[0] = 1
			area[1] = byte(len(area) - 2)
		}
		return b
	}
}

func c20GenChainLen(rng *rand.Rand) int {
	switch x := rng.IntN(100); {
	case x < 25:
		return 0
	case x < 55:
		return 1 + rng.IntN(3)
	case x < 70:
		return 4 + rng.IntN(4)
	case x < 78:
		return 8
	case x < 88:
		return 9
	default:
		return 10 + rng.IntN(3)
	}
}

func c20GenV6(rng *rand.Rand) c20Pkt {
	n := c20GenChainLen(rng)
	types := make([]uint8, n)
	for i := range types {
		types[i] = c20Pick(rng, uint8(60), 60, 60, 0, 43, 43, 44, 51, 51)
		if i == 0 && rng.IntN(3) == 0 {
			types[i] = 0
		}
	}
	// a run of one type now and then (the shape of the probe witness)
	if n > 0 && rng.IntN(4) == 0 {
		t := c20Pick(rng, uint8(60), 0, 43, 51, 44)
		for i := range types {
			types[i] = t
		}
	}
	upper := c20Pick(rng, uint8(6), 6, 6, 6, 17, 17, 17, 58, 58, 58, 58, 59, 135, 139, 140, 253, 254, 1, 47, 50, 132, 33, 136, 4, 41, uint8(rng.Uint32()))
	clean := n <= 6
	if c20IsExt(upper) {
		upper = 59
	}
	danglingExt := rng.IntN(40) == 0 // chain whose last next-header names an extension header that is not there
	l4 := c20GenL4(rng, upper, true)
	h := make([]byte, 40, 40+n*16+len(l4))
	h[0] = 0x60 | byte(rng.IntN(16))
	h[1], h[2], h[3] = byte(rng.Uint32()), byte(rng.Uint32()), byte(rng.Uint32())
	h[7] = byte(1 + rng.IntN(255))
	copy(h[8:], c20GenAddr6(rng))
	copy(h[24:], c20GenAddr6(rng))
	var sh strings.Builder
	nonFirstOK := true
	for i, t := range types {
		next := upper
		if i+1 < n {
			next = types[i+1]
		} else if danglingExt {
			next = c20Pick(rng, uint8(0), 43, 44, 51, 60)
		}
		e := c20GenExt(rng, t, next, nonFirstOK)
		if t == 44 {
			clean = false
		}
		fmt.Fprintf(&sh, "%d.", t)
		h = append(h, e...)
	}
	if n == 0 {
		h[6] = upper
		if danglingExt {
			h[6] = c20Pick(rng, uint8(0), 43, 44, 51, 60)
		}
	} else {
		h[6] = types[0]
	}
	if danglingExt {
		clean = false
		l4 = nil
	}
	h = append(h, l4...)
	binary.BigEndian.PutUint16(h[4:], uint16(min(len(h)-40, 65535)))
	mut := "ok"
	switch rng.IntN(16) {
	case 0, 1, 2:
		h = h[:rng.IntN(len(h)+1)]
		mut, clean = "trunc", false
	case 3, 4:
		// cut close to the end of the chain
		cut := len(h) - len(l4) + rng.IntN(12) - 3
		if cut >= 0 && cut <= len(h) {
			h = h[:cut]
			mut, clean = "trunc-edge", false
		}
	case 5:
		binary.BigEndian.PutUint16(h[4:], c20Pick(rng, uint16(0), 7, uint16(len(h)-40+8), uint16(rng.Uint32())))
		mut, clean = "lenfield", false
	case 6:
		// an extension header length that overruns
		if n > 0 {
			f := c20RefParse(h)
			if len(f.steps) > 0 {
				s := f.steps[rng.IntN(len(f.steps))]
				if s.typ != 44 {
					h[s.off+1] = c20Pick(rng, byte(255), byte(s.n/8+1), byte(rng.Uint32()))
					mut, clean = "extlen", false
				}
			}
		}
	case 7:
		h[rng.IntN(len(h))] ^= byte(1 << rng.IntN(8))
		mut, clean = "bitflip", false
	case 8:
		// flip something inside the chain
		if len(h) > 42 {
			i := 40 + rng.IntN(min(len(h)-40, n*12+2))
			h[i] = byte(rng.Uint32())
			mut, clean = "chainbyte", false
		}
	}
	if upper == 6 && len(l4) >= 20 && (l4[12]>>4 < 5 || int(l4[12]>>4)*4 > len(l4)) {
		clean = false
	}
	return c20Pkt{h, fmt.Sprintf("v6/n%d/%s/p%d/%s", n, sh.String(), upper, mut), clean}
}

func c20GenRandom(rng *rand.Rand) c20Pkt {
	n := rng.IntN(130)
	b := c20RandBytes(rng, n)
	cls := "random"
	if n > 0 {
		switch rng.IntN(10) {
		case 0:
		case 1, 2, 3, 4:
			b[0] = 0x40 | b[0]&0x0f
			if rng.IntN(2) == 0 {
				b[0] = 0x45
			}
			cls = "random4"
			if n > 9 && rng.IntN(2) == 0 {
				b[9] = c20Pick(rng, byte(6), 17, 1)
			}
			if n > 7 && rng.IntN(2) == 0 {
				b[6], b[7] = b[6]&0xc0, 0
			}
		default:
			b[0] = 0x60 | b[0]&0x0f
			cls = "random6"
			if n > 6 && rng.IntN(4) != 0 {
				b[6] = c20Pick(rng, byte(0), 43, 44, 51, 60, 6, 17, 58)
			}
			// keep random "length" bytes of would-be extension headers small so that walks go deep
			for i := 41; i < n; i += 8 {
				if rng.IntN(2) == 0 {
					b[i] = byte(rng.IntN(2))
					b[i-1] = c20Pick(rng, byte(0), 43, 44, 51, 60, 60, 6, 17, 58)
				}
			}
		}
	}
	return c20Pkt{b, cls, false}
}

func c20Gen(rng *rand.Rand) c20Pkt {
	switch x := rng.IntN(100); {
	case x < 40:
		return c20GenV4(rng)
	case x < 88:
		return c20GenV6(rng)
	default:
		return c20GenRandom(rng)
	}
}

// c20Sum is the RFC 1071 one's complement sum of data added to init (not yet complemented).
func c20Sum(data []byte, init uint32) uint16 {
	s := uint64(init)
	for i := 0; i+1 < len(data); i += 2 {
		s += uint64(data[i])<<8 | uint64(data[i+1])
	}
	if len(data)%2 == 1 {
		s += uint64(data[len(data)-1]) << 8
	}
	for s>>16 != 0 {
		s = s&0xffff + s>>16
	}
	return uint16(s)
}

// c20V6Chain builds a complete IPv6 packet with the given extension header types (minimal length each,
// fragment headers are first fragments) followed by upper and l4.
func c20V6Chain(types []uint8, upper uint8, l4 []byte) []byte {
	h := make([]byte, 40)
	h[0] = 0x60
	h[7] = 64
	h[8], h[23] = 0xfd, 1
	h[24], h[39] = 0xfd, 2
	h[6] = upper
	if len(types) > 0 {
		h[6] = types[0]
	}
	for i, t := range types {
		next := upper
		if i+1 < len(types) {
			next = types[i+1]
		}
		var e []byte
		switch t {
		case 44:
			e = []byte{next, 0, 0, 1, 0, 0, 0, 7}
		case 51:
			e = make([]byte, 16)
			e[0], e[1] = next, 2
		default:
			e = []byte{next, 0, 1, 4, 0, 0, 0, 0}
		}
		h = append(h, e...)
	}
	h = append(h, l4...)
	binary.BigEndian.PutUint16(h[4:], uint16(len(h)-40))
	return h
}
