package nebula

// C45 — SSH debug file paths stay inside the sandbox.
//
// Statement: when a sandbox directory is configured, every file path accepted by the SSH debug
// commands resolves lexically to a location strictly inside that directory, and every other path
// is refused.
//
// Reference (written from the statement, no filepath.Clean / filepath.Join): a location is
// (absolute?, number of unresolved leading "..", remaining components). A path is resolved by
// walking its '/'-separated components over a stack: "" and "." are skipped, ".." pops (at the
// root of an absolute location it stays at the root; on an empty relative location it is counted
// as one more leading ".."), anything else is pushed. A relative path starts from the sandbox
// location, an absolute one from the root. "strictly inside" = same kind, same number of leading
// "..", the sandbox components are a proper prefix of the path components.
//
// Oracle:  accepted  => the location is strictly inside the sandbox and the returned path denotes
//                       exactly that location;
//          not strictly inside => refused.
// In addition (the statement's "every other path is refused" read as: the inside ones are the
// accepted ones): a strictly-inside path must be accepted, judged under its own key and only for
// sandboxes that are a real directory below the root / the working directory. For degenerate
// sandboxes ("/", ".") over-refusal is counted but not judged.

import (
	"fmt"
	"hash/fnv"
	"io"
	"os"
	"runtime"
	"runtime/pprof"
	"strings"
	"testing"

	"github.com/slackhq/nebula/verifkit"
)

type c45Loc struct {
	abs   bool
	ups   int
	comps []string
}

func (l c45Loc) String() string {
	parts := make([]string, 0, l.ups+len(l.comps))
	for i := 0; i < l.ups; i++ {
		parts = append(parts, "..")
	}
	s := strings.Join(append(parts, l.comps...), "/")
	if l.abs {
		return "/" + s
	}
	if s == "" {
		return "."
	}
	return s
}

func (l c45Loc) equal(o c45Loc) bool {
	if l.abs != o.abs || l.ups != o.ups || len(l.comps) != len(o.comps) {
		return false
	}
	for i := range l.comps {
		if l.comps[i] != o.comps[i] {
			return false
		}
	}
	return true
}

// c45Resolve walks path p starting from base (used only when p is relative).
func c45Resolve(base c45Loc, p string) c45Loc {
	cur := c45Loc{abs: base.abs, ups: base.ups, comps: append([]string(nil), base.comps...)}
	if len(p) > 0 && p[0] == '/' {
		cur = c45Loc{abs: true}
	}
	start := 0
	for i := 0; i <= len(p); i++ {
		if i < len(p) && p[i] != '/' {
			continue
		}
		comp := p[start:i]
		start = i + 1
		switch comp {
		case "", ".":
		case "..":
			if len(cur.comps) > 0 {
				cur.comps = cur.comps[:len(cur.comps)-1]
			} else if !cur.abs {
				cur.ups++
			}
		default:
			cur.comps = append(cur.comps, comp)
		}
	}
	return cur
}

func c45StrictlyInside(loc, sb c45Loc) bool {
	if loc.abs != sb.abs || loc.ups != sb.ups || len(loc.comps) <= len(sb.comps) {
		return false
	}
	for i := range sb.comps {
		if loc.comps[i] != sb.comps[i] {
			return false
		}
	}
	return true
}

// c45Relation names how the resolved location relates to the sandbox (for the coverage classes).
func c45Relation(loc, sb c45Loc) string {
	switch {
	case c45StrictlyInside(loc, sb):
		return "inside"
	case loc.equal(sb):
		return "self"
	case loc.abs != sb.abs:
		return "other-kind"
	case loc.ups == sb.ups && len(loc.comps) < len(sb.comps) && c45StrictlyInside(sb, loc):
		return "ancestor"
	}
	// sibling whose name has the sandbox's last component as a textual prefix ("/sb" vs "/sbx/f")
	if loc.ups == sb.ups && len(sb.comps) > 0 && len(loc.comps) >= len(sb.comps) {
		n := len(sb.comps) - 1
		same := true
		for i := 0; i < n; i++ {
			if loc.comps[i] != sb.comps[i] {
				same = false
			}
		}
		if same && loc.comps[n] != sb.comps[n] && strings.HasPrefix(loc.comps[n], sb.comps[n]) {
			return "prefix-sibling"
		}
	}
	return "outside"
}

func c45SandboxClass(sandbox string, sb c45Loc) string {
	var f []string
	if sb.abs {
		f = append(f, "abs")
	} else {
		f = append(f, "rel")
	}
	if len(sb.comps) == 0 {
		if sb.ups > 0 {
			f = append(f, "only-dotdot")
		} else {
			f = append(f, "degenerate")
		}
	} else if sb.ups > 0 {
		f = append(f, "leading-dotdot")
	}
	if strings.HasSuffix(sandbox, "/") && sandbox != "/" {
		f = append(f, "trailing-sep")
	}
	if strings.Contains(sandbox, "//") {
		f = append(f, "rep-sep")
	}
	if c45HasComp(sandbox, "..") {
		f = append(f, "dotdot")
	}
	if c45HasComp(sandbox, ".") {
		f = append(f, "dot")
	}
	return strings.Join(f, "+")
}

func c45HasComp(p, c string) bool {
	for _, x := range strings.Split(p, "/") {
		if x == c {
			return true
		}
	}
	return false
}

func c45PathClass(p string) string {
	var f []string
	if strings.HasPrefix(p, "/") {
		f = append(f, "abs")
	} else {
		f = append(f, "rel")
	}
	if c45HasComp(p, "..") {
		f = append(f, "dotdot")
	}
	if c45HasComp(p, ".") {
		f = append(f, "dot")
	}
	if strings.Contains(p, "//") {
		f = append(f, "rep-sep")
	}
	if len(p) > 1 && strings.HasSuffix(p, "/") {
		f = append(f, "trailing-sep")
	}
	if p == "" {
		f = append(f, "empty")
	}
	return strings.Join(f, "+")
}

func c45Hash(a, b string) uint64 {
	h := fnv.New64a()
	h.Write([]byte(a))
	h.Write([]byte{0})
	h.Write([]byte(b))
	return h.Sum64()
}

// c45Judge runs the real sanitizer on (sandbox, path) and judges the outcome. It returns whether
// the real code accepted the path and the reference location.
func c45Judge(r *verifkit.Reporter, sandbox, path string) (accepted bool, want c45Loc, inside bool) {
	sb := c45Resolve(c45Loc{}, sandbox)
	want = c45Resolve(sb, path)
	inside = c45StrictlyInside(want, sb)
	rel := c45Relation(want, sb)
	rec := func() any {
		return map[string]any{"sandbox_dir": sandbox, "path": path, "sandbox_location": sb.String(), "reference_location": want.String(), "relation": rel}
	}
	var got string
	var err error
	r.Pre("sandbox=%q path=%q", sandbox, path)
	if r.Guard("C45/panic", rec, func() { got, err = sshSanitizeFilePath(sandbox, path) }) {
		return false, want, inside
	}
	r.Eval(1)
	accepted = err == nil
	r.DistinctU64(c45Hash(sandbox, path))
	r.DistinctClass(fmt.Sprintf("sandbox[%s] path[%s] %s accepted=%v", c45SandboxClass(sandbox, sb), c45PathClass(path), rel, accepted))
	degenerate := len(sb.comps) == 0
	switch {
	case accepted && !inside:
		key := "C45/escape"
		if degenerate && sb.ups > 0 {
			key = "C45/escape-dotdot-only-sandbox"
		}
		r.Violation(key, fmt.Sprintf("sandbox %q accepted path %q as %q, which resolves to %s (%s), not strictly inside %s", sandbox, path, got, want, rel, sb),
			map[string]any{"sandbox_dir": sandbox, "path": path, "returned": got, "sandbox_location": sb.String(), "reference_location": want.String(), "relation": rel})
	case accepted && inside:
		r.Count("accepted_inside", 1)
		// the path handed to os.Create must denote the very location that was judged
		if back := c45Resolve(c45Loc{}, got); !back.equal(want) {
			r.Violation("C45/returned-path-differs", fmt.Sprintf("sandbox %q path %q: returned %q denotes %s, the input denotes %s", sandbox, path, got, back, want),
				map[string]any{"sandbox_dir": sandbox, "path": path, "returned": got, "returned_location": back.String(), "reference_location": want.String()})
		}
	case !accepted && inside:
		if degenerate {
			r.Count("inside_refused_degenerate_sandbox(not judged)", 1)
		} else {
			r.Violation("C45/inside-refused", fmt.Sprintf("sandbox %q refused path %q (%v) although it resolves to %s, strictly inside %s", sandbox, path, err, want, sb), rec())
		}
	default:
		r.Count("refused_"+rel, 1)
	}
	return accepted, want, inside
}

var c45FixedSandboxes = []string{
	"/sb", "/sb/", "/sb//", "/var/sb", "/var/sb/", "//var//sb", "/var/./sb", "/var/x/../sb", "/var/sb/.",
	"/var/sb/x/..", "/tmp/nebula-debug", "/tmp/nebula-debug/", "/a/b/sb///", "/..//sb", "/sb/../sb", "/a/sb/./",
	"sb", "sb/", "./sb", "var/sb", "../sb", "a/../sb", "../a/sb//",
	"..", "../..", "a/../..", "../",
	"/", "//", "/.", "/..", ".", "./", "a/..",
}

func TestVerifC45Exhaustive(t *testing.T) {
	t.Parallel() // independent units, each with its own reporter
	r := verifkit.NewReporter(t, "C45", "exhaustive",
		"every path of up to L components over the alphabet {., .., empty, a, sb, sbx} (absolute and relative; an empty last component is a trailing separator) against a fixed table of sandbox directories (absolute, relative, trailing/repeated separators, dot and dot-dot inside, only-dot-dot, degenerate root/cwd); distinct = distinct (sandbox, path) pairs plus (sandbox class, path class, relation, verdict) classes")
	defer r.Done()
	// shortest witnesses of the known classes first, so that the replay file holds them
	for _, w := range [][2]string{{"/sb", "x"}, {"/sb", "../sbx/x"}, {"/sb", "/sb/../x"}, {"..", "x"}, {"..", "../x"}} {
		c45Judge(r, w[0], w[1])
	}
	alpha := []string{".", "..", "", "a", "sb", "sbx"}
	maxLen := verifkit.Scale(5, 7)
	comps := make([]string, 0, maxLen)
	caseNo := 0
	var rec func(sandbox string, depth int)
	rec = func(sandbox string, depth int) {
		if len(comps) > 0 || depth == 0 {
			body := strings.Join(comps, "/")
			for _, p := range []string{body, "/" + body} {
				if verifkit.Mine(caseNo) {
					c45Judge(r, sandbox, p)
				}
				caseNo++
			}
		}
		if depth == maxLen {
			return
		}
		for _, a := range alpha {
			comps = append(comps, a)
			rec(sandbox, depth+1)
			comps = comps[:len(comps)-1]
		}
	}
	for _, sbx := range c45FixedSandboxes {
		rec(sbx, 0)
	}
	r.Exhaustive(fmt.Sprintf("all absolute and relative paths of <=%d components over {., .., empty, a, sb, sbx} x %d sandbox directories", maxLen, len(c45FixedSandboxes)))
	r.Info("sandboxes", c45FixedSandboxes)
	// sandbox not configured: the statement does not apply; the path must come back untouched
	for _, p := range []string{"", "/", "a", "../a", "/etc/passwd", "a//b/"} {
		got, err := sshSanitizeFilePath("", p)
		r.Eval(1)
		r.Count("no_sandbox_passthrough", 1)
		if err != nil || got != p {
			r.Violation("C45/no-sandbox-not-passthrough", fmt.Sprintf("empty sandbox: path %q gave %q, %v", p, got, err), map[string]any{"path": p, "returned": got})
		}
	}
}

var c45Names = []string{"a", "b", "sb", "sbx", "s", "sb.", "..a", "...", ".a", "a b", "nebula-debug", "nebula-debugx", "nebula", "tmp", "var", "x", "sb\\", "sb\\..", "~"}

func c45GenSandbox(rng interface{ IntN(int) int }) string {
	if rng.IntN(4) == 0 {
		return c45FixedSandboxes[rng.IntN(len(c45FixedSandboxes))]
	}
	n := 1 + rng.IntN(3)
	var sb strings.Builder
	switch rng.IntN(8) {
	case 0:
	case 1:
		sb.WriteString("./")
	case 2:
		sb.WriteString("../")
	default:
		sb.WriteString("/")
	}
	for i := 0; i < n; i++ {
		if i > 0 {
			sb.WriteString("/")
		}
		switch rng.IntN(12) {
		case 0:
			sb.WriteString("/")
		case 1:
			sb.WriteString("./")
		case 2:
			sb.WriteString(c45Names[rng.IntN(len(c45Names))] + "/../")
		}
		sb.WriteString(c45Names[rng.IntN(len(c45Names))])
	}
	switch rng.IntN(8) {
	case 0:
		sb.WriteString("/")
	case 1:
		sb.WriteString("//")
	case 2:
		sb.WriteString("/.")
	}
	return sb.String()
}

func c45GenPath(rng interface{ IntN(int) int }, sandbox string, sb c45Loc) string {
	// component alphabet: specials, generic names, the sandbox's own names and near misses of them
	pick := func() string {
		switch k := rng.IntN(16); {
		case k < 3:
			return ".."
		case k < 5:
			return "."
		case k < 6:
			return ""
		case k < 10 && len(sb.comps) > 0:
			c := sb.comps[rng.IntN(len(sb.comps))]
			switch rng.IntN(6) {
			case 0:
				return c + "x"
			case 1:
				return c[:len(c)-1]
			case 2:
				return c + "."
			}
			return c
		}
		return c45Names[rng.IntN(len(c45Names))]
	}
	tail := func(n int) string {
		cs := make([]string, n)
		for i := range cs {
			cs[i] = pick()
		}
		return strings.Join(cs, "/")
	}
	canon := strings.Join(sb.comps, "/")
	switch rng.IntN(10) {
	case 0: // relative, arbitrary
		return tail(rng.IntN(7))
	case 1: // absolute, arbitrary
		return "/" + tail(rng.IntN(7))
	case 2, 3: // the sandbox string as written, glued to a suffix (siblings with the same textual prefix)
		glue := []string{"", "/", "//", "x", "x/", "/../", "/./", ".", "/..", "-old/", "/../" + canon + "/"}[rng.IntN(11)]
		return sandbox + glue + tail(rng.IntN(4))
	case 4, 5: // the resolved sandbox location, then a walk
		pre := "/"
		if !sb.abs {
			pre = strings.Repeat("../", len(sb.comps))
		}
		return pre + canon + []string{"/", "", "x/", "/./", "//", "/a/../"}[rng.IntN(6)] + tail(rng.IntN(5))
	case 6: // go down, climb back past the sandbox, maybe re-enter by name
		d := rng.IntN(3)
		up := d + rng.IntN(len(sb.comps)+2)
		p := tail(d)
		if d > 0 {
			p += "/"
		}
		p += strings.Repeat("../", up)
		if rng.IntN(2) == 0 && up-d <= len(sb.comps) && up > d {
			p += strings.Join(sb.comps[len(sb.comps)-(up-d):], "/") + "/"
		}
		return p + tail(rng.IntN(3))
	case 7: // absolute with many leading ".." (root clamps)
		return "/" + strings.Repeat("../", rng.IntN(4)) + canon + "/" + tail(rng.IntN(3))
	}
	if rng.IntN(2) == 0 {
		return "/" + tail(1+rng.IntN(10))
	}
	return tail(1 + rng.IntN(10))
}

func TestVerifC45Random(t *testing.T) {
	t.Parallel() // independent units, each with its own reporter
	r := verifkit.NewReporter(t, "C45", "random",
		"PRNG (sandbox dir, path) pairs: sandboxes from the fixed table or 1-3 generated names with leading /, ./, ../, repeated separators, '.', 'name/..' detours and trailing '/', '//', '/.'; paths are arbitrary component walks, the sandbox text or its resolved location glued to suffixes (same-prefix siblings, '/..', re-entry by name), climbs past the sandbox and root clamps; distinct = distinct (sandbox, path) pairs plus (sandbox class, path class, relation, verdict) classes")
	defer r.Done()
	n := verifkit.Scale(500_000, 50_000_000)
	for i := 0; i < n; i++ {
		if !verifkit.Mine(i) {
			continue
		}
		rng := verifkit.SubRand("C45random", i)
		sandbox := c45GenSandbox(rng)
		sb := c45Resolve(c45Loc{}, sandbox)
		path := c45GenPath(rng, sandbox, sb)
		acc, want, _ := c45Judge(r, sandbox, path)
		if r.WantSample() && i%7 == 0 {
			r.Sample(map[string]any{"sandbox_dir": sandbox, "path": path, "reference_location": want.String(), "accepted": acc})
		}
		if r.NViolations() > 8 {
			break
		}
	}
}

type c45Writer struct{ lines []string }

func (w *c45Writer) WriteLine(s string) error  { w.lines = append(w.lines, s); return nil }
func (w *c45Writer) Write(s string) error      { w.lines = append(w.lines, s); return nil }
func (w *c45Writer) WriteBytes(b []byte) error { w.lines = append(w.lines, string(b)); return nil }
func (w *c45Writer) GetWriter() io.Writer      { return io.Discard }
func (w *c45Writer) last() string {
	if len(w.lines) == 0 {
		return ""
	}
	return w.lines[len(w.lines)-1]
}

// TestVerifC45Commands drives the three real SSH debug commands that write files against a real
// directory tree and looks at the file system afterwards: a file may only ever appear strictly
// inside the sandbox directory.
func TestVerifC45Commands(t *testing.T) {
	t.Parallel() // independent units, each with its own reporter
	r := verifkit.NewReporter(t, "C45", "commands",
		"the real save-heap-profile / save-mutex-profile / start-cpu-profile handlers with a real directory tree <root>/{sb,sbx,sb.,a}: generated paths (as in unit random, absolute ones re-rooted below <root>); after every command the reference location is inspected on disk; distinct = distinct (command, path class, relation, file created) classes and (command, path) pairs")
	defer r.Done()
	root := t.TempDir()
	sandbox := root + "/sb"
	for _, d := range []string{"sb", "sb/a", "sb/b", "sb/sb", "sbx", "sb.", "a", "s"} {
		if err := os.MkdirAll(root+"/"+d, 0o755); err != nil {
			t.Fatal(err)
		}
	}
	rootLoc := c45Resolve(c45Loc{}, root)
	sbVariants := []string{sandbox, sandbox + "/", sandbox + "//", root + "//sb", root + "/a/../sb", root + "/./sb/."}
	n := verifkit.Scale(3000, 60000)
	cmds := []string{"heap", "mutex", "cpu"}
	for i := 0; i < n; i++ {
		if !verifkit.Mine(i) {
			continue
		}
		rng := verifkit.SubRand("C45commands", i)
		sbDir := sbVariants[rng.IntN(len(sbVariants))]
		sb := c45Resolve(c45Loc{}, sbDir)
		// generate against a short stand-in sandbox so that the component alphabet matches, then re-root
		standIn := c45Loc{abs: true, comps: []string{"sb"}}
		p := c45GenPath(rng, "/sb", standIn)
		if strings.HasPrefix(p, "/") && rng.IntN(8) != 0 {
			p = root + p
		}
		want := c45Resolve(sb, p)
		inside := c45StrictlyInside(want, sb)
		// never let a (mutated) sanitizer write outside the scratch root: skip targets that are not below it
		if !c45StrictlyInside(want, rootLoc) {
			r.Count("skipped_target_outside_scratch_root", 1)
			acc, _, _ := c45Judge(r, sbDir, p) // still judged, only not executed against the disk
			_ = acc
			continue
		}
		target := want.String()
		os.Remove(target)
		// make the parent exist so that an accepted path really produces a file (inside or outside the sandbox)
		if parent := (c45Loc{abs: true, comps: want.comps[:len(want.comps)-1]}); c45StrictlyInside(parent, rootLoc) {
			os.MkdirAll(parent.String(), 0o755)
		}
		cmd := cmds[rng.IntN(len(cmds))]
		w := &c45Writer{}
		r.Pre("cmd=%s sandbox=%q path=%q", cmd, sbDir, p)
		r.Guard("C45/panic", func() any { return map[string]any{"cmd": cmd, "sandbox_dir": sbDir, "path": p} }, func() {
			switch cmd {
			case "heap":
				sshGetHeapProfile(sbDir, nil, []string{p}, w)
			case "mutex":
				sshGetMutexProfile(sbDir, nil, []string{p}, w)
			case "cpu":
				sshStartCpuProfile(sbDir, nil, []string{p}, w)
				pprof.StopCPUProfile()
			}
		})
		r.Eval(1)
		st, statErr := os.Lstat(target)
		created := statErr == nil && st.Mode().IsRegular()
		rel := c45Relation(want, sb)
		r.DistinctU64(c45Hash(cmd+"\x00"+sbDir, p))
		r.DistinctClass(fmt.Sprintf("cmd=%s path[%s] %s created=%v", cmd, c45PathClass(p), rel, created))
		rec := map[string]any{"cmd": cmd, "sandbox_dir": sbDir, "path": p, "reference_location": target, "relation": rel, "reply": w.last()}
		if created {
			os.Remove(target)
			if !inside {
				r.Violation("C45/command-wrote-outside", fmt.Sprintf("%s profile command with sandbox %q and path %q created %s (%s)", cmd, sbDir, p, target, rel), rec)
			} else {
				r.Count("file_created_inside", 1)
			}
		} else if inside {
			// parent directory may not exist or the target is a directory: the command must then have said so
			if strings.Contains(w.last(), "sandbox directory") {
				r.Violation("C45/inside-refused", fmt.Sprintf("%s profile command refused %q for sandbox %q: %s", cmd, p, sbDir, w.last()), rec)
			} else {
				r.Count("inside_but_create_failed", 1)
			}
		} else {
			r.Count("refused_no_file", 1)
			if !strings.Contains(w.last(), "sandbox directory") {
				r.Violation("C45/command-not-refused", fmt.Sprintf("%s profile command with sandbox %q path %q (%s) did not answer with a refusal: %q", cmd, sbDir, p, rel, w.last()), rec)
			}
		}
		if r.WantSample() && i%5 == 0 {
			r.Sample(rec)
		}
		if i%256 == 0 {
			runtime.GC() // save-heap-profile never closes its file; let the finalizers do it
		}
		if r.NViolations() > 8 {
			break
		}
	}
}
