//go:build e2e_testing

package nebula

// C14 — unauthenticated packets have no effect.
//
// Started nodes in a synctest bubble (serialized mode). The router captures every genuine encrypted packet
// (data, lighthouse, test, close, control, relay-wrapped) and, before or after delivering the original,
// injects mutants of it at a quiescent point: header field substitutions, bit flips, truncations, tag
// stripping, cross-packet splices, from the original and from a foreign underlay address.
// Oracle: the receiver's full snapshot (hostmap, per-tunnel remote / roam / in-flag / window, pending handshakes,
// lighthouse cache, relay maps, conntrack size) is byte-identical before and after, nothing reaches the tun, and
// the only emission allowed is a stateless recv_error back to the sender for an index the receiver does not hold.
// Afterwards the withheld genuine packet must still be accepted (mutants did not poison the window).

import (
	"bytes"
	"encoding/binary"
	"fmt"
	"net/netip"
	"testing"
	"time"

	"github.com/slackhq/nebula/cert"
	"github.com/slackhq/nebula/header"
	"github.com/slackhq/nebula/verifkit"
)

type c14Mut struct {
	kind string
	data []byte
	from netip.AddrPort
}

func c14Mutants(rng interface{ IntN(int) int }, g *vnPacket, others []*vnPacket, liveIdx []uint32, budget int, exhaustiveBits bool) []c14Mut {
	var out []c14Mut
	foreign := netip.MustParseAddrPort("198.51.100.77:4000")
	add := func(kind string, d []byte) {
		if bytes.Equal(d, g.Data) {
			return // two flips of the same bit (or a rewrite to the same value): not a modification
		}
		from := g.From
		if rng.IntN(4) == 0 {
			from = foreign
			kind += "+foreign-src"
		}
		out = append(out, c14Mut{kind, d, from})
	}
	cp := func() []byte { return append([]byte(nil), g.Data...) }
	// header: type nibble (all 16), version nibble
	for ty := 0; ty < 16; ty++ {
		if header.MessageType(ty) == g.H.Type {
			continue
		}
		d := cp()
		d[0] = d[0]&0xf0 | byte(ty)
		add(fmt.Sprintf("type->%d", ty), d)
	}
	for _, v := range []byte{0, 2, 15} {
		d := cp()
		d[0] = v<<4 | d[0]&0x0f
		add("version", d)
	}
	for _, st := range []byte{0, 1, 2, 255} {
		if header.MessageSubType(st) == g.H.Subtype {
			continue
		}
		d := cp()
		d[1] = st
		add(fmt.Sprintf("subtype->%d", st), d)
	}
	for _, rs := range []uint16{1, 0x8000, 0xffff} {
		d := cp()
		binary.BigEndian.PutUint16(d[2:], rs)
		add("reserved", d)
	}
	idxs := append([]uint32{0, 1, 0xffffffff, g.H.RemoteIndex + 1}, liveIdx...)
	for _, ix := range idxs {
		if ix == g.H.RemoteIndex {
			continue
		}
		d := cp()
		binary.BigEndian.PutUint32(d[4:], ix)
		add("index", d)
	}
	c := g.H.MessageCounter
	for _, nc := range []uint64{c + 1, c - 1, c + ReplayWindow, c + 2*ReplayWindow, 0, 1, 2, ^uint64(0), ^uint64(0) - 1, 1 << 40, c ^ (1 << 63)} {
		if nc == c {
			continue
		}
		d := cp()
		binary.BigEndian.PutUint64(d[8:], nc)
		add("counter", d)
	}
	// truncations / extension / tag strip
	for l := 0; l < len(g.Data); l++ {
		if len(g.Data) > 120 && l > 40 && l < len(g.Data)-20 && l%7 != 0 {
			continue
		}
		add("truncate", append([]byte(nil), g.Data[:l]...))
	}
	add("extend", append(cp(), 0))
	add("extend", append(cp(), 1, 2, 3, 4, 5, 6, 7, 8, 9, 10, 11, 12, 13, 14, 15, 16))
	if len(g.Data) > 32 {
		d := append([]byte(nil), g.Data[:16]...)
		d = append(d, g.Data[32:]...)
		add("cut-first-block", d)
	}
	// splices: this header on another packet's body and vice versa
	for _, o := range others {
		if o == g || len(o.Data) <= header.Len {
			continue
		}
		d := append(append([]byte(nil), g.Data[:header.Len]...), o.Data[header.Len:]...)
		add("splice-body", d)
		d2 := append(append([]byte(nil), o.Data[:header.Len]...), g.Data[header.Len:]...)
		add("splice-header", d2)
	}
	// bit flips
	nbits := len(g.Data) * 8
	if exhaustiveBits || nbits <= 8*48 {
		for b := 0; b < nbits; b++ {
			d := cp()
			d[b/8] ^= 1 << (b % 8)
			add("bitflip", d)
		}
	} else {
		for i := 0; i < budget; i++ {
			b := rng.IntN(nbits)
			d := cp()
			d[b/8] ^= 1 << (b % 8)
			if rng.IntN(3) == 0 {
				b2 := rng.IntN(nbits)
				d[b2/8] ^= 1 << (b2 % 8)
			}
			add("bitflip", d)
		}
	}
	return out
}

func c14LiveIndexes(n *vnNode) []uint32 {
	var out []uint32
	n.F.hostMap.RLock()
	for i := range n.F.hostMap.Indexes {
		out = append(out, i)
	}
	for i := range n.F.hostMap.Relays {
		out = append(out, i)
	}
	for i := range n.F.hostMap.RemoteIndexes {
		out = append(out, i)
	}
	n.F.hostMap.RUnlock()
	return out
}

func c14ResetInFlags(n *vnNode) {
	n.F.hostMap.RLock()
	for _, h := range n.F.hostMap.Indexes {
		h.in.Store(false)
	}
	n.F.hostMap.RUnlock()
}

type c14Run struct {
	r         *verifkit.Reporter
	sc        int
	strict    bool
	nw        *vnNet
	rng       interface{ IntN(int) int }
	recent    []*vnPacket
	perPacket int
}

// attack injects mutants of g into its destination before g itself is delivered.
func (cr *c14Run) attack(g *vnPacket) {
	v, ok := cr.nw.byAddr[g.To]
	if !ok || v.stopped || !g.HOK || g.H.Type == header.Handshake || g.H.Type == header.RecvError || len(g.Data) < header.Len {
		return
	}
	r := cr.r
	nw := cr.nw
	c14ResetInFlags(v)
	s0 := vnSnapshot(v, true)
	tun0 := len(v.TunOut)
	muts := c14Mutants(cr.rng, g, cr.recent, c14LiveIndexes(v), cr.perPacket, cr.rng.IntN(12) == 0)
	// forged recv_error for every tunnel the victim holds, sent from that tunnel's current underlay address
	// and from a foreign one (the header is all there is to a recv_error: nothing in it is authenticated)
	v.F.hostMap.RLock()
	for _, h := range v.F.hostMap.Indexes {
		for _, from := range []netip.AddrPort{h.GetRemote(), netip.MustParseAddrPort("198.51.100.78:4001")} {
			if !from.IsValid() {
				continue
			}
			for _, idx := range []uint32{h.remoteIndexId, h.localIndexId} {
				muts = append(muts, c14Mut{"forged-recv-error", header.Encode(make([]byte, header.Len), header.Version, header.RecvError, 0, idx, 0), from})
			}
		}
	}
	v.F.hostMap.RUnlock()
	tname := header.TypeName(g.H.Type)
	if g.H.Type == header.Message && g.H.Subtype == header.MessageRelay {
		tname = "relay"
	}
	for _, mu := range muts {
		held := nw.Inflight
		nw.Inflight = nil
		r.Pre("sc=%d victim=%s genuine=%s mutant=%s from=%s data=%x", cr.sc, v.Name, g.String(), mu.kind, mu.from, mu.data)
		nw.Inject(v, mu.from, mu.data)
		nw.Settle()
		emitted := nw.Inflight
		nw.Inflight = held
		r.Eval(1)
		r.DistinctClass(fmt.Sprintf("genuine=%s mutant=%s strict=%v", tname, mu.kind, cr.strict))
		r.Distinct(fmt.Sprintf("%d %s %x", cr.sc, mu.kind, mu.data))
		var mh header.H
		mhOK := mh.Parse(mu.data) == nil
		rec := func() map[string]any {
			return map[string]any{"scenario": cr.sc, "strict": cr.strict, "victim": v.Name, "genuine": g.String(), "genuine_hex": verifkit.Hex(g.Data), "mutant_kind": mu.kind, "mutant_from": mu.from.String(), "mutant_hex": verifkit.Hex(mu.data)}
		}
		for _, e := range emitted {
			okRecv := false
			if e.Sender == v && e.HOK && e.H.Type == header.RecvError && len(e.Data) == header.Len && e.To == mu.from && mhOK && e.H.RemoteIndex == mh.RemoteIndex {
				// allowed only for an index the victim does not hold in the namespace the packet addressed
				v.F.hostMap.RLock()
				var live bool
				if mh.Type == header.Message && mh.Subtype == header.MessageRelay {
					_, live = v.F.hostMap.Relays[mh.RemoteIndex]
				} else {
					_, live = v.F.hostMap.Indexes[mh.RemoteIndex]
				}
				v.F.hostMap.RUnlock()
				okRecv = !live
			}
			if okRecv {
				r.Count("stateless_recv_error_replies", 1)
				continue
			}
			rr := rec()
			rr["emitted"] = e.String()
			r.Violation("C14/unauthenticated-packet-caused-emission", fmt.Sprintf("victim %s emitted %s after mutant %s of %s", v.Name, e.String(), mu.kind, g.String()), rr)
		}
		if len(v.TunOut) != tun0 {
			r.Violation("C14/unauthenticated-packet-delivered", fmt.Sprintf("victim %s delivered %d packet(s) to tun after mutant %s of %s", v.Name, len(v.TunOut)-tun0, mu.kind, g.String()), rec())
			tun0 = len(v.TunOut)
		}
		s1 := vnSnapshot(v, true)
		if s1 != s0 {
			key := "C14/unauthenticated-packet-changed-state"
			what := fmt.Sprintf("victim %s state changed after mutant %s of %s", v.Name, mu.kind, g.String())
			if mhOK && mh.Type == header.RecvError && !cr.strict {
				key = "C14/recv_error-from-current-remote"
				what = fmt.Sprintf("default listen.accept_recv_error: forged recv_error (mutant %s) from the peer's current underlay address tore down victim %s's tunnel", mu.kind, v.Name)
			}
			rr := rec()
			rr["before"] = s0
			rr["after"] = s1
			r.Violation(key, what, rr)
			s0 = s1
		}
	}
	r.Count("genuine_packets_attacked", 1)
}

func (cr *c14Run) pump() {
	nw := cr.nw
	for i := 0; i < 5000 && len(nw.Inflight) > 0; i++ {
		p := nw.Inflight[0]
		v := nw.byAddr[p.To]
		if v != nil && p.HOK && p.H.Type != header.Handshake && p.H.Type != header.RecvError && cr.rng.IntN(3) == 0 {
			cr.attack(p)
		}
		var before string
		var tun0 int
		if v != nil {
			before = vnSnapshot(v, false)
			tun0 = len(v.TunOut)
		}
		cr.recent = append(cr.recent, p)
		if len(cr.recent) > 6 {
			cr.recent = cr.recent[1:]
		}
		nInfl := len(nw.Inflight)
		nw.Deliver(p)
		if v != nil && p.HOK && p.H.Type != header.Handshake && p.H.Type != header.RecvError {
			if vnSnapshot(v, false) != before || len(v.TunOut) != tun0 || len(nw.Inflight) >= nInfl {
				cr.r.Count("genuine_packets_with_observable_effect", 1)
			} else {
				cr.r.Count("genuine_packets_without_observable_effect", 1)
			}
		}
	}
}

func c14Scenario(t *testing.T, r *verifkit.Reporter, sc int, strict bool) {
	rng := verifkit.SubRand("C14", sc)
	extra := m{}
	if strict {
		extra = m{"listen": m{"accept_recv_error": "never"}}
	}
	vnRunBubble(t, func(t *testing.T) {
		cr := &c14Run{r: r, sc: sc, strict: strict, rng: rng, perPacket: verifkit.Scale(24, 200)}
		var nodes []*vnNode
		if sc%2 == 0 {
			ms := vnNewMesh(t, cert.Version2, cert.Curve_CURVE25519, 3, extra)
			cr.nw = ms.NW
			nodes = append([]*vnNode{ms.L}, ms.Peers...)
		} else {
			tr := vnNewTriangle(t, cert.Version2, cert.Curve_CURVE25519, extra)
			cr.nw = tr.NW
			nodes = []*vnNode{tr.A, tr.R, tr.B}
		}
		nw := cr.nw
		defer nw.StopAll()
		cr.pump()
		steps := verifkit.Scale(14, 40)
		for i := 0; i < steps; i++ {
			switch k := rng.IntN(10); {
			case k < 6:
				a := nodes[rng.IntN(len(nodes))]
				b := nodes[rng.IntN(len(nodes))]
				if a == b || a.stopped || b.stopped {
					continue
				}
				pkt, _ := vnUDP4(a.Ident.Addr(), b.Ident.Addr(), uint16(1000+i), 80, rng.IntN(40))
				nw.TunSend(a, pkt)
			case k < 9:
				nw.Advance(time.Duration(500+rng.IntN(3000)) * time.Millisecond)
			default:
				// graceful stop of the last node produces authenticated close messages towards its peers
				last := nodes[len(nodes)-1]
				if !last.stopped && i > steps/2 {
					nw.StopNode(last)
				}
			}
			cr.pump()
		}
		nw.Advance(12 * time.Second)
		cr.pump()
		if sc < 2 {
			r.Sample(map[string]any{"scenario": sc, "strict": strict, "topology": map[bool]string{true: "lighthouse mesh", false: "relay triangle"}[sc%2 == 0], "udp_packets_seen": len(nw.Archive)})
		}
	})
}

func TestVerifC14Strict(t *testing.T) {
	r := verifkit.NewReporter(t, "C14", "strict",
		"listen.accept_recv_error=never; lighthouse mesh and relay triangle scenarios; for a third of all genuine encrypted packets (data, lighthouse, test, close, control, relay) a burst of mutants (all type nibbles, version, subtype, reserved, index -> live/foreign indexes, counter +-1/+W/0/max, every truncation, extension, block cut, cross-packet splices, bit flips: exhaustive for short packets and a sample, PRNG otherwise) is injected before the original; distinct = distinct mutant byte strings, classes = (genuine type, mutant kind)")
	defer r.Done()
	n := verifkit.Scale(4, 80)
	for sc := 0; sc < n; sc++ {
		if verifkit.Mine(sc) {
			c14Scenario(t, r, sc, true)
		}
	}
}

func TestVerifC14Default(t *testing.T) {
	r := verifkit.NewReporter(t, "C14", "default",
		"same workload under the default listen.accept_recv_error (always): any state change is a violation; the documented teardown by a forged recv_error from the peer's current underlay address is keyed separately")
	defer r.Done()
	n := verifkit.Scale(2, 20)
	for sc := 0; sc < n; sc++ {
		if verifkit.Mine(sc) {
			c14Scenario(t, r, 1000+sc, false)
		}
	}
}
