//go:build !e2e_testing

package nebula

// C49, real-socket variant. Built WITHOUT e2e_testing: real udp sockets on 127.0.0.1 (port 0), tun.disabled, real time,
// no synctest bubble. Observations: the set of entries in /proc/self/fd before nebula.Main and after Stop+Wait, the
// goroutines carrying the node's pprof label, the behaviour of a second Stop.
//
// There is no virtual clock here, so nothing is decided by elapsed time: "did not happen within the polling bound" is
// reported as inconclusive (the hang / never-stops verdicts belong to the bubble unit). What this unit adds is that the
// real descriptors (udp sockets, listeners) are gone and that the production udp reader (blocked in a receive system
// call, not on a channel) is woken up by Stop.

import (
	"bytes"
	"context"
	"errors"
	"fmt"
	"log/slog"
	"net"
	"net/netip"
	"os"
	"runtime/pprof"
	"sort"
	"strings"
	"testing"
	"time"

	"github.com/slackhq/nebula/cert"
	"github.com/slackhq/nebula/cert_test"
	"github.com/slackhq/nebula/config"
	"github.com/slackhq/nebula/verifkit"
	"go.yaml.in/yaml/v3"
)

const c49rAttempts = 3000 // x 10 ms

func c49rFds() map[string]string {
	out := map[string]string{}
	ents, err := os.ReadDir("/proc/self/fd")
	if err != nil {
		return out
	}
	for _, e := range ents {
		t, err := os.Readlink("/proc/self/fd/" + e.Name())
		if err != nil {
			continue // the descriptor of the directory listing itself
		}
		out[e.Name()] = t
	}
	return out
}

func c49rNewFds(base, now map[string]string) []string {
	var out []string
	for k, v := range now {
		if bv, ok := base[k]; !ok || bv != v {
			out = append(out, k+"->"+v)
		}
	}
	sort.Strings(out)
	return out
}

// c49rForeverBlocked returns the stack of a goroutine that mentions the pointer ptr (the node's Interface) and is parked
// on a nil channel or in a select without cases.
func c49rForeverBlocked(ptr string) string {
	var buf bytes.Buffer
	pprof.Lookup("goroutine").WriteTo(&buf, 2)
	for _, blk := range strings.Split(buf.String(), "\n\n") {
		hdr, _, _ := strings.Cut(blk, "\n")
		if !(strings.Contains(hdr, "(nil chan)") || strings.Contains(hdr, "select (no cases)")) {
			continue
		}
		if strings.Contains(blk, ptr) {
			return blk
		}
	}
	return ""
}

type c49rCA struct {
	c   cert.Certificate
	key []byte
	pem []byte
}

type c49rNode struct {
	name  string
	label string
	vpn   netip.Addr
	c     *Control
	cfg   *config.C
}

func (n *c49rNode) do(f func()) {
	pprof.Do(context.Background(), pprof.Labels("c49node", n.label), func(context.Context) { f() })
}

func c49rBuild(ca *c49rCA, label, name, nets string, over m) (*c49rNode, error) {
	return c49rBuildL(ca, label, name, nets, over, slog.New(slog.DiscardHandler))
}

func c49rBuildL(ca *c49rCA, label, name, nets string, over m, l *slog.Logger) (*c49rNode, error) {
	now := time.Now()
	var pfx []netip.Prefix
	for _, s := range strings.Split(nets, ",") {
		pfx = append(pfx, netip.MustParsePrefix(s))
	}
	_, _, keyPEM, certPEM := cert_test.NewTestCert(cert.Version2, cert.Curve_CURVE25519, ca.c, ca.key, name, now.Add(-time.Hour), now.Add(24*time.Hour), pfx, nil, []string{"g"})
	mc := m{
		"pki":      m{"ca": string(ca.pem), "cert": string(certPEM), "key": string(keyPEM)},
		"firewall": m{"outbound": []m{{"proto": "any", "port": "any", "host": "any"}}, "inbound": []m{{"proto": "any", "port": "any", "host": "any"}}},
		"listen":   m{"host": "127.0.0.1", "port": 0},
		"tun":      m{"disabled": true},
		"logging":  m{"level": "error"},
	}
	mc = c49rMerge(mc, over)
	cb, err := yaml.Marshal(mc)
	if err != nil {
		return nil, err
	}
	c := config.NewC(l)
	if err := c.LoadString(string(cb)); err != nil {
		return nil, err
	}
	n := &c49rNode{name: name, label: label + "/" + name, vpn: pfx[0].Addr(), cfg: c}
	n.do(func() { n.c, err = Main(c, false, "verif", l, nil) })
	return n, err
}

func c49rMerge(a, b m) m {
	out := m{}
	for k, v := range a {
		out[k] = v
	}
	for k, v := range b {
		if bm, ok := v.(m); ok {
			if am, ok2 := out[k].(m); ok2 {
				out[k] = c49rMerge(am, bm)
				continue
			}
		}
		out[k] = v
	}
	return out
}

func (n *c49rNode) port() int {
	a, err := n.c.f.outside.LocalAddr()
	if err != nil {
		return 0
	}
	return int(a.Port())
}

func TestVerifC49RealSockets(t *testing.T) {
	r := verifkit.NewReporter(t, "C49", "real",
		"case = one node life (nebula.Main with real loopback udp sockets, tun.disabled) stopped at one of: never started, started idle, two readers, handshake pending to a dead port, live tunnel (either end), with the prometheus listener; distinct = (scenario, stopped role) classes; deciding observations: /proc/self/fd entries that were not there before Main, goroutines carrying the node's pprof label, second Stop / refused Start")
	defer r.Done()
	now := time.Now()
	cc, _, key, pem := cert_test.NewTestCaCert(cert.Version2, cert.Curve_CURVE25519, now.Add(-2*time.Hour), now.Add(48*time.Hour), nil, nil, nil)
	ca := &c49rCA{c: cc, key: key, pem: pem}
	seq := 0
	stranded := false // a node could not be stopped: its leftovers would blur every later baseline

	// stopAndCheck stops the nodes in order and compares the process with the state before they were built.
	stopAndCheck := func(class string, base map[string]string, nodes ...*c49rNode) {
		for i, n := range nodes {
			cl := class
			if len(nodes) > 1 {
				cl = fmt.Sprintf("%s/%s-stopped-%d", class, n.name, i+1)
			}
			r.Pre("class=%s node=%s", cl, n.label)
			before, _ := c49Alive(n.label, false)
			done := make(chan struct{})
			t0 := time.Now()
			go func() {
				defer close(done)
				n.do(func() {
					n.c.Stop()
					n.c.Wait()
				})
			}()
			returned := false
			for a := 0; a < c49rAttempts && !returned; a++ {
				select {
				case <-done:
					returned = true
				case <-time.After(10 * time.Millisecond):
				}
			}
			r.Eval(1)
			r.DistinctClass(cl)
			r.Count("stops", 1)
			if !returned {
				_, g := c49Alive(n.label, true)
				_, own := c49Alive(n.label, false)
				// Elapsed time decides nothing here, but a goroutine of this node parked on a nil channel (or in an empty
				// select) can never run again whatever the clock says: that is a witness by itself.
				if blk := c49rForeverBlocked(fmt.Sprintf("%p", n.c.f)); blk != "" {
					r.Violation("C49/goroutine-never-stops:"+strings.Join(c49Leafs(own), ","),
						fmt.Sprintf("%s (real sockets): Stop+Wait of node %s did not return and a goroutine of the node is parked where nothing can ever wake it: %v", cl, n.name, c49Sigs(own)),
						map[string]any{"class": cl, "forever_blocked_goroutine": blk, "node_goroutines": c49Dump(g)})
					stranded = true
					return
				}
				r.Inconclusive(fmt.Sprintf("%s: Stop+Wait of node %s did not return within the polling bound (no virtual clock here; node goroutines: %v)", cl, n.name, c49Sigs(g)))
				r.Info("not-returned:"+cl, c49Dump(g))
				stranded = true
				return
			}
			r.Sample(map[string]any{"class": cl, "goroutines_before": before, "stop_plus_wait_wall_ms": float64(time.Since(t0)) / 1e6})
			alive, groups := 0, []c49Group(nil)
			for a := 0; a < c49rAttempts; a++ {
				alive, groups = c49Alive(n.label, true)
				if alive == 0 {
					break
				}
				time.Sleep(10 * time.Millisecond)
			}
			if alive > 0 {
				r.Inconclusive(fmt.Sprintf("%s: %d goroutine(s) of node %s still alive after Stop+Wait and the polling bound: %v", cl, alive, n.name, c49Sigs(groups)))
				r.Info("lingering:"+cl, c49Dump(groups))
			} else {
				r.Count("nodes_with_no_goroutine_left", 1)
			}
			if n.c.Context().Err() == nil {
				r.Violation("C49/context-alive-after-stop", cl+": Control.Context() is not cancelled after Stop", map[string]any{"class": cl})
			}
			// second stop, refused start
			var serr error
			again := make(chan struct{})
			go func() {
				defer close(again)
				n.do(func() {
					n.c.Stop()
					n.c.Wait()
					serr = n.c.Start()
				})
			}()
			ok := false
			for a := 0; a < c49rAttempts && !ok; a++ {
				select {
				case <-again:
					ok = true
				case <-time.After(10 * time.Millisecond):
				}
			}
			if !ok {
				r.Inconclusive(cl + ": second Stop/Wait/Start did not return within the polling bound")
				return
			}
			if !errors.Is(serr, ErrAlreadyStopped) {
				r.Violation("C49/start-after-stop-not-refused", fmt.Sprintf("%s: Start after Stop returned %v", cl, serr), map[string]any{"class": cl})
			}
			r.Count("second_stops", 1)
		}
		if base == nil {
			return
		}
		// Descriptors: everything opened since the baseline must be gone. No clock is involved when every node of the scenario
		// has no goroutine left: then nothing of theirs can run any more, and whatever is still open stays open.
		extra := c49rNewFds(base, c49rFds())
		left := 0
		for _, n := range nodes {
			k, _ := c49Alive(n.label, true)
			left += k
		}
		switch {
		case len(extra) == 0:
			r.Count("scenarios_with_descriptors_back_to_baseline", 1)
		case left == 0:
			kinds := map[string]bool{}
			for _, e := range extra {
				_, t, _ := strings.Cut(e, "->")
				t, _, _ = strings.Cut(t, ":")
				kinds[t] = true
			}
			var ks []string
			for k := range kinds {
				ks = append(ks, k)
			}
			sort.Strings(ks)
			r.Violation("C49/descriptor-open-after-stop:"+strings.Join(ks, ","), fmt.Sprintf("%s (real sockets): Stop and Wait returned, the node(s) own no goroutine any more, and descriptors opened since Main are still open: %v", class, extra),
				map[string]any{"class": class, "descriptors": extra})
		default:
			r.Inconclusive(fmt.Sprintf("%s: descriptors opened after the baseline are still open and %d node goroutine(s) are still alive: %v", class, left, extra))
		}
	}

	build := func(label, name, nets string, over m) *c49rNode {
		n, err := c49rBuild(ca, label, name, nets, over)
		if err != nil {
			r.Inconclusive(fmt.Sprintf("%s: Main failed: %v", label, err))
			return nil
		}
		return n
	}
	opened := func(class string, base map[string]string, want int) {
		k := 0
		for a := 0; a < c49rAttempts; a++ {
			if k = len(c49rNewFds(base, c49rFds())); k >= want {
				break
			}
			time.Sleep(10 * time.Millisecond)
		}
		r.Count("descriptors_opened_by_nodes", k)
		if k < want {
			r.Inconclusive(fmt.Sprintf("%s: expected at least %d new descriptors while the node(s) live, saw %d (the observation would be vacuous)", class, want, k))
		}
	}

	type scn struct {
		name string
		run  func(label string)
	}
	scns := []scn{
		{"never-started", func(label string) {
			base := c49rFds()
			n := build(label, "a", "10.1.0.1/16", nil)
			if n == nil {
				return
			}
			opened("never-started", base, 1)
			stopAndCheck("never-started", base, n)
		}},
		{"started-idle", func(label string) {
			base := c49rFds()
			n := build(label, "a", "10.1.0.1/16", nil)
			if n == nil {
				return
			}
			n.do(func() { n.c.Start() })
			time.Sleep(20 * time.Millisecond)
			opened("started-idle", base, 1)
			stopAndCheck("started-idle", base, n)
		}},
		{"two-routines", func(label string) {
			base := c49rFds()
			n := build(label, "a", "10.1.0.1/16", m{"routines": 2})
			if n == nil {
				return
			}
			n.do(func() { n.c.Start() })
			time.Sleep(20 * time.Millisecond)
			opened("two-routines", base, 2)
			stopAndCheck("two-routines", base, n)
		}},
		{"prometheus-listener", func(label string) {
			base := c49rFds()
			n := build(label, "a", "10.1.0.1/16", m{"stats": m{"type": "prometheus", "listen": "127.0.0.1:0", "path": "/metrics", "interval": "1s"}})
			if n == nil {
				return
			}
			n.do(func() { n.c.Start() })
			time.Sleep(50 * time.Millisecond)
			opened("prometheus-listener", base, 2)
			stopAndCheck("prometheus-listener", base, n)
		}},
		{"handshake-pending", func(label string) {
			base := c49rFds()
			n := build(label, "a", "10.1.0.1/16", m{"static_host_map": m{"10.1.0.9": []string{"127.0.0.1:9"}}})
			if n == nil {
				return
			}
			n.do(func() { n.c.Start(); n.c.CreateTunnel(netip.MustParseAddr("10.1.0.9")) })
			time.Sleep(150 * time.Millisecond)
			hm := n.c.f.handshakeManager
			hm.RLock()
			pend := len(hm.vpnIps)
			hm.RUnlock()
			if pend > 0 {
				r.Count("phase.handshake-pending", 1)
			}
			opened("handshake-pending", base, 1)
			stopAndCheck("handshake-pending", base, n)
		}},
	}
	for _, first := range []string{"a", "b"} {
		scns = append(scns, scn{"live-tunnel/" + first + "-first", func(label string) {
			base := c49rFds()
			b := build(label, "b", "10.1.0.2/16", nil)
			if b == nil {
				return
			}
			a := build(label, "a", "10.1.0.1/16", m{"static_host_map": m{"10.1.0.2": []string{fmt.Sprintf("127.0.0.1:%d", b.port())}}})
			if a == nil {
				b.c.Stop()
				return
			}
			b.do(func() { b.c.Start() })
			a.do(func() { a.c.Start(); a.c.CreateTunnel(b.vpn) })
			up := false
			for i := 0; i < c49rAttempts && !up; i++ {
				time.Sleep(10 * time.Millisecond)
				up = a.c.GetHostInfoByVpnAddr(b.vpn, false) != nil && b.c.GetHostInfoByVpnAddr(a.vpn, false) != nil
			}
			if up {
				r.Count("phase.live-tunnel", 1)
			}
			opened("live-tunnel", base, 2)
			if first == "a" {
				stopAndCheck("live-tunnel", base, a, b)
			} else {
				stopAndCheck("live-tunnel", base, b, a)
			}
		}})
	}

	// the first node of the process initialises lazily opened descriptors (epoll, urandom...) that are not the node's: no
	// descriptor comparison for it
	if ln, err := net.Listen("tcp", "127.0.0.1:0"); err == nil {
		ln.Close() // the network poller's own descriptors exist from here on
	}
	if n := build("first", "w", "10.1.0.250/16", nil); n != nil {
		n.do(func() { n.c.Start() })
		time.Sleep(50 * time.Millisecond)
		stopAndCheck("first-node-of-the-process", nil, n)
	}
	reps := verifkit.Scale(2, 40)
	idx := 0
	for rep := 0; rep < reps; rep++ {
		for _, s := range scns {
			idx++
			if !verifkit.Mine(idx) {
				continue
			}
			if stranded {
				r.Count("scenarios_skipped_after_a_node_could_not_be_stopped", 1)
				continue
			}
			seq++
			s.run(fmt.Sprintf("real#%d:%s", seq, s.name))
		}
	}
}
