//go:build e2e_testing

package nebula

// C05 (node level, trust reloads) — "accepted by the trust check" means the trust the node has when the peer's certificate
// is checked, not the trust it had when it started the handshake.
//
// A started node T initiates towards a puppet peer P (genuine certificate, genuine Noise exchange). The puppet holds its
// reply back; meanwhile T's pki section is reloaded through the real reload path so that P's certificate becomes
// unacceptable (fingerprint added to pki.blocklist, or P's CA removed from pki.ca), or an unrelated reload happens
// (control), or trust for P only appears with the reload; then the genuine reply is delivered.
// Oracle: after a reload that makes P unacceptable, the late reply must not give T a tunnel authenticated by P's certificate,
// and nothing P seals may reach T's tun. Control and trust-added cases are counted (the pending handshake should complete).

import (
	"fmt"
	"testing"
	"time"

	"github.com/slackhq/nebula/cert"
	"github.com/slackhq/nebula/header"
	"github.com/slackhq/nebula/verifkit"
)

func TestVerifC05NodeReload(t *testing.T) {
	r := verifkit.NewReporter(t, "C05", "reload",
		"target node initiates to a puppet peer that delays its genuine reply; in between the target's pki.blocklist / pki.ca are reloaded (peer blocklisted, peer's CA removed, unrelated change, peer's CA added); distinct = (reload kind, cert version, curve, reply timing, outcome) classes")
	defer r.Done()
	scen := verifkit.Scale(24, 600)
	for sc := 0; sc < scen; sc++ {
		if !verifkit.Mine(sc) {
			continue
		}
		rng := verifkit.SubRand("C05reload", sc)
		vnRunBubble(t, func(t *testing.T) {
			curve := []cert.Curve{cert.Curve_CURVE25519, cert.Curve_P256}[sc%2]
			ver := []cert.Version{cert.Version2, cert.Version1}[(sc/2)%2]
			kind := []string{"peer-blocklisted", "peer-ca-removed", "unrelated", "peer-ca-added"}[sc/4%4]
			ca := vnNewCA(ver, curve)
			ca2 := vnNewCA(ver, curve)
			nw := vnNewNet(t)
			vs := []cert.Version{ver}
			idT := ca.issue(vs, "target", "10.1.0.1/16", "", nil)
			issuer := ca
			if kind == "peer-ca-removed" || kind == "peer-ca-added" {
				issuer = ca2
			}
			idP := issuer.issue(vs, "peer", "10.1.0.2/16", "", nil)
			idOther := ca.issue(vs, "other", "10.1.0.9/16", "", nil)
			fpOf := func(id *vnIdent) string {
				for _, c := range id.Certs {
					fp, _ := c.Fingerprint()
					return fp
				}
				return ""
			}
			cas := []*vnCA{ca, ca2}
			if kind == "peer-ca-added" {
				cas = []*vnCA{ca}
			}
			tn := nw.AddNode(idT, cas, "192.0.2.1:4242", m{"listen": m{"accept_recv_error": "never"}})
			pp := nw.AddPuppet(idP, []*vnCA{ca, ca2}, "192.0.2.2:4242", ver)
			tn.Start()
			tn.C.InjectLightHouseAddr(idP.Addr(), pp.Addr)
			nw.Settle()
			defer nw.StopAll()

			// T starts a handshake; take its first message off the network
			pk, _ := vnUDP4(idT.Addr(), idP.Addr(), 9, 9, 0)
			nw.TunSend(tn, pk)
			var s1 *vnPacket
			for w := 0; w < 20 && s1 == nil; w++ {
				for _, p := range nw.Inflight {
					if p.To == pp.Addr && p.HOK && p.H.Type == header.Handshake {
						s1 = p
					}
				}
				if s1 == nil {
					nw.Advance(100 * time.Millisecond)
				}
			}
			nw.DropAll()
			if s1 == nil {
				r.Inconclusive(fmt.Sprintf("scenario %d: target never sent a first handshake message", sc))
				return
			}
			tun := pp.RespondNoDeliver(s1)
			if kind != "peer-ca-added" && tun == nil {
				r.Inconclusive(fmt.Sprintf("scenario %d: puppet could not answer", sc))
				return
			}
			if tun == nil {
				return
			}
			// some virtual time may pass while the reply is "in flight" (retransmissions of stage 1 are dropped)
			delay := []time.Duration{0, 300 * time.Millisecond, 2 * time.Second}[rng.IntN(3)]
			reloadFirst := rng.IntN(2) == 0
			if reloadFirst && delay > 0 {
				nw.Advance(delay)
				nw.DropAll()
			}
			caPEM := func(l ...*vnCA) string {
				s := ""
				for _, c := range l {
					s += string(c.PEM)
				}
				return s
			}
			switch kind {
			case "peer-blocklisted":
				tn.Reload(m{"pki": m{"blocklist": []string{fpOf(idP)}}})
			case "peer-ca-removed":
				tn.Reload(m{"pki": m{"ca": caPEM(ca)}})
			case "unrelated":
				tn.Reload(m{"pki": m{"blocklist": []string{fpOf(idOther)}}})
			case "peer-ca-added":
				tn.Reload(m{"pki": m{"ca": caPEM(ca, ca2)}})
			}
			nw.Settle()
			if !reloadFirst && delay > 0 {
				nw.Advance(delay)
				nw.DropAll()
			}
			// is the reload in force? (ground truth through the node's own pool)
			var pc cert.Certificate
			for _, c := range idP.Certs {
				pc = c
			}
			_, verr := tn.F.pki.GetCAPool().VerifyCertificate(time.Now(), pc)
			acceptableNow := verr == nil
			stillPending := tn.F.handshakeManager.QueryVpnAddr(idP.Addr()) != nil
			tun0 := len(tn.TunOut)
			r.Pre("sc=%d kind=%s reply=%x", sc, kind, tun.Stage2)
			nw.Inject(tn, pp.Addr, tun.Stage2)
			nw.Settle()
			installed := false
			hm := tn.F.hostMap
			hm.RLock()
			for _, h := range hm.Indexes {
				if h.ConnectionState != nil && h.ConnectionState.peerCert != nil && h.ConnectionState.peerCert.Fingerprint == fpOf(idP) {
					installed = true
				}
			}
			hm.RUnlock()
			// whatever P can seal with the keys of that exchange
			data, _ := vnUDP4(idP.Addr(), idT.Addr(), 5, 5, 0)
			nw.Inject(tn, pp.Addr, tun.Seal(header.Message, header.MessageNone, data))
			nw.Settle()
			delivered := len(tn.TunOut) != tun0
			r.Eval(1)
			r.Count("reload."+kind, 1)
			r.DistinctClass(fmt.Sprintf("reload=%s v%d %v delay=%v reload-first=%v pending-at-reply=%v acceptable-at-reply=%v installed=%v", kind, ver, curve, delay, reloadFirst, stillPending, acceptableNow, installed))
			r.Distinct(fmt.Sprintf("sc%d", sc))
			rec := map[string]any{"scenario": sc, "reload": kind, "cert_version": int(ver), "curve": curve.String(), "delay": delay.String(), "pending_at_reply": stillPending, "tunnels": vnTunnels(tn)}
			if r.WantSample() {
				r.Sample(rec)
			}
			if !acceptableNow {
				r.Count("replies_delivered_after_peer_became_unacceptable", 1)
				if installed {
					r.Violation("C05/handshake-completed-against-reloaded-trust", fmt.Sprintf("scenario %d: after a reload (%s) that makes the peer's certificate unacceptable, the pending handshake still completed with it", sc, kind), rec)
				}
				if delivered {
					r.Violation("C05/impostor-traffic-delivered", fmt.Sprintf("scenario %d: traffic sealed by a peer the reloaded trust rejects (%s) reached the target's tun", sc, kind), rec)
				}
			} else {
				r.Count("replies_delivered_while_peer_acceptable", 1)
				if installed {
					r.Count("acceptable_peer_completed", 1)
				}
			}
		})
	}
}
