//go:build e2e_testing

package nebula

// C05 (node level) — a handshake completes only with an authenticated peer.
//
// Started nodes in a synctest bubble. A target node T holds (or does not hold) a live tunnel with an honest peer V.
// An adversary that has observed V's handshake certificate bytes (they travel in clear in IX stage 1), and that may also
// hold its own legitimately issued certificate, runs genuine Noise IX handshakes against T with its OWN static key while
// presenting: V's certificate bytes, an untrusted-CA certificate, an expired one, a blocklisted one, or its own.
// Also as responder: T initiates towards V's address and the adversary answers with V's certificate bytes.
// Oracle: T answers / completes only for the adversary's own genuine identity. For every impostor attempt T must emit no
// handshake reply, T's tunnels for V must be unchanged (same indexes, same underlay address), the adversary's Machine must not
// complete, and afterwards nothing the adversary seals is delivered to T's tun.
// Structural oracle at every quiescent point: every tunnel T holds is authenticated by a certificate whose public key is
// the key that identity was issued for (ground truth), and an impostor's underlay address never becomes a tunnel remote.

import (
	"fmt"
	"net/netip"
	"testing"
	"time"

	"github.com/slackhq/nebula/cert"
	"github.com/slackhq/nebula/handshake"
	"github.com/slackhq/nebula/header"
	"github.com/slackhq/nebula/verifkit"
)

// c05FakeKeyCert presents another certificate's content with a different static public key, which is what recombining
// observed handshake certificate bytes with one's own Noise static key produces.
type c05FakeKeyCert struct {
	cert.Certificate
	pub []byte
}

func (c c05FakeKeyCert) PublicKey() []byte { return c.pub }

func c05Impostor(victim *vnIdent, own *vnIdent, cipher string) (handshake.GetCredentialFunc, error) {
	var vc cert.Certificate
	for _, c := range victim.Certs {
		vc = c
	}
	hs, err := vc.MarshalForHandshakes()
	if err != nil {
		return nil, err
	}
	var oc cert.Certificate
	for _, c := range own.Certs {
		oc = c
	}
	suite, err := newCipherSuite(own.Curve, false, cipher, false)
	if err != nil {
		return nil, err
	}
	cred := handshake.NewCredential(c05FakeKeyCert{vc, oc.PublicKey()}, hs, own.RawKey, suite)
	return func(v cert.Version) *handshake.Credential {
		if v == vc.Version() {
			return cred
		}
		return nil
	}, nil
}

func TestVerifC05Node(t *testing.T) {
	r := verifkit.NewReporter(t, "C05", "node",
		"started target node with/without a live tunnel to an honest victim; adversary handshakes (initiator and responder role) with its own Noise static key presenting the victim's observed certificate bytes, an untrusted-CA / expired / blocklisted certificate, or its own genuine one; distinct = (role, presented identity class, target holds tunnel with victim?, outcome) classes plus attempts")
	defer r.Done()
	scen := verifkit.Scale(16, 600)
	for sc := 0; sc < scen; sc++ {
		if !verifkit.Mine(sc) {
			continue
		}
		rng := verifkit.SubRand("C05node", sc)
		vnRunBubble(t, func(t *testing.T) {
			curve := []cert.Curve{cert.Curve_CURVE25519, cert.Curve_P256}[sc%2]
			ver := []cert.Version{cert.Version2, cert.Version1}[(sc/2)%2]
			ca := vnNewCA(ver, curve)
			evilCA := vnNewCA(ver, curve)
			nw := vnNewNet(t)
			vs := []cert.Version{ver}
			idT := ca.issue(vs, "target", "10.1.0.1/16", "", nil)
			idV := ca.issue(vs, "victim", "10.1.0.2/16", "", nil)
			idAdv := ca.issue(vs, "adversary", "10.1.0.66/16", "", nil)
			idUntrusted := evilCA.issue(vs, "untrusted", "10.1.0.3/16", "", nil)
			now := time.Now()
			idExpired := ca.issueAt(vs, "expired", "10.1.0.4/16", "", nil, now.Add(-20*time.Minute), now.Add(-10*time.Minute))
			idBlocked := ca.issue(vs, "blocked", "10.1.0.5/16", "", nil)
			var blockFP string
			for _, c := range idBlocked.Certs {
				blockFP, _ = c.Fingerprint()
			}
			tn := nw.AddNode(idT, []*vnCA{ca}, "192.0.2.1:4242", m{"pki": m{"blocklist": []string{blockFP}}, "listen": m{"accept_recv_error": "never"}})
			vn := nw.AddNode(idV, []*vnCA{ca}, "192.0.2.2:4242", nil)
			tn.Start()
			vn.Start()
			tn.lhAddStatic(vn)
			vn.lhAddStatic(tn)
			nw.Settle()
			defer nw.StopAll()
			advAddr := netip.MustParseAddrPort("198.51.100.66:4242")
			pool := cert.NewCAPool()
			pool.AddCA(ca.Cert)

			haveTunnel := rng.IntN(4) != 0
			if haveTunnel {
				p0, _ := vnUDP4(idV.Addr(), idT.Addr(), 1, 1, 0)
				nw.TunSend(vn, p0)
				nw.AdvanceFlushing(time.Second, 100*time.Millisecond)
				if tn.F.hostMap.QueryVpnAddr(idV.Addr()) == nil {
					r.Inconclusive(fmt.Sprintf("scenario %d: victim tunnel did not come up", sc))
					return
				}
			}
			keyOf := map[string][]byte{}
			for _, id := range []*vnIdent{idT, idV, idAdv, idUntrusted, idExpired, idBlocked} {
				for _, c := range id.Certs {
					fp, _ := c.Fingerprint()
					keyOf[fp] = c.PublicKey()
				}
			}
			audit := func(when string) {
				hm := tn.F.hostMap
				hm.RLock()
				defer hm.RUnlock()
				for _, h := range hm.Indexes {
					r.Eval(1)
					pc := h.ConnectionState.peerCert
					want, known := keyOf[pc.Fingerprint]
					if !known || string(want) != string(pc.Certificate.PublicKey()) {
						r.Violation("C05/tunnel-with-unissued-certificate-or-key", fmt.Sprintf("scenario %d (%s): target holds a tunnel whose certificate/key pair was never issued", sc, when), map[string]any{"scenario": sc, "tunnel": vnHostinfoLine(h)})
					}
					if h.GetRemote() == advAddr && pc.Certificate.Name() != "adversary" {
						r.Violation("C05/impostor-address-became-tunnel-remote", fmt.Sprintf("scenario %d (%s): target's tunnel for %s points at the adversary's underlay address", sc, when, pc.Certificate.Name()), map[string]any{"scenario": sc, "tunnel": vnHostinfoLine(h)})
					}
				}
			}

			classes := []struct {
				name string
				id   *vnIdent
			}{{"victim-cert-bytes", idV}, {"untrusted-ca", idUntrusted}, {"expired", idExpired}, {"blocklisted", idBlocked}, {"own-genuine", idAdv}}
			attempts := verifkit.Scale(10, 24)
			for i := 0; i < attempts; i++ {
				cl := classes[rng.IntN(len(classes))]
				role := []string{"initiator", "initiator", "responder"}[rng.IntN(3)]
				var getCred handshake.GetCredentialFunc
				genuine := cl.name == "own-genuine"
				switch cl.name {
				case "victim-cert-bytes":
					g, err := c05Impostor(idV, idAdv, "aes")
					if err != nil {
						t.Fatal(err)
					}
					getCred = g
				default:
					cs, err := newCertState(ver, cl.id.Certs[cert.Version1], cl.id.Certs[cert.Version2], false, cl.id.Curve, cl.id.RawKey, "aes")
					if err != nil {
						t.Fatal(err)
					}
					getCred = cs.GetCredential
				}
				verifier := func(c cert.Certificate) (*cert.CachedCertificate, error) { return pool.VerifyCertificate(time.Now(), c) }
				before := vnTunnels(tn)
				tun0 := len(tn.TunOut)
				idx := uint32(0x66000000 + i)
				completed := false
				var replied []*vnPacket
				var res *handshake.Result
				if role == "initiator" {
					mach, err := handshake.NewMachine(ver, getCred, verifier, func() (uint32, error) { return idx, nil }, true, header.HandshakeIXPSK0)
					if err != nil {
						continue
					}
					msg, err := mach.Initiate(nil)
					if err != nil {
						continue
					}
					r.Pre("sc=%d attempt=%d role=%s class=%s msg=%x", sc, i, role, cl.name, msg)
					held := nw.Inflight
					nw.Inflight = nil
					nw.Inject(tn, advAddr, msg)
					nw.Settle()
					for _, p := range nw.Inflight {
						if p.To == advAddr {
							replied = append(replied, p)
							if p.HOK && p.H.Type == header.Handshake {
								if _, rr, err := mach.ProcessPacket(nil, p.Data); err == nil && rr != nil {
									completed, res = true, rr
								}
							}
						} else {
							held = append(held, p)
						}
					}
					nw.Inflight = held
				} else {
					// T initiates towards the victim's (or the class identity's) overlay address, the adversary answers from
					// the address T believes that peer lives at
					target := cl.id.Addr()
					if genuine {
						target = idAdv.Addr()
					}
					if haveTunnel && target == idV.Addr() {
						tn.C.CloseTunnel(idV.Addr(), true)
					}
					tn.F.lightHouse.DeleteVpnAddrs([]netip.Addr{target})
					tn.C.InjectLightHouseAddr(target, advAddr)
					before = vnTunnels(tn)
					pk, _ := vnUDP4(idT.Addr(), target, 9, 9, 0)
					nw.TunSend(tn, pk)
					var s1 *vnPacket
					for w := 0; w < 20 && s1 == nil; w++ {
						nw.Advance(100 * time.Millisecond)
						keep := nw.Inflight[:0]
						for _, p := range nw.Inflight {
							if p.To == advAddr && p.HOK && p.H.Type == header.Handshake && s1 == nil {
								s1 = p
							} else if p.To != advAddr {
								keep = append(keep, p)
							}
						}
						nw.Inflight = keep
					}
					if s1 == nil {
						continue
					}
					mach, err := handshake.NewMachine(ver, getCred, verifier, func() (uint32, error) { return idx, nil }, false, header.HandshakeIXPSK0)
					if err != nil {
						continue
					}
					resp, rr, err := mach.ProcessPacket(nil, s1.Data)
					if err != nil || rr == nil {
						continue
					}
					res = rr
					r.Pre("sc=%d attempt=%d role=%s class=%s reply=%x", sc, i, role, cl.name, resp)
					nw.Inject(tn, advAddr, resp)
					nw.Settle()
					// did T install a tunnel for the target served by the adversary?
					if h := tn.F.hostMap.QueryVpnAddr(target); h != nil && h.GetRemote() == advAddr {
						completed = true
					}
					keep := nw.Inflight[:0]
					for _, p := range nw.Inflight {
						if p.To == advAddr {
							replied = append(replied, p)
						} else {
							keep = append(keep, p)
						}
					}
					nw.Inflight = keep
				}
				r.Eval(1)
				after := vnTunnels(tn)
				outcome := "refused"
				if completed {
					outcome = "completed"
				}
				r.DistinctClass(fmt.Sprintf("role=%s presents=%s target-holds-victim-tunnel=%v outcome=%s", role, cl.name, haveTunnel, outcome))
				r.Distinct(fmt.Sprintf("sc%d attempt%d", sc, i))
				rec := map[string]any{"scenario": sc, "attempt": i, "role": role, "presented": cl.name, "target_holds_victim_tunnel": haveTunnel, "before": before, "after": after, "curve": curve.String(), "cert_version": int(ver)}
				if genuine {
					r.Count("genuine_adversary_identity_attempts", 1)
					if completed {
						r.Count("genuine_adversary_identity_completed", 1)
					}
				} else {
					r.Count("impostor_attempts", 1)
					if completed {
						r.Violation("C05/handshake-completed-with-unauthenticated-peer", fmt.Sprintf("scenario %d: the adversary (own static key) presenting %s as %s completed a handshake with the target", sc, cl.name, role), rec)
					}
					for _, p := range replied {
						if role == "initiator" && p.HOK && p.H.Type == header.Handshake {
							r.Violation("C05/target-answered-impostor-handshake", fmt.Sprintf("scenario %d: target sent a handshake reply to an impostor presenting %s", sc, cl.name), rec)
						}
					}
					if role == "initiator" && after != before {
						r.Violation("C05/impostor-handshake-changed-tunnels", fmt.Sprintf("scenario %d: target's tunnels changed after an impostor handshake presenting %s", sc, cl.name), rec)
					}
					// nothing the adversary can seal reaches the tun
					if res != nil {
						if cs, err := newConnectionStateFromResult(res); err == nil {
							tt := &vnTunnel{CS: cs, Remote: res.RemoteIndex}
							pk, _ := vnUDP4(cl.id.Addr(), idT.Addr(), 5, 5, 0)
							nw.Inject(tn, advAddr, tt.SealAt(header.Message, header.MessageNone, res.RemoteIndex, cs.messageCounter.Add(1), pk))
							nw.Settle()
						}
					}
					if len(tn.TunOut) != tun0 {
						r.Violation("C05/impostor-traffic-delivered", fmt.Sprintf("scenario %d: a packet sealed by the impostor (%s) reached the target's tun", sc, cl.name), rec)
					}
				}
				audit("after attempt")
				// drop anything addressed to the adversary, deliver the rest
				keep := nw.Inflight[:0]
				for _, p := range nw.Inflight {
					if p.To != advAddr {
						keep = append(keep, p)
					}
				}
				nw.Inflight = keep
				nw.Flush()
			}
			if sc < 2 {
				r.Sample(map[string]any{"scenario": sc, "curve": curve.String(), "cert_version": int(ver), "target_tunnels": vnTunnels(tn)})
			}
		})
	}
}
