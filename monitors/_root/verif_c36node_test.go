//go:build e2e_testing

package nebula

// C36 (node level) — an underlay address that the remote allow lists deny for a peer is never used to reach that peer,
// whichever path it arrives by on a running node.
//
// One started node A in a synctest bubble with lighthouse.remote_allow_list {0.0.0.0/0: true, 203.0.113.0/24: false} and
// lighthouse.remote_allow_ranges {10.1.0.0/24: {0.0.0.0/0: true, 192.168.0.0/16: false}}, and a puppet peer P (overlay
// 10.1.0.9, genuine certificate) known at an allowed underlay address. Paths by which another underlay address shows up:
//   initiator: A dials P, P's genuine second handshake message arrives from another source address;
//   responder: P's genuine first handshake message arrives from that address;
//   roaming:   an authentic data packet on the established tunnel arrives from that address.
// The other address is allowed, denied globally, or denied only by the range list of P's overlay range.
// Oracle: from then on (retries, test probes, punches, traffic; several virtual seconds) A writes no datagram to a denied
// address, and neither the tunnel's remote, the address list exposed for P (RemoteList of the tunnel / pending handshake)
// nor the lighthouse cache entry for P contains one. Allowed addresses may be taken up (counted, not demanded).

import (
	"fmt"
	"net/netip"
	"testing"
	"time"

	"github.com/slackhq/nebula/cert"
	"github.com/slackhq/nebula/header"
	"github.com/slackhq/nebula/verifkit"
)

func TestVerifC36Node(t *testing.T) {
	r := verifkit.NewReporter(t, "C36", "node",
		"started node with global and per-range remote allow lists, puppet peer; path in {initiator stage-2 source, responder stage-1 source, roaming data packet} x other address in {allowed, denied globally, denied by range} x cert v1/v2 x PRNG follow-up traffic; distinct = (path, address class, version, outcome) classes")
	defer r.Done()
	paths := []string{"initiator", "responder", "roaming"}
	classes := []string{"allowed", "denied-globally", "denied-by-range"}
	cases := verifkit.Scale(36, 900)
	for cs := 0; cs < cases; cs++ {
		if !verifkit.Mine(cs) {
			continue
		}
		rng := verifkit.SubRand("C36node", cs)
		path, class := paths[cs%3], classes[cs/3%3]
		ver := []cert.Version{cert.Version2, cert.Version1}[cs/9%2]
		vnRunBubble(t, func(t *testing.T) {
			ca := vnNewCA(ver, cert.Curve_CURVE25519)
			nw := vnNewNet(t)
			vs := []cert.Version{ver}
			a := nw.AddNode(ca.issue(vs, "a", "10.1.0.1/16", "", nil), []*vnCA{ca}, "192.0.2.1:4242", m{
				"lighthouse": m{
					"remote_allow_list":   m{"0.0.0.0/0": true, "203.0.113.0/24": false},
					"remote_allow_ranges": m{"10.1.0.0/24": m{"0.0.0.0/0": true, "192.168.0.0/16": false}},
				},
				"punchy": m{"punch": true, "respond": true},
				"listen": m{"accept_recv_error": "never"},
			})
			idP := ca.issue(vs, "p", "10.1.0.9/16", "", nil)
			pp := nw.AddPuppet(idP, []*vnCA{ca}, "198.51.100.9:4242", ver)
			a.Start()
			a.C.InjectLightHouseAddr(idP.Addr(), pp.Addr)
			nw.Settle()
			defer nw.StopAll()
			var other netip.AddrPort
			switch class {
			case "allowed":
				other = netip.AddrPortFrom(netip.AddrFrom4([4]byte{198, 51, 100, byte(20 + rng.IntN(200))}), uint16(1024+rng.IntN(60000)))
			case "denied-globally":
				other = netip.AddrPortFrom(netip.AddrFrom4([4]byte{203, 0, 113, byte(1 + rng.IntN(250))}), uint16(1024+rng.IntN(60000)))
			default:
				other = netip.AddrPortFrom(netip.AddrFrom4([4]byte{192, 168, byte(rng.IntN(256)), byte(1 + rng.IntN(250))}), uint16(1024+rng.IntN(60000)))
			}
			denied := func(ap netip.AddrPort) bool {
				x := ap.Addr().Unmap()
				return netip.MustParsePrefix("203.0.113.0/24").Contains(x) || netip.MustParsePrefix("192.168.0.0/16").Contains(x)
			}
			rec := func(extra map[string]any) map[string]any {
				mm := map[string]any{"case": cs, "path": path, "other_address": other.String(), "address_class": class, "cert_version": int(ver), "tunnels": vnTunnels(a)}
				for k, v := range extra {
					mm[k] = v
				}
				return mm
			}
			sentToDenied := 0
			nw.OnUDP = func(p *vnPacket) {
				if p.Sender == a && denied(p.To) {
					sentToDenied++
					r.Violation("C36/datagram-written-to-denied-address", fmt.Sprintf("case %d (%s, %s): the node wrote %s", cs, path, class, p.String()), rec(map[string]any{"packet": p.String()}))
				}
			}
			exposed := func(when string) {
				var lists [][]netip.AddrPort
				if h := a.F.hostMap.QueryVpnAddr(idP.Addr()); h != nil {
					lists = append(lists, h.remotes.CopyAddrs(nil), []netip.AddrPort{h.GetRemote()})
				}
				if h := a.F.handshakeManager.QueryVpnAddr(idP.Addr()); h != nil && h.remotes != nil {
					lists = append(lists, h.remotes.CopyAddrs(nil))
				}
				if rl := a.F.lightHouse.Query(idP.Addr()); rl != nil {
					lists = append(lists, rl.CopyAddrs(nil))
				}
				for _, l := range lists {
					for _, ap := range l {
						r.Count("exposed_addresses_checked", 1)
						if ap.IsValid() && denied(ap) {
							r.Violation("C36/denied-address-kept-for-peer", fmt.Sprintf("case %d (%s, %s) %s: %s is held as a way to reach the peer although the allow lists deny it", cs, path, class, when, ap), rec(map[string]any{"when": when}))
						}
					}
				}
			}
			// puppets never see what the node sends; the network just records it
			drain := func() { nw.Inflight = nil }
			var tun *vnTunnel
			switch path {
			case "initiator":
				pk, _ := vnUDP4(a.Ident.Addr(), idP.Addr(), 9, 9, 0)
				nw.TunSend(a, pk)
				var s1 *vnPacket
				for w := 0; w < 20 && s1 == nil; w++ {
					for _, p := range nw.Inflight {
						if p.To == pp.Addr && p.HOK && p.H.Type == header.Handshake {
							s1 = p
						}
					}
					if s1 == nil {
						nw.Advance(100 * time.Millisecond)
					}
				}
				drain()
				if s1 == nil {
					r.Inconclusive(fmt.Sprintf("case %d: the node never dialled the peer", cs))
					return
				}
				tun = pp.RespondNoDeliver(s1)
				if tun == nil {
					r.Inconclusive(fmt.Sprintf("case %d: puppet could not answer", cs))
					return
				}
				r.Pre("case %d initiator reply from %s", cs, other)
				nw.Inject(a, other, tun.Stage2)
				nw.Settle()
			case "responder":
				// the puppet's genuine first message, sent from the other address
				tun = pp.HandshakeVia(a, func(msg []byte) {
					r.Pre("case %d responder stage1 from %s", cs, other)
					nw.Inject(a, other, msg)
					nw.Settle()
					// the reply goes wherever the node decides; hand whatever it wrote to the puppet
					for _, p := range nw.Inflight {
						if p.Sender == a && p.HOK && p.H.Type == header.Handshake {
							q := *p
							q.To = pp.Addr
							pp.Inbox = append(pp.Inbox, &q)
						}
					}
					drain()
				})
			default: // roaming
				tun = pp.Handshake(a)
				drain()
				if tun == nil {
					r.Inconclusive(fmt.Sprintf("case %d: no tunnel for the roaming case", cs))
					return
				}
				data, _ := vnUDP4(idP.Addr(), a.Ident.Addr(), 5, 5, 0)
				r.Pre("case %d roaming packet from %s", cs, other)
				nw.Inject(a, other, tun.Seal(header.Message, header.MessageNone, data))
				nw.Settle()
			}
			exposed("right after")
			// follow-up: traffic towards the peer, retries, probes, punches
			for i := 0; i < 6+rng.IntN(6); i++ {
				if rng.IntN(2) == 0 {
					pk, _ := vnUDP4(a.Ident.Addr(), idP.Addr(), uint16(100+i), 9, 0)
					nw.TunSend(a, pk)
				}
				nw.Advance(time.Duration(200+rng.IntN(900)) * time.Millisecond)
				drain()
				exposed("during follow-up")
			}
			r.Eval(1)
			usesOther := false
			if h := a.F.hostMap.QueryVpnAddr(idP.Addr()); h != nil && h.GetRemote() == other {
				usesOther = true
			}
			r.Count("cases."+path+"."+class, 1)
			if usesOther {
				r.Count("other_address_taken_up."+class, 1)
			}
			r.DistinctClass(fmt.Sprintf("%s %s v%d tunnel=%v uses-other=%v datagrams-to-denied=%d", path, class, ver, a.F.hostMap.QueryVpnAddr(idP.Addr()) != nil, usesOther, sentToDenied))
			r.Distinct(fmt.Sprintf("case %d %s", cs, other))
			if r.WantSample() {
				r.Sample(rec(nil))
			}
		})
	}
}
