package nebula

// C06 (ConnectionState half) — the keys of a completed handshake, once wrapped by
// newConnectionStateFromResult on both sides, carry data packets in both directions and only between the two
// sides of that session.
//
// Oracle: for honest IX sessions run with the real handshake.Machine, packets built the way the data plane
// builds them (header as associated data, counter from NextMessageCounter, eKey.EncryptDanger) on one side
// are returned unchanged by ConnectionState.Decrypt on the other side; the sender itself, and the
// ConnectionStates of another session, refuse them. Roles and certificates of the ConnectionState are those
// of the handshake result.

import (
	"bytes"
	"encoding/binary"
	"errors"
	"fmt"
	"log/slog"
	"math"
	"net/netip"
	"testing"
	"time"

	"github.com/flynn/noise"
	"github.com/slackhq/nebula/cert"
	ct "github.com/slackhq/nebula/cert_test"
	"github.com/slackhq/nebula/handshake"
	"github.com/slackhq/nebula/header"
	"github.com/slackhq/nebula/noiseutil"
	"github.com/slackhq/nebula/verifkit"
)

var c06Now = time.Date(2025, 6, 1, 0, 0, 0, 0, time.UTC)

type c06Peer struct {
	name string
	pub  []byte
	get  func(cipher noise.CipherFunc) handshake.GetCredentialFunc
}

type c06World struct {
	curveName string
	verifier  handshake.CertVerifier
	peers     []*c06Peer
}

func c06NewWorld(curve cert.Curve, dh noise.DHFunc, name string) *c06World {
	w := &c06World{curveName: name}
	pool := cert.NewCAPool()
	before, after := time.Date(2000, 1, 1, 0, 0, 0, 0, time.UTC), time.Date(2200, 1, 1, 0, 0, 0, 0, time.UTC)
	type caT struct {
		c   cert.Certificate
		key []byte
	}
	cas := map[cert.Version]caT{}
	for _, v := range []cert.Version{cert.Version1, cert.Version2} {
		ca, _, key, _ := ct.NewTestCaCert(v, curve, before, after, nil, nil, nil)
		if err := pool.AddCA(ca); err != nil {
			panic(err)
		}
		cas[v] = caT{ca, key}
	}
	w.verifier = func(c cert.Certificate) (*cert.CachedCertificate, error) { return pool.VerifyCertificate(c06Now, c) }
	for i, n := range []string{"alice", "bob", "carol"} {
		var pub, priv []byte
		if curve == cert.Curve_P256 {
			pub, priv = ct.P256Keypair()
		} else {
			pub, priv = ct.X25519Keypair()
		}
		certs := map[cert.Version]cert.Certificate{}
		hsb := map[cert.Version][]byte{}
		for _, v := range []cert.Version{cert.Version1, cert.Version2} {
			t := &cert.TBSCertificate{Version: v, Curve: curve, Name: n, PublicKey: pub,
				Networks:  []netip.Prefix{netip.PrefixFrom(netip.AddrFrom4([4]byte{10, 66, 0, byte(i + 1)}), 16)},
				NotBefore: time.Unix(c06Now.Add(-24*time.Hour).Unix(), 0), NotAfter: time.Unix(c06Now.Add(24*time.Hour).Unix(), 0)}
			c, err := t.Sign(cas[v].c, curve, cas[v].key)
			if err != nil {
				panic(err)
			}
			certs[v] = c
			hsb[v], err = c.MarshalForHandshakes()
			if err != nil {
				panic(err)
			}
		}
		w.peers = append(w.peers, &c06Peer{name: n, pub: pub, get: func(cipher noise.CipherFunc) handshake.GetCredentialFunc {
			suite := noise.NewCipherSuite(dh, cipher, noise.HashSHA256)
			m := map[cert.Version]*handshake.Credential{}
			for v := range certs {
				m[v] = handshake.NewCredential(certs[v], hsb[v], priv, suite)
			}
			return func(v cert.Version) *handshake.Credential { return m[v] }
		}})
	}
	return w
}

type c06Session struct {
	ra, rb *handshake.Result
	ca, cb *ConnectionState
}

// On-path rewrites of the unauthenticated nebula header of a handshake packet (the Machine only reads the subtype).
type c06Rewrite struct {
	name  string
	stage int // 1 = first message, 2 = reply, 3 = both
	f     func(pkt []byte)
}

func c06SetCounter(v uint64) func([]byte) {
	return func(p []byte) { binary.BigEndian.PutUint64(p[8:16], v) }
}

func c06Rewrites() []c06Rewrite {
	var out []c06Rewrite
	for _, v := range []uint64{0, 1, 2, 3, 7, 100, 8191, 8192, 1 << 32, 1 << 40, math.MaxUint64} {
		for _, st := range []int{1, 2} {
			if (st == 1 && v == 1) || (st == 2 && v == 2) {
				continue // identity
			}
			out = append(out, c06Rewrite{fmt.Sprintf("stage%d-counter=%d", st, v), st, c06SetCounter(v)})
		}
	}
	out = append(out, c06Rewrite{"both-counters=100", 3, c06SetCounter(100)})
	for _, st := range []int{1, 2} {
		out = append(out,
			c06Rewrite{fmt.Sprintf("stage%d-reserved=ffff", st), st, func(p []byte) { p[2], p[3] = 0xff, 0xff }},
			c06Rewrite{fmt.Sprintf("stage%d-remote-index=0", st), st, func(p []byte) { binary.BigEndian.PutUint32(p[4:8], 0) }},
			c06Rewrite{fmt.Sprintf("stage%d-remote-index=ffffffff", st), st, func(p []byte) { binary.BigEndian.PutUint32(p[4:8], math.MaxUint32) }},
			c06Rewrite{fmt.Sprintf("stage%d-version-type-nibbles", st), st, func(p []byte) { p[0] ^= 0x25 }},
		)
	}
	return out
}

// c06Handshake runs the Machines. s is nil when a Machine refused (why says which); s.ca/s.cb are built by the caller.
func c06Handshake(w *c06World, cipher noise.CipherFunc, i, r *c06Peer, vi, vr cert.Version, idxI, idxR uint32, rw *c06Rewrite, rec map[string]any) (*c06Session, string) {
	mi, err := handshake.NewMachine(vi, i.get(cipher), w.verifier, func() (uint32, error) { return idxI, nil }, true, header.HandshakeIXPSK0)
	if err != nil {
		return nil, "NewMachine initiator: " + err.Error()
	}
	mr, err := handshake.NewMachine(vr, r.get(cipher), w.verifier, func() (uint32, error) { return idxR, nil }, false, header.HandshakeIXPSK0)
	if err != nil {
		return nil, "NewMachine responder: " + err.Error()
	}
	m1, err := mi.Initiate(nil)
	if err != nil {
		return nil, "Initiate: " + err.Error()
	}
	if rw != nil && rw.stage&1 != 0 {
		rw.f(m1)
	}
	rec["msg1_delivered"] = verifkit.Hex(m1)
	m2, rb, err := mr.ProcessPacket(nil, m1)
	if err != nil || rb == nil {
		return nil, fmt.Sprintf("responder: %v", err)
	}
	if rw != nil && rw.stage&2 != 0 {
		rw.f(m2)
	}
	rec["msg2_delivered"] = verifkit.Hex(m2)
	_, ra, err := mi.ProcessPacket(nil, m2)
	if err != nil || ra == nil {
		return nil, fmt.Sprintf("initiator: %v", err)
	}
	return &c06Session{ra: ra, rb: rb}, ""
}

// c06Packet builds a data packet exactly like Interface.sendNoMetrics does.
func c06Packet(cs *ConnectionState, remoteIndex uint32, payload []byte) ([]byte, uint64, error) {
	c, ok := cs.NextMessageCounter()
	if !ok {
		return nil, c, fmt.Errorf("counter exhausted")
	}
	out := make([]byte, header.Len, header.Len+len(payload)+16)
	out = header.Encode(out, header.Version, header.Message, 0, remoteIndex, c)
	nb := make([]byte, 12)
	out, err := cs.eKey.EncryptDanger(out, out, payload, c, nb)
	return out, c, err
}

func TestVerifC06ConnState(t *testing.T) {
	r := verifkit.NewReporter(t, "C06", "connstate",
		"honest IX sessions (real handshake.Machine) for 2 curves x 2 ciphers x cert versions {v1,v2,mixed}; both results wrapped by newConnectionStateFromResult; data packets built like the send path in both directions; every session is followed by three sessions whose delivered handshake packets had unauthenticated header fields rewritten on path (counter of either message 0..2^64-1 incl. 3,7,100,8191,8192,2^32,2^40; reserved bits; remote index; version/type nibbles), and whenever both Machines complete the same oracle applies: equal message count, paired indexes, newConnectionStateFromResult succeeds on both sides, the first data packets of both directions carry counters right after the handshake and are accepted; distinct = distinct (curve, cipher, versions, indexes, payload length) round trips judged")
	defer r.Done()
	l := slog.New(slog.DiscardHandler)
	per := verifkit.Scale(10, 3000)
	type cv struct {
		name  string
		curve cert.Curve
		dh    noise.DHFunc
	}
	type ci struct {
		name string
		fn   noise.CipherFunc
	}
	caseNo := 0
	rws := c06Rewrites()
	seenVariants := map[string]bool{}
	defer func() {
		r.Info("rewrites-after-which-both-sides-completed", len(seenVariants))
		r.Info("rewrites-defined", len(rws))
	}()
	for _, c := range []cv{{"x25519", cert.Curve_CURVE25519, noise.DH25519}, {"p256", cert.Curve_P256, noiseutil.DHP256}} {
		w := c06NewWorld(c.curve, c.dh, c.name)
		for _, cph := range []ci{{"chachapoly", noise.CipherChaChaPoly}, {"aesgcm", noiseutil.CipherAESGCM}} {
			var prev *c06Session
			for _, vers := range [][2]cert.Version{{2, 2}, {1, 1}, {1, 2}, {2, 1}} {
				for k := 0; k < per; k++ {
					caseNo++
					if !verifkit.Mine(caseNo) {
						continue
					}
					rng := verifkit.SubRand("C06cs", caseNo)
					idxI, idxR := rng.Uint32()|1, rng.Uint32()|1
					if k%4 == 1 {
						idxR = idxI
					}
					base := fmt.Sprintf("%s/%s v%d->v%d", c.name, cph.name, vers[0], vers[1])
					// the plain session, then three sessions with on-path header rewrites (rotating through all of them)
					for vi := 0; vi < 4; vi++ {
						var rw *c06Rewrite
						cfg := base
						if vi > 0 {
							rw = &rws[(3*caseNo+vi)%len(rws)]
							cfg = base + " on-path rewrite " + rw.name
						}
						rec := map[string]any{"cfg": cfg, "idxI": idxI, "idxR": idxR}
						r.Pre("case %d %s", caseNo, cfg)
						var s *c06Session
						var why string
						if r.Guard("C06/panic", func() any { return rec }, func() {
							s, why = c06Handshake(w, cph.fn, w.peers[0], w.peers[1], vers[0], vers[1], idxI, idxR, rw, rec)
						}) {
							continue
						}
						r.Eval(1)
						if s == nil {
							if rw != nil {
								r.Count("variant-rejected", 1) // a rewritten packet may be refused; not this property's business
								continue
							}
							r.Count("not-completed", 1)
							if r.Counter("not-completed") <= 3 { // the rest is only counted
								r.Inconclusive(cfg + ": honest session did not complete: " + why)
							}
							continue
						}
						if rw != nil {
							r.Count("variant-completed", 1)
							seenVariants[rw.name] = true
						} else {
							r.Count("completed", 1)
						}
						rec["initiator_message_index"], rec["responder_message_index"] = s.ra.MessageIndex, s.rb.MessageIndex
						if s.ra.MessageIndex != s.rb.MessageIndex {
							r.Violation("C06/message-count-mismatch", fmt.Sprintf("%s: both sides completed, initiator reports message count %d, responder %d", cfg, s.ra.MessageIndex, s.rb.MessageIndex), rec)
							// keep going: the consequences for the data plane are judged below under their own keys
						}
						if s.ra.RemoteIndex != s.rb.LocalIndex || s.rb.RemoteIndex != s.ra.LocalIndex || s.ra.LocalIndex != idxI || s.rb.LocalIndex != idxR {
							r.Violation("C06/index-mismatch", fmt.Sprintf("%s: indexes I(local %d remote %d) R(local %d remote %d), allocated %d/%d", cfg, s.ra.LocalIndex, s.ra.RemoteIndex, s.rb.LocalIndex, s.rb.RemoteIndex, idxI, idxR), rec)
							continue
						}
						var e1, e2 error
						s.ca, e1 = newConnectionStateFromResult(s.ra)
						s.cb, e2 = newConnectionStateFromResult(s.rb)
						if e1 != nil || e2 != nil {
							r.Violation("C06/connstate-rejects-result", fmt.Sprintf("%s: both Machines completed but newConnectionStateFromResult failed: initiator %v, responder %v", cfg, e1, e2), rec)
							continue
						}
						// roles and certificates
						if !s.ca.initiator || s.cb.initiator {
							r.Violation("C06/connstate-role", cfg+": ConnectionState.initiator does not match the handshake role", rec)
						}
						if s.ca.peerCert != s.ra.RemoteCert || s.cb.peerCert != s.rb.RemoteCert ||
							!bytes.Equal(s.ca.peerCert.Certificate.PublicKey(), w.peers[1].pub) || !bytes.Equal(s.cb.peerCert.Certificate.PublicKey(), w.peers[0].pub) {
							r.Violation("C06/connstate-cert", cfg+": ConnectionState.peerCert is not the peer's certificate", rec)
						}
						ok := true
						for j := 0; j < 4 && ok; j++ {
							plen := []int{0, 1, 64, 1300}[j]
							payload := make([]byte, plen)
							for x := range payload {
								payload[x] = byte(rng.Uint32())
							}
							for dir := 0; dir < 2 && ok; dir++ {
								snd, rcv, ridx, who := s.ca, s.cb, s.ra.RemoteIndex, "initiator->responder"
								if dir == 1 {
									snd, rcv, ridx, who = s.cb, s.ca, s.rb.RemoteIndex, "responder->initiator"
								}
								pkt, ctr, err := c06Packet(snd, ridx, payload)
								if err != nil {
									r.Violation("C06/connstate-seal", fmt.Sprintf("%s %s: cannot build packet: %v", cfg, who, err), rec)
									ok = false
									break
								}
								// data counters continue right after the handshake's message count (which both sides agree on)
								sndRes := s.ra
								if dir == 1 {
									sndRes = s.rb
								}
								if want := sndRes.MessageIndex + 1 + uint64(j); ctr != want {
									r.Violation("C06/connstate-counter-start", fmt.Sprintf("%s %s: data packet #%d carries counter %d, the sender's handshake message count is %d", cfg, who, j+1, ctr, sndRes.MessageIndex), rec)
									ok = false
									break
								}
								keep := bytes.Clone(pkt)
								nb := make([]byte, 12)
								// must not open on the sending side or in another session
								if _, err := snd.Decrypt(l, ctr, bytes.Clone(keep), nb); err == nil {
									r.Violation("C06/key-not-exclusive", fmt.Sprintf("%s %s: sender's own ConnectionState opens its packet", cfg, who), rec)
									ok = false
								}
								if prev != nil {
									if _, err := prev.ca.Decrypt(l, ctr+1000, c06Renumber(keep, ctr+1000), nb); err == nil {
										r.Violation("C06/key-not-exclusive", cfg+": another session opens the packet", rec)
										ok = false
									}
									o1, e1 := prev.ca.dKey.DecryptDanger(nil, keep[:header.Len], keep[header.Len:], ctr, nb)
									o2, e2 := prev.cb.dKey.DecryptDanger(nil, keep[:header.Len], keep[header.Len:], ctr, nb)
									if e1 == nil || e2 == nil {
										_, _ = o1, o2
										r.Violation("C06/key-not-exclusive", cfg+": another session's receiving key opens the packet", rec)
										ok = false
									}
									r.Count("cross-session-probes", 3)
								}
								// the ConnectionState's sending key is the handshake result's EKey: the packet opens under the
								// peer result's DKey and not under the peer result's EKey
								peerRes := s.rb
								if dir == 1 {
									peerRes = s.ra
								}
								if o, err := noiseutil.NewCipherState(peerRes.DKey, peerRes.Cipher).DecryptDanger(nil, keep[:header.Len], keep[header.Len:], ctr, nb); err != nil || !bytes.Equal(o, payload) {
									r.Violation("C06/connstate-key-swap", fmt.Sprintf("%s %s: packet sealed by ConnectionState.eKey does not open under the peer's Result.DKey", cfg, who), rec)
									ok = false
								}
								if _, err := noiseutil.NewCipherState(peerRes.EKey, peerRes.Cipher).DecryptDanger(nil, keep[:header.Len], keep[header.Len:], ctr, nb); err == nil {
									r.Violation("C06/connstate-key-swap", fmt.Sprintf("%s %s: packet sealed by ConnectionState.eKey opens under the peer's Result.EKey", cfg, who), rec)
									ok = false
								}
								out, err := rcv.Decrypt(l, ctr, pkt, nb)
								if errors.Is(err, ErrAlreadySeen) {
									r.Violation("C06/connstate-first-packets-already-seen", fmt.Sprintf("%s %s: the peer refuses data packet #%d (counter %d) as already seen; message counts I=%d R=%d", cfg, who, j+1, ctr, s.ra.MessageIndex, s.rb.MessageIndex), rec)
									ok = false
									break
								}
								if err != nil || !bytes.Equal(out, payload) {
									r.Violation("C06/key-mismatch", fmt.Sprintf("%s %s: peer's ConnectionState.Decrypt failed (%v) or returned other bytes; counter %d len %d", cfg, who, err, ctr, plen), rec)
									ok = false
									break
								}
								r.Distinct(fmt.Sprintf("%s|%d|%d|%d|%d", cfg, idxI, idxR, plen, dir))
								r.Count("roundtrips", 1)
							}
						}
						if rw == nil {
							r.DistinctClass(fmt.Sprintf("%s completed; initiator saw v%d, responder saw v%d", cfg, s.ra.RemoteCert.Certificate.Version(), s.rb.RemoteCert.Certificate.Version()))
							if k == 0 {
								r.Sample(map[string]any{"cfg": cfg, "idxI": idxI, "idxR": idxR, "message_index": s.ra.MessageIndex})
							}
						} else if ok {
							r.Count("variant-agreed", 1)
						}
						prev = s
					}
				}
			}
		}
	}
}

// c06Renumber rewrites the message counter in the header (the packet then no longer authenticates anyway).
func c06Renumber(p []byte, ctr uint64) []byte {
	q := bytes.Clone(p)
	for i := 0; i < 8; i++ {
		q[8+i] = byte(ctr >> (56 - 8*i))
	}
	return q
}
