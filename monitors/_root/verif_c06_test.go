package nebula

// C06 (ConnectionState half) — the keys of a completed handshake, once wrapped by
// newConnectionStateFromResult on both sides, carry data packets in both directions and only between the two
// sides of that session.
//
// Oracle: for honest IX sessions run with the real handshake.Machine, packets built the way the data plane
// builds them (header as associated data, counter from NextMessageCounter, eKey.EncryptDanger) on one side
// are returned unchanged by ConnectionState.Decrypt on the other side; the sender itself, and the
// ConnectionStates of another session, refuse them. Roles and certificates of the ConnectionState are those
// of the handshake result.

import (
	"bytes"
	"fmt"
	"log/slog"
	"net/netip"
	"testing"
	"time"

	"github.com/flynn/noise"
	"github.com/slackhq/nebula/cert"
	ct "github.com/slackhq/nebula/cert_test"
	"github.com/slackhq/nebula/handshake"
	"github.com/slackhq/nebula/header"
	"github.com/slackhq/nebula/noiseutil"
	"github.com/slackhq/nebula/verifkit"
)

var c06Now = time.Date(2025, 6, 1, 0, 0, 0, 0, time.UTC)

type c06Peer struct {
	name string
	pub  []byte
	get  func(cipher noise.CipherFunc) handshake.GetCredentialFunc
}

type c06World struct {
	curveName string
	verifier  handshake.CertVerifier
	peers     []*c06Peer
}

func c06NewWorld(curve cert.Curve, dh noise.DHFunc, name string) *c06World {
	w := &c06World{curveName: name}
	pool := cert.NewCAPool()
	before, after := time.Date(2000, 1, 1, 0, 0, 0, 0, time.UTC), time.Date(2200, 1, 1, 0, 0, 0, 0, time.UTC)
	type caT struct {
		c   cert.Certificate
		key []byte
	}
	cas := map[cert.Version]caT{}
	for _, v := range []cert.Version{cert.Version1, cert.Version2} {
		ca, _, key, _ := ct.NewTestCaCert(v, curve, before, after, nil, nil, nil)
		if err := pool.AddCA(ca); err != nil {
			panic(err)
		}
		cas[v] = caT{ca, key}
	}
	w.verifier = func(c cert.Certificate) (*cert.CachedCertificate, error) { return pool.VerifyCertificate(c06Now, c) }
	for i, n := range []string{"alice", "bob", "carol"} {
		var pub, priv []byte
		if curve == cert.Curve_P256 {
			pub, priv = ct.P256Keypair()
		} else {
			pub, priv = ct.X25519Keypair()
		}
		certs := map[cert.Version]cert.Certificate{}
		hsb := map[cert.Version][]byte{}
		for _, v := range []cert.Version{cert.Version1, cert.Version2} {
			t := &cert.TBSCertificate{Version: v, Curve: curve, Name: n, PublicKey: pub,
				Networks:  []netip.Prefix{netip.PrefixFrom(netip.AddrFrom4([4]byte{10, 66, 0, byte(i + 1)}), 16)},
				NotBefore: time.Unix(c06Now.Add(-24*time.Hour).Unix(), 0), NotAfter: time.Unix(c06Now.Add(24*time.Hour).Unix(), 0)}
			c, err := t.Sign(cas[v].c, curve, cas[v].key)
			if err != nil {
				panic(err)
			}
			certs[v] = c
			hsb[v], err = c.MarshalForHandshakes()
			if err != nil {
				panic(err)
			}
		}
		w.peers = append(w.peers, &c06Peer{name: n, pub: pub, get: func(cipher noise.CipherFunc) handshake.GetCredentialFunc {
			suite := noise.NewCipherSuite(dh, cipher, noise.HashSHA256)
			m := map[cert.Version]*handshake.Credential{}
			for v := range certs {
				m[v] = handshake.NewCredential(certs[v], hsb[v], priv, suite)
			}
			return func(v cert.Version) *handshake.Credential { return m[v] }
		}})
	}
	return w
}

type c06Session struct {
	ra, rb *handshake.Result
	ca, cb *ConnectionState
}

func c06Handshake(w *c06World, cipher noise.CipherFunc, i, r *c06Peer, vi, vr cert.Version, idxI, idxR uint32) (*c06Session, string) {
	mi, err := handshake.NewMachine(vi, i.get(cipher), w.verifier, func() (uint32, error) { return idxI, nil }, true, header.HandshakeIXPSK0)
	if err != nil {
		return nil, "NewMachine initiator: " + err.Error()
	}
	mr, err := handshake.NewMachine(vr, r.get(cipher), w.verifier, func() (uint32, error) { return idxR, nil }, false, header.HandshakeIXPSK0)
	if err != nil {
		return nil, "NewMachine responder: " + err.Error()
	}
	m1, err := mi.Initiate(nil)
	if err != nil {
		return nil, "Initiate: " + err.Error()
	}
	m2, rb, err := mr.ProcessPacket(nil, m1)
	if err != nil || rb == nil {
		return nil, fmt.Sprintf("responder: %v", err)
	}
	_, ra, err := mi.ProcessPacket(nil, m2)
	if err != nil || ra == nil {
		return nil, fmt.Sprintf("initiator: %v", err)
	}
	s := &c06Session{ra: ra, rb: rb}
	if s.ca, err = newConnectionStateFromResult(ra); err != nil {
		return nil, "newConnectionStateFromResult(initiator): " + err.Error()
	}
	if s.cb, err = newConnectionStateFromResult(rb); err != nil {
		return nil, "newConnectionStateFromResult(responder): " + err.Error()
	}
	return s, ""
}

// c06Packet builds a data packet exactly like Interface.sendNoMetrics does.
func c06Packet(cs *ConnectionState, remoteIndex uint32, payload []byte) ([]byte, uint64, error) {
	c, ok := cs.NextMessageCounter()
	if !ok {
		return nil, c, fmt.Errorf("counter exhausted")
	}
	out := make([]byte, header.Len, header.Len+len(payload)+16)
	out = header.Encode(out, header.Version, header.Message, 0, remoteIndex, c)
	nb := make([]byte, 12)
	out, err := cs.eKey.EncryptDanger(out, out, payload, c, nb)
	return out, c, err
}

func TestVerifC06ConnState(t *testing.T) {
	r := verifkit.NewReporter(t, "C06", "connstate",
		"honest IX sessions (real handshake.Machine) for 2 curves x 2 ciphers x cert versions {v1,v2,mixed}; both results wrapped by newConnectionStateFromResult; data packets built like the send path in both directions; distinct = distinct (curve, cipher, versions, indexes, payload length) round trips judged")
	defer r.Done()
	l := slog.New(slog.DiscardHandler)
	per := verifkit.Scale(10, 3000)
	type cv struct {
		name  string
		curve cert.Curve
		dh    noise.DHFunc
	}
	type ci struct {
		name string
		fn   noise.CipherFunc
	}
	caseNo := 0
	for _, c := range []cv{{"x25519", cert.Curve_CURVE25519, noise.DH25519}, {"p256", cert.Curve_P256, noiseutil.DHP256}} {
		w := c06NewWorld(c.curve, c.dh, c.name)
		for _, cph := range []ci{{"chachapoly", noise.CipherChaChaPoly}, {"aesgcm", noiseutil.CipherAESGCM}} {
			var prev *c06Session
			for _, vers := range [][2]cert.Version{{2, 2}, {1, 1}, {1, 2}, {2, 1}} {
				for k := 0; k < per; k++ {
					caseNo++
					if !verifkit.Mine(caseNo) {
						continue
					}
					rng := verifkit.SubRand("C06cs", caseNo)
					idxI, idxR := rng.Uint32()|1, rng.Uint32()|1
					if k%4 == 1 {
						idxR = idxI
					}
					cfg := fmt.Sprintf("%s/%s v%d->v%d", c.name, cph.name, vers[0], vers[1])
					rec := map[string]any{"cfg": cfg, "idxI": idxI, "idxR": idxR}
					r.Pre("case %d %s", caseNo, cfg)
					var s *c06Session
					var why string
					if r.Guard("C06/panic", func() any { return rec }, func() {
						s, why = c06Handshake(w, cph.fn, w.peers[0], w.peers[1], vers[0], vers[1], idxI, idxR)
					}) {
						continue
					}
					r.Eval(1)
					if s == nil {
						r.Count("not-completed", 1)
						if r.Counter("not-completed") <= 3 { // the rest is only counted
							r.Inconclusive(cfg + ": honest session did not complete: " + why)
						}
						continue
					}
					r.Count("completed", 1)
					// roles and certificates
					if !s.ca.initiator || s.cb.initiator {
						r.Violation("C06/connstate-role", cfg+": ConnectionState.initiator does not match the handshake role", rec)
					}
					if s.ca.peerCert != s.ra.RemoteCert || s.cb.peerCert != s.rb.RemoteCert ||
						!bytes.Equal(s.ca.peerCert.Certificate.PublicKey(), w.peers[1].pub) || !bytes.Equal(s.cb.peerCert.Certificate.PublicKey(), w.peers[0].pub) {
						r.Violation("C06/connstate-cert", cfg+": ConnectionState.peerCert is not the peer's certificate", rec)
					}
					ok := true
					for j := 0; j < 4 && ok; j++ {
						plen := []int{0, 1, 64, 1300}[j]
						payload := make([]byte, plen)
						for x := range payload {
							payload[x] = byte(rng.Uint32())
						}
						for dir := 0; dir < 2 && ok; dir++ {
							snd, rcv, ridx, who := s.ca, s.cb, s.ra.RemoteIndex, "initiator->responder"
							if dir == 1 {
								snd, rcv, ridx, who = s.cb, s.ca, s.rb.RemoteIndex, "responder->initiator"
							}
							pkt, ctr, err := c06Packet(snd, ridx, payload)
							if err != nil {
								r.Violation("C06/connstate-seal", fmt.Sprintf("%s %s: cannot build packet: %v", cfg, who, err), rec)
								ok = false
								break
							}
							keep := bytes.Clone(pkt)
							nb := make([]byte, 12)
							// must not open on the sending side or in another session
							if _, err := snd.Decrypt(l, ctr, bytes.Clone(keep), nb); err == nil {
								r.Violation("C06/key-not-exclusive", fmt.Sprintf("%s %s: sender's own ConnectionState opens its packet", cfg, who), rec)
								ok = false
							}
							if prev != nil {
								if _, err := prev.ca.Decrypt(l, ctr+1000, c06Renumber(keep, ctr+1000), nb); err == nil {
									r.Violation("C06/key-not-exclusive", cfg+": another session opens the packet", rec)
									ok = false
								}
								o1, e1 := prev.ca.dKey.DecryptDanger(nil, keep[:header.Len], keep[header.Len:], ctr, nb)
								o2, e2 := prev.cb.dKey.DecryptDanger(nil, keep[:header.Len], keep[header.Len:], ctr, nb)
								if e1 == nil || e2 == nil {
									_, _ = o1, o2
									r.Violation("C06/key-not-exclusive", cfg+": another session's receiving key opens the packet", rec)
									ok = false
								}
								r.Count("cross-session-probes", 3)
							}
							// the ConnectionState's sending key is the handshake result's EKey: the packet opens under the
							// peer result's DKey and not under the peer result's EKey
							peerRes := s.rb
							if dir == 1 {
								peerRes = s.ra
							}
							if o, err := noiseutil.NewCipherState(peerRes.DKey, peerRes.Cipher).DecryptDanger(nil, keep[:header.Len], keep[header.Len:], ctr, nb); err != nil || !bytes.Equal(o, payload) {
								r.Violation("C06/connstate-key-swap", fmt.Sprintf("%s %s: packet sealed by ConnectionState.eKey does not open under the peer's Result.DKey", cfg, who), rec)
								ok = false
							}
							if _, err := noiseutil.NewCipherState(peerRes.EKey, peerRes.Cipher).DecryptDanger(nil, keep[:header.Len], keep[header.Len:], ctr, nb); err == nil {
								r.Violation("C06/connstate-key-swap", fmt.Sprintf("%s %s: packet sealed by ConnectionState.eKey opens under the peer's Result.EKey", cfg, who), rec)
								ok = false
							}
							out, err := rcv.Decrypt(l, ctr, pkt, nb)
							if err != nil || !bytes.Equal(out, payload) {
								r.Violation("C06/key-mismatch", fmt.Sprintf("%s %s: peer's ConnectionState.Decrypt failed (%v) or returned other bytes; counter %d len %d", cfg, who, err, ctr, plen), rec)
								ok = false
								break
							}
							r.Distinct(fmt.Sprintf("%s|%d|%d|%d|%d", cfg, idxI, idxR, plen, dir))
							r.Count("roundtrips", 1)
						}
					}
					r.DistinctClass(fmt.Sprintf("%s completed; initiator saw v%d, responder saw v%d", cfg, s.ra.RemoteCert.Certificate.Version(), s.rb.RemoteCert.Certificate.Version()))
					if k == 0 {
						r.Sample(map[string]any{"cfg": cfg, "idxI": idxI, "idxR": idxR, "message_index": s.ra.MessageIndex})
					}
					prev = s
				}
			}
		}
	}
}

// c06Renumber rewrites the message counter in the header (the packet then no longer authenticates anyway).
func c06Renumber(p []byte, ctr uint64) []byte {
	q := bytes.Clone(p)
	for i := 0; i < 8; i++ {
		q[8+i] = byte(ctr >> (56 - 8*i))
	}
	return q
}
