//go:build e2e_testing

package nebula

// C13 — nonces are never reused and the counter ceiling is enforced.
//
// Unit (E-conc, -race): a real node from nebula.Main (not started: no reader goroutines compete) holding a real
// tunnel to a puppet peer. The tunnel's sending cipher is wrapped by a recorder that sees every encryption
// (key, n). Senders on 2..32 goroutines use every production send path concurrently:
// sendInsideEncrypt (data path), sendNoMetrics (test/lighthouse/control/close), prepareSendVia / SendVia (relay).
// The send.afterReserve hook widens the gap between counter reservation and encryption.
// Oracle (online, inside the recorder): every successful encryption uses a fresh n, n > handshake message
// index, n < RejectAfterMessages; when the build requires ordered nonces (EncryptLockNeeded: FIPS / boring) n is
// strictly greater than the previous n seen by the cipher. With GODEBUG=fips140=on the real FIPS AEAD panics
// on a non-increasing nonce: an independent oracle in the same run.
//
// Node (E-net): every non-handshake packet on the wire is parsed; (sender, destination, index, relay?) + counter
// must be unique and > 2.

import (
	"crypto/fips140"
	"fmt"
	"io"
	"net/netip"
	"os"
	"runtime"
	"sync"
	"sync/atomic"
	"testing"
	"time"

	"github.com/slackhq/nebula/cert"
	"github.com/slackhq/nebula/header"
	"github.com/slackhq/nebula/noiseutil"
	"github.com/slackhq/nebula/overlay/tio"
	"github.com/slackhq/nebula/verifkit"
)

type c13Recorder struct {
	inner    noiseutil.CipherState
	r        *verifkit.Reporter
	label    string
	hsIndex  uint64
	ordered  bool
	base     uint64
	bits     []atomic.Uint64 // dense bitmap for counters in [base, base+64*len)
	mu       sync.Mutex
	sparse   map[uint64]struct{}
	last     atomic.Uint64
	ok       atomic.Int64
	rejected atomic.Int64
}

func newC13Recorder(inner noiseutil.CipherState, r *verifkit.Reporter, label string, hsIndex, base uint64, span int) *c13Recorder {
	return &c13Recorder{inner: inner, r: r, label: label, hsIndex: hsIndex, ordered: noiseutil.EncryptLockNeeded, base: base,
		bits: make([]atomic.Uint64, span/64+2), sparse: map[uint64]struct{}{}}
}

func (c *c13Recorder) seen(n uint64) bool {
	if n >= c.base && n-c.base < uint64(len(c.bits))*64 {
		off := n - c.base
		mask := uint64(1) << (off & 63)
		return c.bits[off>>6].Or(mask)&mask != 0
	}
	c.mu.Lock()
	defer c.mu.Unlock()
	_, dup := c.sparse[n]
	c.sparse[n] = struct{}{}
	return dup
}

func (c *c13Recorder) EncryptDanger(out, ad, plaintext []byte, n uint64, nb []byte) ([]byte, error) {
	res, err := c.inner.EncryptDanger(out, ad, plaintext, n, nb)
	if err != nil {
		c.rejected.Add(1)
		return res, err
	}
	c.ok.Add(1)
	if c.seen(n) {
		c.r.Violation("C13/nonce-reused", fmt.Sprintf("%s: counter %d was used for two encryptions under the same key", c.label, n), map[string]any{"label": c.label, "counter": n})
	}
	if n <= c.hsIndex {
		c.r.Violation("C13/counter-not-above-handshake", fmt.Sprintf("%s: counter %d is not above the handshake's message index %d", c.label, n, c.hsIndex), map[string]any{"label": c.label, "counter": n})
	}
	if n >= RejectAfterMessages {
		c.r.Violation("C13/counter-at-or-beyond-ceiling", fmt.Sprintf("%s: encryption with counter %d >= ceiling %d", c.label, n, uint64(RejectAfterMessages)), map[string]any{"label": c.label, "counter": n})
	}
	if c.ordered {
		prev := c.last.Swap(n)
		if prev >= n && prev != 0 {
			c.r.Violation("C13/nonce-order-not-increasing", fmt.Sprintf("%s: ordered-nonce build saw counter %d after %d", c.label, n, prev), map[string]any{"label": c.label, "counter": n, "previous": prev})
		}
	}
	return res, nil
}

func (c *c13Recorder) DecryptDanger(out, ad, ciphertext []byte, n uint64, nb []byte) ([]byte, error) {
	return c.inner.DecryptDanger(out, ad, ciphertext, n, nb)
}
func (c *c13Recorder) Overhead() int { return c.inner.Overhead() }

// c13SyncTunnel completes a genuine IX handshake between a puppet and a not-started node by calling the
// handshake manager synchronously; returns the node-side hostinfo.
func c13SyncTunnel(nw *vnNet, node *vnNode, p *vnPuppet) *HostInfo {
	t := p.HandshakeVia(node, func(msg []byte) {
		var h header.H
		if err := h.Parse(msg); err != nil {
			panic(err)
		}
		node.F.handshakeManager.HandleIncoming(ViaSender{UdpAddr: p.Addr}, msg, &h)
		nw.drain()
	})
	if t == nil {
		panic("sync handshake failed")
	}
	return node.F.hostMap.QueryVpnAddr(p.Ident.Addr())
}

func TestVerifC13Unit(t *testing.T) {
	unitName := "unit"
	if s := os.Getenv("VERIF_UNIT_SUFFIX"); s != "" {
		unitName = s
	}
	r := verifkit.NewReporter(t, "C13", unitName,
		"real Interface + real tunnel; recorder wrapped around the tunnel's sending cipher observes every (key, counter); 2..32 goroutines mix all production send paths (data, test, lighthouse, control, close, relay) with yields between reservation and encryption; counter pre-set to 2, around the rekey threshold and around the ceiling; distinct = (path mix, goroutines, start class, outcome) classes plus distinct counters used")
	defer r.Done()
	r.Info("fips140_enabled", fips140.Enabled())
	r.Info("encrypt_lock_needed", noiseutil.EncryptLockNeeded)
	rng := verifkit.NewRand("C13unit")

	var yrng atomic.Uint64
	yrng.Store(verifkit.Seed()*7919 + 3)
	hook := func(id int) {
		if id != verifSendAfterReserve {
			return
		}
		r.Count("hook_send_afterReserve", 1)
		x := yrng.Add(0x9e3779b97f4a7c15)
		x ^= x >> 29
		if x&1 == 0 {
			runtime.Gosched()
		}
		if x&127 == 3 {
			time.Sleep(2 * time.Microsecond)
		}
	}
	verifHook.Store(&hook)
	defer verifHook.Store(nil)

	type startCase struct {
		name  string
		start uint64
		ops   int
	}
	G := uint64(64)
	starts := []startCase{
		{"after-handshake", 0, verifkit.Scale(120_000, 4_000_000)},
		{"rekey-threshold", RehandshakeAfterMessages - 5000, verifkit.Scale(40_000, 500_000)},
		{"below-ceiling", RejectAfterMessages - 3*G, 5000},
		{"at-ceiling", RejectAfterMessages - 1, 3000},
		{"beyond-ceiling", RejectAfterMessages + G, 3000},
	}
	for _, cipher := range []string{"aes", "chachapoly"} {
		if fips140.Enabled() && cipher == "chachapoly" {
			continue
		}
		for _, sc := range starts {
			ca := vnNewCA(cert.Version2, cert.Curve_CURVE25519)
			nw := vnNewNet(t)
			node := nw.AddNode(ca.issue([]cert.Version{cert.Version2}, "n", "10.1.0.1/16", "", nil), []*vnCA{ca}, "192.0.2.1:4242", m{"cipher": cipher})
			pa := nw.AddPuppetCipher(ca.issue([]cert.Version{cert.Version2}, "p", "10.1.0.9/16", "", nil), []*vnCA{ca}, "192.0.2.9:4242", cert.Version2, cipher)
			hi := c13SyncTunnel(nw, node, pa)
			ci := hi.ConnectionState
			hsIdx := ci.messageCounter.Load()
			if sc.start != 0 {
				ci.messageCounter.Store(sc.start)
			}
			base := ci.messageCounter.Load()
			rec := newC13Recorder(ci.eKey, r, cipher+"/"+sc.name, hsIdx, base, sc.ops*4+4096)
			ci.eKey = rec
			f := node.F
			relay := &Relay{Type: TerminalType, State: Established, LocalIndex: 77, RemoteIndex: 88, PeerAddr: netip.MustParseAddr("10.1.0.77")}

			// drain whatever the send paths write to the (channel backed) underlay
			stopDrain := make(chan struct{})
			var drained atomic.Int64
			var dwg sync.WaitGroup
			dwg.Add(1)
			go func() {
				defer dwg.Done()
				for {
					select {
					case p := <-node.udp().TxPackets:
						drained.Add(1)
						p.Release()
					case <-stopDrain:
						return
					}
				}
			}()

			g := []int{2, 4, 8, 32}[rng.IntN(4)]
			per := sc.ops / g
			var bailed atomic.Int64
			r.Pre("unit cipher=%s start=%s goroutines=%d ops=%d", cipher, sc.name, g, sc.ops)
			var wg sync.WaitGroup
			for w := 0; w < g; w++ {
				wg.Add(1)
				wr := verifkit.SubRand("C13worker"+cipher+sc.name, w)
				go func() {
					defer wg.Done()
					nb := make([]byte, 12)
					out := make([]byte, mtu)
					scratch := make([]byte, mtu)
					payload := make([]byte, 64)
					pkt, _ := vnUDP4(netip.MustParseAddr("10.1.0.1"), netip.MustParseAddr("10.1.0.9"), 1, 2, 20)
					for i := 0; i < per; i++ {
						switch k := wr.IntN(10); {
						case k <= 4:
							f.sendInsideEncrypt(hi, ci, pkt, scratch[:0], nb)
						case k == 5:
							f.sendNoMetrics(header.Test, header.TestRequest, ci, hi, netip.AddrPort{}, payload[:8], nb, out[:0], 0)
						case k == 6:
							f.SendMessageToHostInfo(header.LightHouse, 0, hi, payload[:32], nb, out[:0])
						case k == 7:
							f.send(header.Control, 0, ci, hi, payload[:16], nb, out[:0])
						case k == 8:
							f.SendVia(hi, relay, payload[:48], nb, out[:0], false, 0)
						case k == 9 && i%3 == 0:
							// relay send whose output buffer is too small: bails out after reserving a counter
							small := make([]byte, 0, 40)
							if _, err := f.prepareSendVia(hi, relay, payload[:48], nb, small, false); err == io.ErrShortBuffer {
								bailed.Add(1)
							}
						default:
							f.prepareSendVia(hi, relay, payload[:40], nb, out[:0], false)
						}
					}
				}()
			}
			wg.Wait()
			close(stopDrain)
			dwg.Wait()
			okN, rejN := rec.ok.Load(), rec.rejected.Load()
			r.Eval(per * g)
			r.Count("encryptions_observed", int(okN))
			r.Count("encryptions_refused_by_cipher_ceiling", int(rejN))
			final := ci.messageCounter.Load()
			outcome := "all-sent"
			if okN == 0 {
				outcome = "all-refused"
			} else if int(okN) < per*g {
				outcome = "partly-refused"
			}
			r.DistinctClass(fmt.Sprintf("cipher=%s start=%s goroutines=%d outcome=%s", cipher, sc.name, g, outcome))
			for i := uint64(0); i < uint64(okN); i += 997 {
				r.Distinct(fmt.Sprintf("%s %s %d", cipher, sc.name, base+i))
			}
			// conservation: below the ceiling every reserved counter is used exactly once, so the number of
			// successful encryptions equals the counter advance.
			if sc.start < RejectAfterMessages-3*G-100 {
				r.Count("relay_sends_bailed_out_short_buffer", int(bailed.Load()))
				if final-base != uint64(per*g) || int(okN) != per*g-int(bailed.Load()) {
					r.Violation("C13/counter-conservation", fmt.Sprintf("%s/%s: %d sends advanced the counter by %d with %d encryptions", cipher, sc.name, per*g, final-base, okN),
						map[string]any{"cipher": cipher, "start": sc.name, "sends": per * g, "advance": final - base, "encryptions": okN})
				}
			}
			if sc.name == "beyond-ceiling" && okN != 0 {
				r.Violation("C13/counter-at-or-beyond-ceiling", fmt.Sprintf("%s: %d encryptions happened with the counter beyond the ceiling", cipher, okN), map[string]any{"cipher": cipher})
			}
			if final > RejectAfterMessages+uint64(g)*4 && sc.start <= RejectAfterMessages {
				// the shared counter is pinned at the ceiling by NextMessageCounter; the data path's bare Add may run past it
				// by at most the number of racing senders, never towards the wrap
				r.Info("counter_overrun_past_ceiling_"+cipher+"_"+sc.name, final-RejectAfterMessages)
			}
			r.Sample(map[string]any{"cipher": cipher, "start": sc.name, "goroutines": g, "sends": per * g, "encryptions": okN, "refused": rejN, "first_counter": base + 1, "final_counter": final})
			_ = tio.Packet{}
			node.C.Stop()
		}
	}
	if r.Counter("hook_send_afterReserve") == 0 {
		r.Inconclusive("hook send.afterReserve never reached")
	}
}

func TestVerifC13Node(t *testing.T) {
	r := verifkit.NewReporter(t, "C13", "node",
		"started nodes (direct pair and relay triangle) exchanging unique payloads both ways plus periodic test/lighthouse/control traffic over virtual time; every non-handshake packet on the wire is parsed; distinct = distinct (sender, destination, index, relay?, counter) tuples")
	defer r.Done()
	scen := verifkit.Scale(4, 60)
	for sc := 0; sc < scen; sc++ {
		if !verifkit.Mine(sc) {
			continue
		}
		rng := verifkit.SubRand("C13node", sc)
		vnRunBubble(t, func(t *testing.T) {
			tr := vnNewTriangle(t, cert.Version2, cert.Curve_CURVE25519, nil)
			nw, a, b, rl := tr.NW, tr.A, tr.B, tr.R
			defer nw.StopAll()
			type key struct {
				sender string
				to     netip.AddrPort
				idx    uint32
				relay  bool
			}
			seen := map[key]map[uint64]bool{}
			nw.OnUDP = func(p *vnPacket) {
				if !p.HOK || p.H.Type == header.Handshake || p.H.Type == header.RecvError {
					return
				}
				k := key{p.Sender.Name, p.To, p.H.RemoteIndex, p.H.Type == header.Message && p.H.Subtype == header.MessageRelay}
				mm := seen[k]
				if mm == nil {
					mm = map[uint64]bool{}
					seen[k] = mm
				}
				r.Eval(1)
				r.Distinct(fmt.Sprintf("sc%d %v %d", sc, k, p.H.MessageCounter))
				if mm[p.H.MessageCounter] {
					r.Violation("C13/wire-counter-reused", fmt.Sprintf("scenario %d: %s sent two packets with counter %d on tunnel index %d to %s", sc, k.sender, p.H.MessageCounter, k.idx, k.to),
						map[string]any{"scenario": sc, "packet": p.String()})
				}
				mm[p.H.MessageCounter] = true
				if k.relay && len(p.Data) >= 2*header.Len+16 {
					// the end-to-end packet riding inside a relay wrapper has its own tunnel key and counter
					var ih header.H
					if err := ih.Parse(p.Data[header.Len:]); err == nil && ih.Type != header.Handshake && p.To == rl.Addr {
						ik := key{p.Sender.Name + "(inner)", p.To, ih.RemoteIndex, false}
						im := seen[ik]
						if im == nil {
							im = map[uint64]bool{}
							seen[ik] = im
						}
						if im[ih.MessageCounter] {
							r.Violation("C13/wire-counter-reused", fmt.Sprintf("scenario %d: %s sent two relayed inner packets with counter %d on end-to-end tunnel index %d", sc, p.Sender.Name, ih.MessageCounter, ih.RemoteIndex),
								map[string]any{"scenario": sc, "packet": p.String()})
						}
						im[ih.MessageCounter] = true
						r.Count("relayed_inner_counters_checked", 1)
					}
				}
				if p.H.MessageCounter <= 2 {
					r.Violation("C13/wire-counter-not-above-handshake", fmt.Sprintf("scenario %d: %s", sc, p.String()), map[string]any{"scenario": sc, "packet": p.String()})
				}
			}
			// a<->b via relay, a<->r direct
			n := verifkit.Scale(40, 120)
			for i := 0; i < n; i++ {
				pairs := [][2]*vnNode{{a, b}, {b, a}, {a, rl}, {rl, a}, {b, rl}}
				pr := pairs[rng.IntN(len(pairs))]
				if i > n/4 && rng.IntN(4) == 0 {
					// a USO superpacket: one counter per segment, on the direct and on the relayed send path
					k, chunk := 2+rng.IntN(4), 40+rng.IntN(200)
					sp, segs, _ := vnUSO(pr[0].Ident.Addr(), pr[1].Ident.Addr(), uint16(100+i), 9, k, chunk, 16+rng.IntN(chunk-15))
					nw.TunSendSuper(pr[0], sp)
					r.Count("superpacket_segments_sent", len(segs))
				} else {
					pkt, _ := vnUDP4(pr[0].Ident.Addr(), pr[1].Ident.Addr(), uint16(100+i), 9, rng.IntN(200))
					nw.TunSend(pr[0], pkt)
				}
				if rng.IntN(3) == 0 {
					nw.Flush()
				}
				if rng.IntN(6) == 0 {
					nw.AdvanceFlushing(time.Duration(1+rng.IntN(4))*time.Second, time.Second)
				}
			}
			nw.AdvanceFlushing(10*time.Second, time.Second)
			r.Count("tunnel_keys_seen", len(seen))
			if sc < 2 {
				r.Sample(map[string]any{"scenario": sc, "tunnel_keys": len(seen), "udp_packets": len(nw.Archive)})
			}
		})
	}
}
