//go:build e2e_testing

package nebula

// C34 — the packet engine is free of data races and deadlocks.
//
// Concurrent mode: five started nodes (lighthouse, relay, three peers, one with two overlay addresses) in a synctest
// bubble, built with the Go race detector. Free-running goroutines: one packet pump per node (the "network", dropping
// when a receiver's queue is full, sometimes duplicating / reordering), one tun drain per node, traffic generators on all
// ordered pairs (direct and relayed), tunnel churn (close local/remote, forced re-handshake), roaming (underlay address
// changes), and configuration reloads (firewall, preferred ranges, lighthouse interval, punchy, relay, recv_error,
// tunnels) fired through the real reload path. All build-tagged yield hooks yield at random.
// Oracle: the race detector (every distinct report is a witness with both stacks; the driver de-duplicates by the pair
// of first nebula frames), Go runtime fatal errors (concurrent map access...), and for deadlocks the watchdog's goroutine
// dump classifier. The monitor itself only checks liveness of the workload: traffic must keep flowing until the end.

import (
	"context"
	"fmt"
	"net/netip"
	"runtime"
	"sync"
	"sync/atomic"
	"testing"
	"time"

	"github.com/slackhq/nebula/cert"
	"github.com/slackhq/nebula/overlay"
	"github.com/slackhq/nebula/udp"
	"github.com/slackhq/nebula/verifkit"
	"github.com/slackhq/nebula/verifkit/verifsync"
)

type c34Net struct {
	mu     sync.RWMutex
	byAddr map[netip.AddrPort]*vnNode
}

func (n *c34Net) lookup(a netip.AddrPort) *vnNode {
	n.mu.RLock()
	defer n.mu.RUnlock()
	return n.byAddr[a]
}

func TestVerifC34Stress(t *testing.T) {
	r := verifkit.NewReporter(t, "C34", "stress",
		"N runs of a 5-node mesh (lighthouse + relay + 3 peers) under the race detector for S virtual seconds each with concurrent traffic on all pairs, tunnel churn, roaming and config reloads; distinct = (run, event kind) classes; the deciding observations are race reports / fatal errors / deadlock dumps collected by the driver")
	defer r.Done()
	runs := verifkit.Scale(6, 36)
	secs := verifkit.Scale(20, 90)
	var yrng atomic.Uint64
	yrng.Store(verifkit.Seed()*977 + 11)
	var hookHits [8]atomic.Int64
	hook := func(id int) {
		if id >= 0 && id < len(hookHits) {
			hookHits[id].Add(1)
		}
		x := yrng.Add(0x9e3779b97f4a7c15)
		x ^= x >> 30
		if x&3 == 0 {
			runtime.Gosched()
		}
	}
	verifHook.Store(&hook)
	defer verifHook.Store(nil)

	for run := 0; run < runs; run++ {
		if !verifkit.Mine(run) {
			continue
		}
		var delivered, sentPk, reloads, churns, roams, udpMoved, queries atomic.Int64
		// one subtest per run: a race report fails (FailNow) only the run it happened in, the remaining runs still execute
		t.Run(fmt.Sprintf("run%d", run), func(t *testing.T) {
			vnRunBubble(t, func(t *testing.T) {
				ver := cert.Version2
				ca := vnNewCA(ver, []cert.Curve{cert.Curve_CURVE25519, cert.Curve_P256}[run%3/2])
				nw := vnNewNet(t)
				vs := []cert.Version{ver}
				idL := ca.issue(vs, "lh", "10.1.0.100/16", "", []string{"lh"})
				lhOver := m{"lighthouse": m{"am_lighthouse": true}}
				L := nw.AddNode(idL, []*vnCA{ca}, "192.0.2.100:4242", lhOver)
				nodes := []*vnNode{L}
				relayAddr := "10.1.0.1"
				for i := 0; i < 4; i++ {
					nets := fmt.Sprintf("10.1.0.%d/16", i+1)
					if i == 2 {
						nets += ",10.1.1.3/16"
					}
					id := ca.issue(vs, fmt.Sprintf("p%d", i+1), nets, "", []string{"peers"})
					over := m{
						"lighthouse":      m{"hosts": []string{idL.Addr().String()}, "interval": 2},
						"static_host_map": m{idL.Addr().String(): []string{L.Addr.String()}},
						"relay":           m{"relays": []string{relayAddr}, "use_relays": true},
						"punchy":          m{"punch": true, "respond": true},
						"firewall":        m{"conntrack": m{"routine_cache_timeout": "100ms"}},
					}
					if i == 0 {
						over["relay"] = m{"am_relay": true}
					}
					p := nw.AddNode(id, []*vnCA{ca}, fmt.Sprintf("192.0.2.%d:4242", i+1), over)
					addr := p.Addr.Addr()
					p.C.SetLocalAddrsFn(func(*LocalAllowList) []netip.Addr { return []netip.Addr{addr} })
					nodes = append(nodes, p)
				}
				cn := &c34Net{byAddr: map[netip.AddrPort]*vnNode{}}
				for _, n := range nodes {
					cn.byAddr[n.Addr] = n
				}
				for _, n := range nodes {
					n.Start()
				}
				ctx, cancel := context.WithCancel(context.Background())       // generators and chaos
				netCtx, netCancel := context.WithCancel(context.Background()) // the network pumps and tun drains
				var wg, netWg sync.WaitGroup
				seedBase := int(verifkit.Seed())*1000 + run*100

				// the network: one pump per node
				for i, n := range nodes {
					netWg.Add(1)
					go func(i int, n *vnNode) {
						defer netWg.Done()
						rng := verifkit.SubRand("C34pump", seedBase+i)
						tx := n.udp().TxPackets
						var held *udp.Packet
						for {
							select {
							case <-netCtx.Done():
								return
							case p := <-tx:
								udpMoved.Add(1)
								deliver := func(q *udp.Packet) {
									dst := cn.lookup(q.To)
									if dst == nil {
										q.Release()
										return
									}
									// the last two peers have no direct path to each other: everything between them rides on the relay, so relay
									// lookups and forwarding run while tunnels to the relay are re-made and torn down
									if (n == nodes[3] && dst == nodes[4]) || (n == nodes[4] && dst == nodes[3]) {
										q.Release()
										return
									}
									select {
									case dst.udp().RxPackets <- q:
									default:
										q.Release() // receiver queue full: the network drops
									}
								}
								switch rng.IntN(40) {
								case 0:
									p.Release() // loss
								case 1:
									deliver(p.Copy()) // duplicate
									deliver(p)
								case 2:
									if held != nil {
										deliver(held)
									}
									held = p // reorder: hold one back
								default:
									deliver(p)
									if held != nil && rng.IntN(3) == 0 {
										deliver(held)
										held = nil
									}
								}
							}
						}
					}(i, n)
					netWg.Add(1)
					go func(n *vnNode) {
						defer netWg.Done()
						tx := n.tun().TxPackets
						for {
							select {
							case <-netCtx.Done():
								return
							case b := <-tx:
								delivered.Add(1)
								overlay.ReleaseTunBuf(b)
							}
						}
					}(n)
				}
				// traffic generators: every ordered pair
				for i, a := range nodes {
					for j, b := range nodes {
						if i == j {
							continue
						}
						wg.Add(1)
						go func(a, b *vnNode, k int) {
							defer wg.Done()
							rng := verifkit.SubRand("C34traffic", seedBase+k)
							for c := 0; ; c++ {
								select {
								case <-ctx.Done():
									return
								default:
								}
								dsts := b.Ident.Addrs()
								pkt, _ := vnUDP4(a.Ident.Addr(), dsts[rng.IntN(len(dsts))], uint16(1000+k), uint16(80+rng.IntN(3)), rng.IntN(300))
								a.C.InjectTunPacket(pkt)
								sentPk.Add(1)
								time.Sleep(time.Duration(3+rng.IntN(40)) * time.Millisecond)
							}
						}(a, b, i*10+j)
					}
				}
				// the two peers that only reach each other through the relay keep re-making their tunnel to the relay (and the
			// relay its tunnels to them), so relayed sends and forwards run against peers that hold several tunnels
			for _, pr := range [][2]*vnNode{{nodes[3], nodes[1]}, {nodes[4], nodes[1]}, {nodes[1], nodes[3]}, {nodes[1], nodes[4]}} {
				wg.Add(1)
				go func(n, o *vnNode, k int) {
					defer wg.Done()
					rng := verifkit.SubRand("C34relaychurn", seedBase+k)
					for {
						select {
						case <-ctx.Done():
							return
						default:
						}
						time.Sleep(time.Duration(200+rng.IntN(600)) * time.Millisecond)
						if ctx.Err() != nil {
							return
						}
						if rng.IntN(4) == 0 {
							n.C.CloseTunnel(o.Ident.Addr(), rng.IntN(2) == 0)
						} else {
							n.C.ReHandshake(o.Ident.Addr())
						}
						churns.Add(1)
					}
				}(pr[0], pr[1], int(pr[0].Addr.Port())+int(pr[1].Addr.Addr().As4()[3]))
			}
			// operators: the read-side control API (what the ssh debug commands and embedding applications call) on every node
				for i, n := range nodes {
					wg.Add(1)
					go func(i int, n *vnNode) {
						defer wg.Done()
						rng := verifkit.SubRand("C34operator", seedBase+i)
						for {
							select {
							case <-ctx.Done():
								return
							default:
							}
							time.Sleep(time.Duration(20+rng.IntN(200)) * time.Millisecond)
							o := nodes[rng.IntN(len(nodes))]
							switch rng.IntN(8) {
							case 0:
								n.C.ListHostmapHosts(rng.IntN(2) == 0)
							case 1:
								n.C.ListHostmapIndexes(rng.IntN(2) == 0)
							case 2:
								n.C.GetCertByVpnIp(o.Ident.Addr())
							case 3:
								n.C.PrintTunnel(o.Ident.Addr())
							case 4:
								n.C.QueryLighthouse(o.Ident.Addr())
							case 5:
								n.C.GetHostInfoByVpnAddr(o.Ident.Addr(), rng.IntN(2) == 0)
							case 6:
								if o != n {
									n.C.CreateTunnel(o.Ident.Addr())
								}
							default:
								n.C.State()
							}
							queries.Add(1)
						}
					}(i, n)
				}
				// churn, roaming, reloads: one goroutine per node so reloads of one node never overlap
				for i, n := range nodes {
					wg.Add(1)
					go func(i int, n *vnNode) {
						defer wg.Done()
						rng := verifkit.SubRand("C34chaos", seedBase+i)
						gen := 0
						for {
							select {
							case <-ctx.Done():
								return
							default:
							}
							time.Sleep(time.Duration(150+rng.IntN(700)) * time.Millisecond)
							if ctx.Err() != nil {
								return
							}
							o := nodes[rng.IntN(len(nodes))]
							switch k := rng.IntN(14); {
							case k < 3 && o != n:
								n.C.CloseTunnel(o.Ident.Addr(), rng.IntN(2) == 0)
								churns.Add(1)
							case k < 5 && o != n:
								n.C.ReHandshake(o.Ident.Addr())
								churns.Add(1)
							case k == 5 && i > 0:
								// roam: new underlay port, the network learns it at once
								gen++
								na := netip.AddrPortFrom(n.Addr.Addr(), uint16(5000+i*100+gen%50))
								cn.mu.Lock()
								cn.byAddr[na] = n
								cn.mu.Unlock()
								n.C.SetUDPAddr(na)
								roams.Add(1)
							case k == 6:
								n.C.RebindUDPServer()
							case k == 7:
								n.C.CloseAllTunnels(rng.IntN(2) == 0)
								churns.Add(1)
							default:
								gen++
								var ch m
								switch rng.IntN(8) {
								case 0:
									ch = m{"firewall": m{"inbound": []m{{"proto": "any", "port": "any", "host": "any"}, {"proto": "tcp", "port": 1000 + gen, "group": "peers"}}}}
								case 1:
									ch = m{"firewall": m{"outbound": []m{{"proto": "any", "port": "any", "host": "any"}, {"proto": "udp", "port": 2000 + gen, "host": "any"}}}}
								case 2:
									ch = m{"preferred_ranges": []string{fmt.Sprintf("192.0.%d.0/24", gen%4)}}
								case 3:
									ch = m{"punchy": m{"punch": gen%2 == 0, "respond": gen%3 == 0, "delay": fmt.Sprintf("%dms", 100+gen%5*100)}}
								case 4:
									ch = m{"tunnels": m{"drop_inactive": gen%2 == 0, "inactivity_timeout": fmt.Sprintf("%ds", 3+gen%5)}}
								case 5:
									ch = m{"listen": m{"send_recv_error": []string{"always", "never", "private"}[gen%3], "accept_recv_error": []string{"always", "never", "private"}[(gen/3)%3]}}
								case 6:
									ch = m{"counters": m{"try_promote": 1 + gen%7, "requery_every_packets": 5 + gen%11}, "timers": m{"requery_wait_duration": fmt.Sprintf("%dms", 100+gen%9*50)}}
								default:
									if i > 0 {
										ch = m{"lighthouse": m{"interval": 1 + gen%4, "remote_allow_list": m{"0.0.0.0/0": true, fmt.Sprintf("203.0.113.%d/32", gen%200): false}}}
									} else {
										ch = m{"lighthouse": m{"remote_allow_list": m{"0.0.0.0/0": true}}}
									}
								}
								n.Reload(ch)
								reloads.Add(1)
							}
						}
					}(i, n)
				}

				// let it run in virtual time, checking the workload stays alive
				last := int64(0)
				stalls := 0
				for s := 0; s < secs; s++ {
					time.Sleep(time.Second)
					d := delivered.Load()
					if d == last {
						stalls++
					}
					last = d
				}
				// generators and chaos first (the network keeps moving so nobody stays blocked on a full queue), then the network
				cancel()
				wg.Wait()
				netCancel()
				netWg.Wait()
				var swg sync.WaitGroup
				for _, n := range nodes {
					swg.Add(1)
					go func(n *vnNode) {
						defer swg.Done()
						n.C.Stop()
						n.C.Wait()
					}(n)
				}
				// keep draining while they stop
				stopDrain := make(chan struct{})
				for _, n := range nodes {
					go func(n *vnNode) {
						for {
							select {
							case <-stopDrain:
								return
							case p := <-n.udp().TxPackets:
								p.Release()
							case b := <-n.tun().TxPackets:
								overlay.ReleaseTunBuf(b)
							}
						}
					}(n)
				}
				swg.Wait()
				close(stopDrain)
				r.Eval(int(sentPk.Load()))
				if stalls > secs/2 {
					r.Violation("C34/workload-stalled", fmt.Sprintf("run %d: no packet reached any tun in %d of %d virtual seconds", run, stalls, secs), map[string]any{"run": run, "delivered": delivered.Load(), "sent": sentPk.Load()})
				}
				// recorded inside the bubble: when the race detector fires, the enclosing test is failed and nothing after it runs
				r.Count("tun_packets_sent", int(sentPk.Load()))
				r.Count("tun_packets_delivered", int(delivered.Load()))
				r.Count("udp_packets_moved", int(udpMoved.Load()))
				r.Count("config_reloads", int(reloads.Load()))
				r.Count("tunnel_churn_events", int(churns.Load()))
				r.Count("roam_events", int(roams.Load()))
				r.Count("control_api_queries", int(queries.Load()))
				r.Count("virtual_seconds", secs)
				r.DistinctClass(fmt.Sprintf("run %d completed", run))
				r.Distinct(fmt.Sprintf("run %d delivered=%d", run, delivered.Load()))
				r.Sample(map[string]any{"run": run, "virtual_seconds": secs, "sent": sentPk.Load(), "delivered": delivered.Load(), "udp_packets": udpMoved.Load(), "reloads": reloads.Load(), "churn": churns.Load(), "roams": roams.Load()})

				for i, nme := range c34HookNames {
					r.Count("hook."+nme, int(hookHits[i].Swap(0)))
				}
			})
		})
	}
	c34LockOrder(r)
}

// c34LockOrder judges what the lock-order instrumentation (kit/verifsync, applied to every mutex of package nebula in the
// build overlay) recorded over all runs of this process: a cycle in the lock-class graph is a deadlock waiting for its
// interleaving, whether or not this run hit it.
func c34LockOrder(r *verifkit.Reporter) {
	acq, nest, foreign, classes := verifsync.Stats()
	r.Count("lockorder.acquisitions", int(acq))
	r.Count("lockorder.nested_acquisitions", int(nest))
	r.Count("lockorder.unlocks_on_other_goroutine(not tracked)", int(foreign))
	r.Info("lockorder.classes", classes)
	var es []string
	for _, e := range verifsync.Edges() {
		es = append(es, fmt.Sprintf("%s -> %s (%d)", e.From, e.To, e.Count))
		r.DistinctClass("lock order " + e.From + " -> " + e.To)
	}
	r.Info("lockorder.edges", es)
	r.Count("lockorder.distinct_edges", len(es))
	for _, c := range verifsync.Cycles() {
		r.Violation("C34/lock-order-inversion:"+c.Key, "lock classes are acquired in both orders (deadlock when the two paths interleave): "+c.Key, map[string]any{"cycle": c.Key, "edges": c.String()})
	}
	for cls, st := range verifsync.RecursiveReadLocks() {
		r.Violation("C34/recursive-read-lock:"+cls, "a goroutine read-locks "+cls+" while already holding the same instance for reading (deadlocks once a writer queues in between)", map[string]any{"class": cls, "stack": st})
	}
	for _, e := range verifsync.SelfEdges() {
		r.Count("lockorder.same_class_nesting."+e.From, int(e.Count))
	}
}

var c34HookNames = []string{"decrypt.afterCheck", "decrypt.beforeUpdate", "send.afterReserve", "hs.beforeCheckAndComplete", "hs.beforeComplete", "hs.afterAllocIndex", "fw.afterInConnsMiss", "cm.beforeSwapPrimary"}
