//go:build e2e_testing

package nebula

// C15 — relays never see or alter end-to-end traffic.
//
// Four started nodes in a synctest bubble: endpoints A and C reach endpoint B only through relay R (and B answers
// through R). Everything is serialized (one injected packet, quiescence, judge).
//
// Honest phase (R is the real, unmodified relay): tun packets with unique ids flow on all four directions. Observed:
//   - every UDP datagram any node emits: the plaintext id marker never appears on the wire;
//   - every relay-wrapped datagram an endpoint hands to R: its inner packet opens under the destination endpoint's tunnel
//     key to exactly the tun packet that was sent, and opens under none of the keys R holds;
//   - every relay-wrapped datagram R emits carries an inner packet byte-identical to one it was handed;
//   - R's own tun never outputs anything; each packet reaches the right endpoint's tun exactly once, unchanged.
//
// Hostile phase (R compromised: the harness keeps endpoint traffic away from the real R and instead seals relay-wrapped
// datagrams itself with R's genuine tunnel keys, fresh counters and the genuine relay indexes, so the outer layer always
// authenticates): genuine fresh inner packets (baseline), bit flips / truncation / extension / header rewrites, replays of
// delivered inner packets (also across re-established tunnels), inner packets of another endpoint forwarded on the wrong
// relay index (the relay lies about relayed-from), inner packets the relay forges under its own tunnel key with a spoofed
// or honest overlay source, foreign-key ciphertext aimed at the victim's end-to-end tunnel index with every message type,
// and nested relay wrapping.
// Oracle from the statement: whatever reaches an endpoint's tun is byte-identical to a packet its overlay source really
// sent to that endpoint, at most once (so nothing the relay changed or invented is ever delivered, and a delivered packet
// is attributed to the endpoint whose key authenticated it: its overlay source is certified to that endpoint); anything
// else leaves the victim's state (all tunnels except the one to R itself, lighthouse cache, conntrack) unchanged.

import (
	"bytes"
	"fmt"
	"net/netip"
	"sort"
	"strings"
	"testing"
	"time"

	"github.com/slackhq/nebula/cert"
	"github.com/slackhq/nebula/header"
	"github.com/slackhq/nebula/verifkit"
)

type c15Sent struct {
	from, to *vnNode
	bytes    []byte
}

type c15Sess struct {
	r          *verifkit.Reporter
	nw         *vnNet
	A, B, C, R *vnNode
	sent       map[[16]byte]c15Sent
	delivered  map[[16]byte]int
	tunSeen    map[*vnNode]int
	handedToR  map[string]bool // inner packets endpoints handed to R (as strings)
	nonces     map[string]string
	rejecting  bool
	oldInners  map[[2]*vnNode][][]byte
	sess       int
	desc       string
	hostile    bool // the real R is bypassed
}

var c15Marker = []byte("VERIFID!")

func (s *c15Sess) rec(extra map[string]any) map[string]any {
	out := map[string]any{"session": s.sess, "setup": s.desc, "seed": verifkit.Seed()}
	for k, v := range extra {
		out[k] = v
	}
	return out
}

func (s *c15Sess) nodeByAddr(a netip.AddrPort) *vnNode {
	for _, n := range s.nw.Nodes {
		if n.Addr == a {
			return n
		}
	}
	return nil
}

// onUDP is the wire tap: it sees every datagram any node emits.
func (s *c15Sess) onUDP(p *vnPacket) {
	r := s.r
	r.Count("wire_datagrams_observed", 1)
	if bytes.Contains(p.Data, c15Marker) {
		r.Violation("C15/plaintext-on-wire", fmt.Sprintf("%s emitted a datagram to %s that contains a plaintext payload id", p.Sender.Name, p.To),
			s.rec(map[string]any{"packet": p.String(), "data": verifkit.Hex(p.Data)}))
	}
	if !s.hostile && p.HOK && p.H.Type == header.Message && p.H.Subtype == header.MessageNone && p.Sender != s.R && p.To == s.R.Addr {
		// honest phase (in the compromised-relay phase the relay itself sends packets that endpoints legitimately answer on its
		// tunnel): a data packet an endpoint seals for the relay itself, opened with the relay's own key, must be addressed to the relay
		if hi := s.R.F.hostMap.QueryIndex(p.H.RemoteIndex); hi != nil && hi.ConnectionState != nil && len(p.Data) > header.Len+16 {
			if plain, err := hi.ConnectionState.dKey.DecryptDanger(nil, p.Data[:header.Len], p.Data[header.Len:], p.H.MessageCounter, make([]byte, 12)); err == nil && len(plain) >= 20 && plain[0]>>4 == 4 {
				r.Count("direct_packets_to_the_relay_opened", 1)
				if dst := netip.AddrFrom4([4]byte(plain[16:20])); dst != s.R.Ident.Addr() {
					r.Violation("C15/endpoint-traffic-sealed-under-relay-key", fmt.Sprintf("%s sealed a packet for %s under its tunnel key with the relay and sent it to the relay", p.Sender.Name, dst),
						s.rec(map[string]any{"packet": p.String(), "plaintext": verifkit.Hex(plain)}))
				}
			}
		}
	}
	if !p.HOK || p.H.Type != header.Message || p.H.Subtype != header.MessageRelay || len(p.Data) < header.Len*2+16 {
		return
	}
	inner := p.Data[header.Len : len(p.Data)-16]
	if p.Sender == s.R {
		// R forwards: the inner packet must be one it was handed
		r.Count("relay_forwards_observed", 1)
		if !s.handedToR[string(inner)] {
			r.Violation("C15/relay-changed-inner", fmt.Sprintf("the relay emitted %s whose inner packet it was never handed", p.String()), s.rec(map[string]any{"inner": verifkit.Hex(inner)}))
		}
		return
	}
	if p.To != s.R.Addr {
		return
	}
	s.handedToR[string(inner)] = true
	var ih header.H
	if err := ih.Parse(inner); err != nil || ih.Type != header.Message || ih.Subtype != header.MessageNone {
		return
	}
	// two different inner packets under one end-to-end key and nonce hand the relay the XOR of their plaintexts
	nk := fmt.Sprintf("%s/%d/%d", p.Sender.Name, ih.RemoteIndex, ih.MessageCounter)
	if prev, ok := s.nonces[nk]; ok && prev != string(inner) {
		r.Violation("C15/inner-nonce-reused", fmt.Sprintf("%s handed the relay two different inner packets sealed under the same end-to-end tunnel index %d and counter %d", p.Sender.Name, ih.RemoteIndex, ih.MessageCounter), s.rec(map[string]any{"first": verifkit.Hex([]byte(prev)), "second": verifkit.Hex(inner)}))
	}
	s.nonces[nk] = string(inner)
	r.Count("inner_nonces_checked", 1)
	// which endpoint is this for: the one that holds the inner index for a tunnel with the sender
	nb := make([]byte, 12)
	var dst *vnNode
	var plain []byte
	held := false
	for _, v := range []*vnNode{s.A, s.B, s.C} {
		if v == p.Sender {
			continue
		}
		hi := v.F.hostMap.QueryIndex(ih.RemoteIndex)
		if hi == nil || hi.ConnectionState == nil || !hi.vpnAddrs[0].IsValid() || hi.vpnAddrs[0] != p.Sender.Ident.Addr() {
			continue
		}
		held = true
		out, err := hi.ConnectionState.dKey.DecryptDanger(nil, inner[:header.Len], inner[header.Len:], ih.MessageCounter, nb)
		if err == nil {
			dst, plain = v, out
		}
	}
	if !held {
		// the sender still uses a tunnel its peer has already dropped (lost handshake race, local close): nothing to open
		// it with on this side; the relay-key check below still applies
		r.Count("inner_for_tunnel_the_peer_dropped", 1)
		s.tryRelayKeys(p, inner, ih, "?")
		return
	}
	if dst == nil {
		r.Violation("C15/inner-not-under-endpoint-key", fmt.Sprintf("data from %s handed to the relay does not open under any destination endpoint's tunnel key for that sender", p.Sender.Name), s.rec(map[string]any{"packet": p.String()}))
		return
	}
	if rf, rt, isRej := c15Reject(plain); isRej && s.rejecting && p.Sender == s.B && rf == s.B.Ident.Addr() && rt == dst.Ident.Addr() {
		r.Count("reject_replies_seen_end_to_end_encrypted", 1)
		s.tryRelayKeys(p, inner, ih, dst.Name)
		return
	}
	id, ok := vnPayloadID(plain)
	sr, known := s.sent[id]
	if !ok || !known || sr.from != p.Sender || sr.to != dst || !bytes.Equal(sr.bytes, plain) {
		r.Violation("C15/inner-plaintext-mismatch", fmt.Sprintf("inner packet from %s opened under %s's key to something that was not sent on that pair", p.Sender.Name, dst.Name), s.rec(map[string]any{"plain": verifkit.Hex(plain)}))
		return
	}
	r.Count("inner_opens_under_endpoint_key", 1)
	s.tryRelayKeys(p, inner, ih, dst.Name)
}

// tryRelayKeys: none of the keys the relay holds opens the inner packet.
func (s *c15Sess) tryRelayKeys(p *vnPacket, inner []byte, ih header.H, dst string) {
	r := s.r
	nb := make([]byte, 12)
	hm := s.R.F.hostMap
	hm.RLock()
	var his []*HostInfo
	for _, hi := range hm.Indexes {
		his = append(his, hi)
	}
	hm.RUnlock()
	for _, hi := range his {
		if hi.ConnectionState == nil {
			continue
		}
		for _, k := range []interface {
			DecryptDanger(out, ad, ciphertext []byte, n uint64, nb []byte) ([]byte, error)
		}{hi.ConnectionState.dKey, hi.ConnectionState.eKey} {
			if _, err := k.DecryptDanger(nil, inner[:header.Len], inner[header.Len:], ih.MessageCounter, nb); err == nil {
				r.Violation("C15/relay-key-opens-inner", fmt.Sprintf("a key the relay holds (tunnel with %v) opens the inner packet %s -> %s", hi.vpnAddrs, p.Sender.Name, dst), s.rec(nil))
			}
		}
		r.Count("relay_keys_tried_on_inner", 1)
	}
}

// c15Reject recognises the reject B answers a denied packet with (ICMP destination unreachable quoting the IP and UDP
// header of the packet): returns the overlay address it comes from and the one it is for.
func c15Reject(pkt []byte) (from, to netip.Addr, ok bool) {
	if len(pkt) < 28+28 || pkt[0]>>4 != 4 || pkt[9] != 1 || pkt[20] != 3 || pkt[28]>>4 != 4 {
		return
	}
	from, to = netip.AddrFrom4([4]byte(pkt[12:16])), netip.AddrFrom4([4]byte(pkt[16:20]))
	qsrc, qdst := netip.AddrFrom4([4]byte(pkt[40:44])), netip.AddrFrom4([4]byte(pkt[44:48]))
	return from, to, qsrc == to && qdst == from
}

// judgeTun looks at everything that newly reached any tun. allowed lists the ids that may legitimately appear now.
func (s *c15Sess) judgeTun(step string, allowed map[[16]byte]bool) (got [][16]byte) {
	r := s.r
	for _, n := range s.nw.Nodes {
		for ; s.tunSeen[n] < len(n.TunOut); s.tunSeen[n]++ {
			pkt := n.TunOut[s.tunSeen[n]]
			id, ok := vnPayloadID(pkt)
			wit := s.rec(map[string]any{"step": step, "node": n.Name, "packet": verifkit.Hex(pkt)})
			if rf, rt, isRej := c15Reject(pkt); !ok && isRej {
				// only the endpoint that rejects sends these, to the endpoint whose packet it denied
				if s.rejecting && rf == s.B.Ident.Addr() && rt == n.Ident.Addr() && n != s.R {
					r.Count("reject_replies_delivered_end_to_end", 1)
				} else {
					r.Violation("C15/unknown-packet-delivered", fmt.Sprintf("%s: %s's tun output a reject from %s for %s that no endpoint here would send", step, n.Name, rf, rt), wit)
				}
				continue
			}
			if n == s.R && ok {
				if sr, known := s.sent[id]; !known || sr.to != s.R {
					r.Violation("C15/relay-holds-plaintext", fmt.Sprintf("%s: the relay's tun output an endpoint packet", step), wit)
					continue
				}
			}
			if !ok {
				r.Violation("C15/unknown-packet-delivered", fmt.Sprintf("%s: %s's tun output a packet no endpoint sent", step, n.Name), wit)
				continue
			}
			sr, known := s.sent[id]
			if !known {
				r.Violation("C15/forged-packet-delivered", fmt.Sprintf("%s: %s's tun output a packet (overlay source %s) that the certified owner of that source never sent", step, n.Name, netip.AddrFrom4([4]byte(pkt[12:16]))), wit)
				continue
			}
			if sr.to != n {
				r.Violation("C15/delivered-to-wrong-endpoint", fmt.Sprintf("%s: packet %s->%s came out of %s's tun", step, sr.from.Name, sr.to.Name, n.Name), wit)
				continue
			}
			if !bytes.Equal(sr.bytes, pkt) {
				r.Violation("C15/altered-packet-delivered", fmt.Sprintf("%s: packet %s->%s was delivered with different bytes", step, sr.from.Name, sr.to.Name), wit)
				continue
			}
			s.delivered[id]++
			if s.delivered[id] > 1 {
				r.Violation("C15/delivered-twice", fmt.Sprintf("%s: packet %s->%s was delivered %d times", step, sr.from.Name, sr.to.Name, s.delivered[id]), wit)
				continue
			}
			if !allowed[id] {
				r.Violation("C15/modified-inner-accepted", fmt.Sprintf("%s: packet %s->%s was delivered although only a modified / replayed copy of its inner packet was presented", step, sr.from.Name, sr.to.Name), wit)
				continue
			}
			got = append(got, id)
		}
	}
	return got
}

// stateOf renders the victim's state with the tunnel towards the relay itself left out (the outer layer is authentic and
// legitimately advances that tunnel).
func (s *c15Sess) stateOf(v *vnNode) []string {
	var out []string
	rAddr := fmt.Sprintf("addrs=[%s]", s.R.Ident.Addr())
	for _, l := range strings.Split(vnSnapshot(v, false), "\n") {
		if strings.HasPrefix(l, "Idx[") && strings.Contains(l, rAddr) {
			continue
		}
		out = append(out, l)
	}
	return out
}

func c15Diff(a, b []string) []string {
	in := map[string]int{}
	for _, l := range a {
		in[l]++
	}
	var d []string
	for _, l := range b {
		if in[l] > 0 {
			in[l]--
		} else {
			d = append(d, "+"+l)
		}
	}
	for l, n := range in {
		for ; n > 0; n-- {
			d = append(d, "-"+l)
		}
	}
	sort.Strings(d)
	return d
}

func c15SealWith(cs *ConnectionState, typ header.MessageType, st header.MessageSubType, idx uint32, payload []byte) []byte {
	c := cs.messageCounter.Add(1)
	out := header.Encode(make([]byte, header.Len, header.Len+len(payload)+32), header.Version, typ, st, idx, c)
	out, err := cs.eKey.EncryptDanger(out, out, payload, c, make([]byte, 12))
	if err != nil {
		panic(err)
	}
	return out
}

func c15SealRelayWith(cs *ConnectionState, idx uint32, inner []byte) []byte {
	c := cs.messageCounter.Add(1)
	out := header.Encode(make([]byte, header.Len, header.Len+len(inner)+32), header.Version, header.Message, header.MessageRelay, idx, c)
	out = append(out, inner...)
	out, err := cs.eKey.EncryptDanger(out, out, nil, c, make([]byte, 12))
	if err != nil {
		panic(err)
	}
	return out
}

// leg returns R's tunnel to v and the index v expects on relay-wrapped packets that R forwards for x.
func (s *c15Sess) leg(x, v *vnNode) (*HostInfo, uint32, bool) {
	hi := s.R.F.hostMap.QueryVpnAddr(v.Ident.Addr())
	if hi == nil || hi.ConnectionState == nil {
		return nil, 0, false
	}
	rl, ok := hi.relayState.QueryRelayForByIp(x.Ident.Addr())
	if !ok || rl.State != Established {
		return nil, 0, false
	}
	// the victim must hold the other end
	vh := v.F.hostMap.QueryRelayIndex(rl.RemoteIndex)
	if vh == nil {
		return nil, 0, false
	}
	return hi, rl.RemoteIndex, true
}

func (s *c15Sess) send(x, v *vnNode, size int) [16]byte {
	pkt, id := vnUDP4(x.Ident.Addr(), v.Ident.Addr(), 4000, 80, size)
	s.sent[id] = c15Sent{from: x, to: v, bytes: pkt}
	s.nw.TunSend(x, pkt)
	return id
}

// establish makes the x<->v pair usable through the relay (bounded progress: a few flush/advance rounds).
func (s *c15Sess) establish(x, v *vnNode) bool {
	pending := map[[16]byte]bool{} // packets queued behind a handshake may come out in a later round
	for round := 0; round < 8; round++ {
		id := s.send(x, v, 8)
		pending[id] = true
		s.nw.Flush()
		s.judgeTun("establish", pending)
		id2 := s.send(v, x, 8)
		pending[id2] = true
		s.nw.Flush()
		s.judgeTun("establish", pending)
		if s.delivered[id] == 1 && s.delivered[id2] == 1 {
			if _, _, ok := s.leg(x, v); ok {
				if _, _, ok2 := s.leg(v, x); ok2 {
					return true
				}
			}
		}
		s.nw.AdvanceFlushing(1500*time.Millisecond, 500*time.Millisecond)
		s.judgeTun("establish", pending)
	}
	return false
}

// capture sends a fresh packet x->v and takes x's relay-wrapped datagram off the network before the real R sees it.
func (s *c15Sess) capture(x, v *vnNode, size int) (id [16]byte, inner []byte, ok bool) {
	id = s.send(x, v, size)
	for _, p := range append([]*vnPacket(nil), s.nw.Inflight...) {
		if p.Sender == x && p.To == s.R.Addr && p.HOK && p.H.Type == header.Message && p.H.Subtype == header.MessageRelay && len(p.Data) >= header.Len*2+16 {
			s.nw.Remove(p)
			inner = append([]byte(nil), p.Data[header.Len:len(p.Data)-16]...)
			ok = true
		}
	}
	return
}

func TestVerifC15(t *testing.T) {
	r := verifkit.NewReporter(t, "C15", "relay",
		"sessions of A,C <-> B through relay R (cert v1/v2, both curves, both ciphers): an honest phase with a wire tap on every datagram, then a compromised-relay phase where the harness seals relay-wrapped datagrams with R's genuine keys around genuine / modified / replayed / swapped / forged / nested inner packets, with tunnel re-establishment in between; distinct = (family, direction, variant, outcome) classes plus one signature per hostile datagram")
	defer r.Done()
	sessions := verifkit.Scale(240, 24000)
	for sess := 0; sess < sessions; sess++ {
		if !verifkit.Mine(sess) {
			continue
		}
		rng := verifkit.SubRand("C15", sess)
		vnRunBubble(t, func(t *testing.T) {
			ver := []cert.Version{cert.Version2, cert.Version1}[sess%2]
			curve := []cert.Curve{cert.Curve_CURVE25519, cert.Curve_P256}[sess/2%2]
			cipher := []string{"aes", "chachapoly"}[sess/4%2]
			ca := vnNewCA(ver, curve)
			nw := vnNewNet(t)
			vs := []cert.Version{ver}
			extra := m{"cipher": cipher, "listen": m{"accept_recv_error": "never"}, "timers": m{"connection_alive_interval": 3600, "pending_deletion_interval": 3600}}
			if sess/8%2 == 1 {
				// routine-local conntrack cache on (as with routines > 1): its entries carry no peer identity
				extra["firewall"] = m{"conntrack": m{"routine_cache_timeout": "1h"}}
			}
			use := vnMerge(m{"relay": m{"use_relays": true}}, extra)
			s := &c15Sess{r: r, nw: nw, sess: sess, desc: fmt.Sprintf("cert v%d curve=%v cipher=%s routine-cache=%v b-rejects=%v", ver, curve, cipher, sess/8%2 == 1, sess/16%2 == 1),
				sent: map[[16]byte]c15Sent{}, delivered: map[[16]byte]int{}, tunSeen: map[*vnNode]int{}, handedToR: map[string]bool{}, nonces: map[string]string{}, oldInners: map[[2]*vnNode][][]byte{}}
			s.A = nw.AddNode(ca.issue(vs, "a", "10.1.0.1/16", "", nil), []*vnCA{ca}, "192.0.2.1:4242", use)
			s.C = nw.AddNode(ca.issue(vs, "c", "10.1.0.3/16", "", nil), []*vnCA{ca}, "192.0.2.3:4242", use)
			rejecting := sess/16%2 == 1
			useB := use
			if rejecting {
				// B answers what its inbound rules deny with a reject (ICMP unreachable quoting the packet): that answer is
				// end-to-end traffic too
				useB = vnMerge(use, m{"firewall": m{"inbound_action": "reject", "inbound": []m{{"proto": "udp", "port": 80, "host": "any"}, {"proto": "icmp", "port": "any", "host": "any"}}}})
			}
			s.rejecting = rejecting
			s.B = nw.AddNode(ca.issue(vs, "b", "10.1.0.2/16", "", nil), []*vnCA{ca}, "192.0.2.2:4242", useB)
			s.R = nw.AddNode(ca.issue(vs, "r", "10.1.0.128/16", "", nil), []*vnCA{ca}, "192.0.2.128:4242", vnMerge(m{"relay": m{"am_relay": true}}, extra))
			// what a lighthouse would tell them (closing the last tunnel to a peer forgets it, so this is repeated after churn)
			learn := func() {
				for _, x := range []*vnNode{s.A, s.C} {
					x.C.InjectLightHouseAddr(s.R.Ident.Addr(), s.R.Addr)
					x.C.InjectRelays(s.B.Ident.Addr(), []netip.Addr{s.R.Ident.Addr()})
				}
				s.R.C.InjectLightHouseAddr(s.B.Ident.Addr(), s.B.Addr)
				s.B.C.InjectLightHouseAddr(s.R.Ident.Addr(), s.R.Addr)
				s.B.C.InjectRelays(s.A.Ident.Addr(), []netip.Addr{s.R.Ident.Addr()})
				s.B.C.InjectRelays(s.C.Ident.Addr(), []netip.Addr{s.R.Ident.Addr()})
			}
			learn()
			nw.KeepArchive = false
			nw.OnUDP = s.onUDP
			for _, n := range nw.Nodes {
				n.Start()
			}
			nw.Settle()
			defer nw.StopAll()
			if !s.establish(s.A, s.B) || !s.establish(s.C, s.B) {
				r.Count("sessions_not_established", 1)
				return
			}
			r.Count("sessions_established", 1)
			pairs := [][2]*vnNode{{s.A, s.B}, {s.C, s.B}, {s.B, s.A}, {s.B, s.C}}

			// ---- honest phase
			nh := 12 + rng.IntN(12)
			for i := 0; i < nh; i++ {
				pr := pairs[rng.IntN(len(pairs))]
				if rng.IntN(3) == 0 {
					// a USO superpacket: every segment goes through the relay as its own inner packet
					k, chunk := 2+rng.IntN(4), 40+rng.IntN(300)
					sp, segs, ids := vnUSO(pr[0].Ident.Addr(), pr[1].Ident.Addr(), 4000, 80, k, chunk, 16+rng.IntN(chunk-15))
					allowed := map[[16]byte]bool{}
					for i, id := range ids {
						if i < len(segs) {
							s.sent[id] = c15Sent{from: pr[0], to: pr[1], bytes: segs[i]}
							allowed[id] = true
						}
					}
					nw.TunSendSuper(pr[0], sp)
					nw.Flush()
					got := s.judgeTun("honest superpacket", allowed)
					r.Eval(1)
					r.Count("honest_superpackets", 1)
					r.Count("honest_superpacket_segments_delivered", len(got))
					r.Count("honest_superpacket_segments_missing", len(segs)-len(got))
					r.DistinctClass(fmt.Sprintf("honest superpacket %s->%s segments=%d all-delivered=%v", pr[0].Name, pr[1].Name, len(segs), len(got) == len(segs)))
					continue
				}
				if s.rejecting && pr[1] == s.B && rng.IntN(3) == 0 {
					// a packet B's inbound rules deny: nothing is delivered at B, B's reject travels back end to end
					pkt, id := vnUDP4(pr[0].Ident.Addr(), s.B.Ident.Addr(), 4000, 81, rng.IntN(300))
					s.sent[id] = c15Sent{from: pr[0], to: s.B, bytes: pkt}
					nw.TunSend(pr[0], pkt)
					nw.Flush()
					got := s.judgeTun("honest denied packet", map[[16]byte]bool{})
					r.Eval(1)
					r.Count("honest_denied_packets", 1)
					if len(got) != 0 {
						r.Count("honest_denied_packets_delivered(not this property)", 1)
					}
					r.DistinctClass(fmt.Sprintf("honest denied %s->b", pr[0].Name))
					continue
				}
				id := s.send(pr[0], pr[1], rng.IntN(900))
				nw.Flush()
				got := s.judgeTun("honest", map[[16]byte]bool{id: true})
				r.Eval(1)
				if len(got) == 1 {
					r.Count("honest_delivered", 1)
				} else {
					r.Count("honest_not_delivered", 1)
				}
				r.DistinctClass(fmt.Sprintf("honest %s->%s delivered=%v", pr[0].Name, pr[1].Name, len(got) == 1))
			}

			// ---- compromised relay phase
			s.hostile = true
			nc := 40 + rng.IntN(30)
			for ci := 0; ci < nc; ci++ {
				if ci > 0 && ci%17 == 0 {
					// relay re-establishment: tear tunnels down somewhere, bring the pairs back through the real R
					s.hostile = false
					kind := rng.IntN(4)
					switch kind {
					case 0:
						s.A.C.CloseTunnel(s.B.Ident.Addr(), false)
					case 1:
						s.B.C.CloseTunnel(s.C.Ident.Addr(), false)
					case 2:
						// the relay drops everybody (restart of the relay): every leg and every tunnel over it is renegotiated
						s.R.C.CloseAllTunnels(false)
						nw.Settle()
						nw.Flush()
						for _, n := range []*vnNode{s.A, s.B, s.C} {
							n.C.CloseAllTunnels(false)
						}
					default:
						// an endpoint drops everybody
						s.B.C.CloseAllTunnels(false)
						nw.Settle()
						nw.Flush()
						for _, n := range []*vnNode{s.A, s.C, s.R} {
							n.C.CloseAllTunnels(false)
						}
					}
					nw.Settle()
					nw.Flush()
					s.judgeTun("churn", nil)
					learn()
					okA, okC := s.establish(s.A, s.B), s.establish(s.C, s.B)
					r.Count("reestablishments", 1)
					if !okA || !okC {
						r.Count(fmt.Sprintf("reestablish_failed.kind%d.a=%v.c=%v", kind, okA, okC), 1)
						return
					}
					s.hostile = true
				}
				pr := pairs[rng.IntN(len(pairs))]
				x, v := pr[0], pr[1]
				hiRV, legIdx, ok := s.leg(x, v)
				if !ok {
					r.Count("leg_missing", 1)
					continue
				}
				vHiX := v.F.hostMap.QueryVpnAddr(x.Ident.Addr())
				if vHiX == nil {
					r.Count("leg_missing", 1)
					continue
				}
				fam := rng.IntN(9)
				var inner []byte
				allowed := map[[16]byte]bool{}
				expectDelivery := false
				variant := ""
				famName := ""
				authBy := x // endpoint whose key authenticates a deliverable inner
				switch fam {
				case 0: // genuine fresh
					famName = "genuine"
					id, in, ok := s.capture(x, v, rng.IntN(600))
					if !ok {
						r.Count("capture_failed", 1)
						continue
					}
					inner, allowed[id], expectDelivery = in, true, true
					s.oldInners[pr] = append(s.oldInners[pr], in)
				case 1, 2: // modified genuine
					famName = "modified"
					_, in, ok := s.capture(x, v, rng.IntN(600))
					if !ok {
						r.Count("capture_failed", 1)
						continue
					}
					inner = in
					switch k := rng.IntN(9); k {
					case 0:
						variant = "flip-header-bit"
						inner[rng.IntN(header.Len)] ^= 1 << rng.IntN(8)
					case 1:
						variant = "flip-ciphertext-bit"
						inner[header.Len+rng.IntN(len(inner)-header.Len-16)] ^= 1 << rng.IntN(8)
					case 2:
						variant = "flip-tag-bit"
						inner[len(inner)-1-rng.IntN(16)] ^= 1 << rng.IntN(8)
					case 3:
						variant = "truncate"
						inner = inner[:len(inner)-1-rng.IntN(min(40, len(inner)-1))]
					case 4:
						variant = "extend"
						inner = append(inner, byte(rng.IntN(256)))
					case 5:
						variant = "retype"
						ty := []header.MessageType{header.CloseTunnel, header.Control, header.LightHouse, header.Test}[rng.IntN(4)]
						var ih header.H
						ih.Parse(inner)
						header.Encode(inner[:0], header.Version, ty, 0, ih.RemoteIndex, ih.MessageCounter)
					case 6:
						variant = "recount"
						var ih header.H
						ih.Parse(inner)
						header.Encode(inner[:0], header.Version, ih.Type, ih.Subtype, ih.RemoteIndex, ih.MessageCounter+1+uint64(rng.IntN(3)))
					case 7:
						variant = "reindex-to-other-tunnel"
						var ih header.H
						ih.Parse(inner)
						other := v.F.hostMap.QueryVpnAddr(s.R.Ident.Addr())
						if v == s.B {
							o := s.A
							if x == s.A {
								o = s.C
							}
							if h := v.F.hostMap.QueryVpnAddr(o.Ident.Addr()); h != nil {
								other = h
							}
						}
						if other == nil {
							continue
						}
						header.Encode(inner[:0], header.Version, ih.Type, ih.Subtype, other.localIndexId, ih.MessageCounter)
					default:
						variant = "swap-bytes"
						i, j := header.Len+rng.IntN(len(inner)-header.Len), header.Len+rng.IntN(len(inner)-header.Len)
						if inner[i] == inner[j] {
							inner[i] ^= 0x80
						} else {
							inner[i], inner[j] = inner[j], inner[i]
						}
					}
				case 3: // replay of an inner packet that was delivered before (possibly under earlier tunnels)
					famName = "replay"
					old := s.oldInners[pr]
					if len(old) == 0 {
						continue
					}
					inner = old[rng.IntN(len(old))]
				case 4: // another endpoint's genuine inner packet on x's relay index: the relay lies about relayed-from
					famName = "swapped-leg"
					if v != s.B {
						continue
					}
					o := s.A
					if x == s.A {
						o = s.C
					}
					id, in, ok := s.capture(o, v, rng.IntN(600))
					if !ok {
						r.Count("capture_failed", 1)
						continue
					}
					inner, allowed[id], expectDelivery, authBy = in, true, true, o
					s.oldInners[[2]*vnNode{o, v}] = append(s.oldInners[[2]*vnNode{o, v}], in)
				case 5, 6: // forged under the relay's own tunnel key
					famName = "forged-under-relay-key"
					src := x.Ident.Addr()
					variant = "spoofed-source"
					if fam == 6 && rng.IntN(2) == 0 {
						src = s.R.Ident.Addr()
						variant = "relay-own-source"
					}
					pkt, id := vnUDP4(src, v.Ident.Addr(), 4000, 80, rng.IntN(300))
					if src == s.R.Ident.Addr() {
						// that is R talking for itself: legitimate, attributed to R
						s.sent[id] = c15Sent{from: s.R, to: v, bytes: pkt}
						allowed[id], expectDelivery, authBy = true, true, s.R
					}
					inner = c15SealWith(hiRV.ConnectionState, header.Message, header.MessageNone, hiRV.remoteIndexId, pkt)
				case 7: // ciphertext under the relay's key aimed at the victim's end-to-end tunnel index
					famName = "foreign-key-on-endpoint-index"
					ty := []header.MessageType{header.Message, header.CloseTunnel, header.Control, header.LightHouse, header.Test}[rng.IntN(5)]
					variant = header.TypeName(ty)
					var payload []byte
					if ty == header.Message {
						payload, _ = vnUDP4(x.Ident.Addr(), v.Ident.Addr(), 4000, 80, rng.IntN(100))
					} else {
						payload = make([]byte, rng.IntN(40))
					}
					inner = c15SealWith(hiRV.ConnectionState, ty, 0, vHiX.localIndexId, payload)
					// give it a counter the victim's end-to-end window has not seen
					var ih header.H
					ih.Parse(inner)
					header.Encode(inner[:0], header.Version, ty, 0, vHiX.localIndexId, ih.MessageCounter+1_000_000)
				default: // nested relay wrapping of a genuine fresh inner
					famName = "nested"
					id, in, ok := s.capture(x, v, rng.IntN(400))
					if !ok {
						r.Count("capture_failed", 1)
						continue
					}
					inner = c15SealRelayWith(hiRV.ConnectionState, legIdx, in)
					allowed[id] = true
					s.oldInners[pr] = append(s.oldInners[pr], in)
				}
				pre := s.stateOf(v)
				data := c15SealRelayWith(hiRV.ConnectionState, legIdx, inner)
				r.Pre("sess %d case %d %s/%s %s->%s", sess, ci, famName, variant, x.Name, v.Name)
				nw.Inject(v, s.R.Addr, data)
				nw.Settle()
				step := fmt.Sprintf("compromised relay: %s %s on the leg %s->%s", famName, variant, x.Name, v.Name)
				got := s.judgeTun(step, allowed)
				post := s.stateOf(v)
				r.Eval(1)
				r.Count("hostile_datagrams", 1)
				r.Count("family."+famName, 1)
				d := c15Diff(pre, post)
				if len(got) == 0 {
					if len(d) != 0 && !(famName == "nested") {
						r.Violation("C15/undelivered-inner-changed-endpoint-state", fmt.Sprintf("%s: nothing was delivered but %s's state changed: %v", step, v.Name, d), s.rec(map[string]any{"diff": d, "datagram": verifkit.Hex(data)}))
					}
				} else {
					// only the tunnel of the endpoint whose key authenticated the packet (and conntrack) may change
					r.Count("hostile_delivered."+famName, 1)
					want := fmt.Sprintf("addrs=[%s]", authBy.Ident.Addr())
					for _, l := range d {
						if strings.Contains(l, "conntrack=") || (strings.HasPrefix(l[1:], "Idx[") && strings.Contains(l, want)) {
							continue
						}
						r.Violation("C15/delivery-changed-other-state", fmt.Sprintf("%s: a packet authenticated by %s's key was delivered and state other than that tunnel changed: %s", step, authBy.Name, l), s.rec(map[string]any{"diff": d}))
						break
					}
				}
				if expectDelivery && len(got) == 0 {
					r.Count("expected_delivery_missing."+famName, 1)
				}
				r.DistinctClass(fmt.Sprintf("%s/%s %s->%s delivered=%d", famName, variant, x.Name, v.Name, len(got)))
				hs := uint64(14695981039346656037)
				for _, b := range data[header.Len:] {
					hs = (hs ^ uint64(b)) * 1099511628211
				}
				r.DistinctU64(hs)
				if r.WantSample() {
					r.Sample(map[string]any{"session": sess, "setup": s.desc, "family": famName, "variant": variant, "leg": x.Name + "->" + v.Name, "delivered": len(got), "state_diff_lines": len(d)})
				}
				// whatever the victim answered goes to the real nodes
				s.hostile = false
				nw.Flush()
				s.judgeTun("after "+step, nil)
				s.hostile = true
			}
		})
	}
}
