//go:build e2e_testing

package nebula

// C12 — a data packet is delivered at most once, however receive work is interleaved.
//
// Unit (E-conc, -race): a real ConnectionState pair from a real IX handshake. Many goroutines call
// Decrypt / VerifyRelay on duplicated packets. The verif hook between window.Check and window.Update
// (a) parks all duplicates of one counter on a barrier so that every copy has passed Check before any
// reaches Update (worst interleaving), (b) otherwise yields randomly.
// Oracle: per counter, number of nil-error returns <= 1; == 1 when the counter is guaranteed in-window.
//
// Node (E-net, serialized): a hostile router duplicates/reorders every data, test and relayed packet.
// Oracle: each unique payload id reaches the tun at most once (exactly once when a copy was delivered
// in-window), at most one test reply per original test request.

import (
	"fmt"
	"log/slog"
	"runtime"
	"sync"
	"sync/atomic"
	"testing"
	"time"

	"github.com/slackhq/nebula/cert"
	"github.com/slackhq/nebula/header"
	"github.com/slackhq/nebula/verifkit"
)

type c12Pkt struct {
	ctr   uint64
	data  []byte
	relay bool
}

func c12Seal(cs *ConnectionState, relay bool, idx uint32, payload []byte) c12Pkt {
	c := cs.messageCounter.Add(1)
	nb := make([]byte, 12)
	if relay {
		out := header.Encode(make([]byte, header.Len, header.Len+len(payload)+32), header.Version, header.Message, header.MessageRelay, idx, c)
		out = append(out, payload...)
		out, err := cs.eKey.EncryptDanger(out, out, nil, c, nb)
		if err != nil {
			panic(err)
		}
		return c12Pkt{c, out, true}
	}
	out := header.Encode(make([]byte, header.Len, header.Len+len(payload)+32), header.Version, header.Message, header.MessageNone, idx, c)
	out, err := cs.eKey.EncryptDanger(out, out, payload, c, nb)
	if err != nil {
		panic(err)
	}
	return c12Pkt{c, out, false}
}

func c12Recv(cs *ConnectionState, l *slog.Logger, p c12Pkt, nb []byte) bool {
	buf := append([]byte(nil), p.data...)
	if p.relay {
		return cs.VerifyRelay(l, p.ctr, buf, nb) == nil
	}
	_, err := cs.Decrypt(l, p.ctr, buf, nb)
	return err == nil
}

func TestVerifC12Unit(t *testing.T) {
	r := verifkit.NewReporter(t, "C12", "unit",
		"real ConnectionState pair (real IX handshake, both ciphers); duplicated Decrypt/VerifyRelay calls from 2..16 goroutines; barrier rounds force all copies of a counter past window.Check before any window.Update; distinct = distinct (cipher, relay?, copies, goroutines, accepted-count) classes plus one signature per counter raced")
	defer r.Done()
	l := slog.New(slog.DiscardHandler)
	ca := vnNewCA(cert.Version2, cert.Curve_CURVE25519)
	rng := verifkit.NewRand("C12unit")

	for _, cipher := range []string{"aes", "chachapoly"} {
		// ---- phase 1: barrier rounds
		ini, resp, _, _ := vnCSPair(ca, cipher, cert.Version2)
		rounds := verifkit.Scale(1500, 60000)
		var want, arrived atomic.Int64
		var timeouts atomic.Int64
		hook := func(id int) {
			if id != verifDecryptAfterCheck {
				return
			}
			w := want.Load()
			if w == 0 {
				return
			}
			arrived.Add(1)
			for spin := 0; arrived.Load() < w; spin++ {
				if spin > 2_000_000 {
					timeouts.Add(1)
					return
				}
				runtime.Gosched()
			}
		}
		verifHook.Store(&hook)
		for i := 0; i < rounds; i++ {
			k := []int{2, 2, 3, 4, 8}[rng.IntN(5)]
			relay := rng.IntN(3) == 0
			p := c12Seal(ini, relay, 7, []byte(fmt.Sprintf("payload-%d", i)))
			// sometimes skip ahead so the window slides across word boundaries
			if rng.IntN(20) == 0 {
				ini.messageCounter.Add(uint64(rng.IntN(200)))
			}
			r.Pre("barrier round %d cipher=%s ctr=%d k=%d relay=%v", i, cipher, p.ctr, k, relay)
			arrived.Store(0)
			want.Store(int64(k))
			var ok atomic.Int64
			var wg sync.WaitGroup
			for g := 0; g < k; g++ {
				wg.Add(1)
				go func() {
					defer wg.Done()
					if c12Recv(resp, l, p, make([]byte, 12)) {
						ok.Add(1)
					}
				}()
			}
			wg.Wait()
			want.Store(0)
			r.Eval(k)
			if arrived.Load() == int64(k) {
				r.Count("rounds_all_copies_passed_check_concurrently", 1)
			}
			r.Distinct(fmt.Sprintf("barrier %s ctr=%d", cipher, p.ctr))
			r.DistinctClass(fmt.Sprintf("barrier cipher=%s relay=%v copies=%d accepted=%d", cipher, relay, k, ok.Load()))
			if ok.Load() != 1 {
				r.Violation("C12/duplicate-accepted-under-race", fmt.Sprintf("cipher=%s relay=%v counter=%d: %d of %d concurrent copies were accepted (want exactly 1)", cipher, relay, p.ctr, ok.Load(), k),
					map[string]any{"phase": "barrier", "cipher": cipher, "relay": relay, "counter": p.ctr, "copies": k, "accepted": ok.Load(), "round": i})
			}
			if i < 2 {
				r.Sample(map[string]any{"phase": "barrier", "cipher": cipher, "counter": p.ctr, "copies": k, "relay": relay, "accepted": ok.Load()})
			}
		}
		r.Count("barrier_timeouts", int(timeouts.Load()))

		// ---- phase 2: free running multisets with random yields
		ini, resp, _, _ = vnCSPair(ca, cipher, cert.Version2)
		var yrng atomic.Uint64
		yrng.Store(verifkit.Seed()*2654435761 + 1)
		hook2 := func(id int) {
			x := yrng.Add(0x9e3779b97f4a7c15)
			x ^= x >> 31
			if x&3 == 0 {
				runtime.Gosched()
			}
			if x&255 == 1 {
				time.Sleep(time.Microsecond)
			}
		}
		verifHook.Store(&hook2)
		for rep := 0; rep < verifkit.Scale(3, 40); rep++ {
			n := 3000 // < ReplayWindow/2 so every counter stays in-window whatever the order
			g := []int{2, 4, 16}[rng.IntN(3)]
			pk := make([]c12Pkt, n)
			for i := range pk {
				pk[i] = c12Seal(ini, rng.IntN(4) == 0, 9, []byte{byte(i), byte(i >> 8)})
			}
			base := pk[0].ctr
			acc := make([]atomic.Int32, n)
			copies := make([]int, n)
			lists := make([][]int, g)
			for i := range pk {
				c := 1 + rng.IntN(4)
				copies[i] = c
				for j := 0; j < c; j++ {
					w := rng.IntN(g)
					lists[w] = append(lists[w], i)
				}
			}
			for w := range lists {
				// local shuffle within a sliding neighbourhood keeps everything inside the window
				ls := lists[w]
				for i := range ls {
					j := i + rng.IntN(min(200, len(ls)-i))
					ls[i], ls[j] = ls[j], ls[i]
				}
			}
			r.Pre("free phase cipher=%s rep=%d g=%d base=%d", cipher, rep, g, base)
			var wg sync.WaitGroup
			for w := 0; w < g; w++ {
				wg.Add(1)
				go func(ls []int) {
					defer wg.Done()
					nb := make([]byte, 12)
					for _, i := range ls {
						if c12Recv(resp, l, pk[i], nb) {
							acc[i].Add(1)
						}
					}
				}(lists[w])
			}
			wg.Wait()
			tot := 0
			for i := range pk {
				tot += copies[i]
				a := acc[i].Load()
				r.DistinctClass(fmt.Sprintf("free cipher=%s relay=%v copies=%d goroutines=%d accepted=%d", cipher, pk[i].relay, copies[i], g, a))
				if a != 1 {
					r.Violation(map[bool]string{true: "C12/duplicate-accepted-under-race", false: "C12/in-window-packet-lost"}[a > 1],
						fmt.Sprintf("cipher=%s counter=%d copies=%d goroutines=%d accepted=%d (want exactly 1)", cipher, pk[i].ctr, copies[i], g, a),
						map[string]any{"phase": "free", "cipher": cipher, "counter": pk[i].ctr, "copies": copies[i], "goroutines": g, "accepted": a, "rep": rep})
				}
			}
			r.Eval(tot)
		}
		verifHook.Store(nil)

		// ---- phase 3: long lossy / reordered stream (several windows) with replays of already accepted packets,
		// aimed at the window edges (head-W+1, head-W, head-W-1), the previous head, and word boundaries
		ini, resp, _, _ = vnCSPair(ca, cipher, cert.Version2)
		nb3 := make([]byte, 12)
		stream := verifkit.Scale(3*ReplayWindow+500, 12*ReplayWindow)
		type sent struct {
			p   c12Pkt
			acc int
		}
		byCtr := map[uint64]*sent{}
		var order []uint64
		for i := 0; i < stream; i++ {
			p := c12Seal(ini, rng.IntN(5) == 0, 11, []byte{byte(i), byte(i >> 8), byte(i >> 16)})
			byCtr[p.ctr] = &sent{p: p}
			order = append(order, p.ctr)
		}
		// loss bursts (some crossing 64-counter boundaries) and mild reordering
		var deliver []uint64
		for i := 0; i < len(order); i++ {
			if rng.IntN(40) == 0 {
				i += 1 + rng.IntN(130) // lost burst
				continue
			}
			deliver = append(deliver, order[i])
		}
		for i := range deliver {
			j := i + rng.IntN(min(6, len(deliver)-i))
			deliver[i], deliver[j] = deliver[j], deliver[i]
		}
		var head uint64
		replays := 0
		tryOne := func(c uint64, why string) {
			sp, ok := byCtr[c]
			if !ok {
				return
			}
			r.Eval(1)
			if c12Recv(resp, l, sp.p, nb3) {
				sp.acc++
				if sp.acc > 1 {
					r.Violation("C12/replayed-packet-accepted", fmt.Sprintf("cipher=%s relay=%v counter=%d accepted %d times (%s, highest accepted %d)", cipher, sp.p.relay, c, sp.acc, why, head),
						map[string]any{"phase": "stream", "cipher": cipher, "counter": c, "accepted": sp.acc, "why": why, "head": head, "window": ReplayWindow})
				}
				if c > head {
					head = c
				}
			}
		}
		for _, c := range deliver {
			r.Pre("stream cipher=%s ctr=%d head=%d", cipher, c, head)
			tryOne(c, "first delivery")
			// replays after every accepted packet
			for _, d := range []uint64{ReplayWindow - 1, ReplayWindow, ReplayWindow - 2, 1, 63, 64, 65, uint64(rng.IntN(ReplayWindow))} {
				if head > d {
					if sp, ok := byCtr[head-d]; ok && sp.acc > 0 {
						replays++
						tryOne(head-d, fmt.Sprintf("replay of head-%d", d))
					}
				}
			}
		}
		r.Count("stream_replays_of_accepted_packets", replays)
		r.DistinctClass(fmt.Sprintf("stream cipher=%s windows=%d", cipher, stream/ReplayWindow))
	}
	if r.Counter("rounds_all_copies_passed_check_concurrently") == 0 {
		r.Inconclusive("no barrier round had all copies past Check concurrently (hook decrypt.afterCheck never effective)")
	}
}

func TestVerifC12Node(t *testing.T) {
	r := verifkit.NewReporter(t, "C12", "node",
		"started nodes in a synctest bubble; router delivers every data/test/relayed packet 1..3 times in shuffled order (direct, via relay, and inner packets of the relayed path also delivered directly); distinct = (path, type, copies, delivered-count) classes plus per-payload ids")
	defer r.Done()
	scen := verifkit.Scale(6, 120)
	for sc := 0; sc < scen; sc++ {
		if !verifkit.Mine(sc) {
			continue
		}
		rng := verifkit.SubRand("C12node", sc)
		relayed := sc%2 == 1
		vnRunBubble(t, func(t *testing.T) {
			var nw *vnNet
			var a, b *vnNode
			if relayed {
				tr := vnNewTriangle(t, cert.Version2, cert.Curve_CURVE25519, nil)
				nw, a, b = tr.NW, tr.A, tr.B
			} else {
				ca := vnNewCA(cert.Version2, cert.Curve_CURVE25519)
				nw = vnNewNet(t)
				a = nw.AddNode(ca.issue([]cert.Version{cert.Version2}, "a", "10.1.0.1/16", "", nil), []*vnCA{ca}, "192.0.2.1:4242", nil)
				b = nw.AddNode(ca.issue([]cert.Version{cert.Version2}, "b", "10.1.0.2/16", "", nil), []*vnCA{ca}, "192.0.2.2:4242", nil)
				a.Start()
				b.Start()
				a.lhAddStatic(b)
				nw.Settle()
			}
			defer nw.StopAll()
			// establish
			first, _ := vnUDP4(a.Ident.Addr(), b.Ident.Addr(), 1, 2, 0)
			nw.TunSend(a, first)
			nw.AdvanceFlushing(2*time.Second, 100*time.Millisecond)
			if len(b.TunOut) == 0 {
				r.Inconclusive(fmt.Sprintf("scenario %d relayed=%v: tunnel never came up", sc, relayed))
				return
			}
			b.TunOut = nil
			a.TunOut = nil
			sent := map[[16]byte]bool{}
			delivered := map[[16]byte]int{}
			copiesOf := map[[16]byte]int{}
			n := verifkit.Scale(60, 150)
			for i := 0; i < n; i++ {
				src, dst := a, b
				if rng.IntN(3) == 0 {
					src, dst = b, a
				}
				pkt, id := vnUDP4(src.Ident.Addr(), dst.Ident.Addr(), uint16(1000+i), 2000, rng.IntN(64))
				sent[id] = true
				nw.TunSend(src, pkt)
				// hostile delivery of whatever is in flight: each packet 1..3 copies, shuffled
				for len(nw.Inflight) > 0 {
					batch := nw.Inflight
					nw.Inflight = nil
					var sched []*vnPacket
					for _, p := range batch {
						k := 1 + rng.IntN(3)
						if p.HOK && p.H.Type == header.Handshake {
							k = 1
						}
						for j := 0; j < k; j++ {
							sched = append(sched, p)
						}
						// relayed path: also hand the inner packet straight to the final endpoint
						if relayed && p.HOK && p.H.Type == header.Message && p.H.Subtype == header.MessageRelay && len(p.Data) > 2*header.Len+16 && rng.IntN(3) == 0 {
							inner := append([]byte(nil), p.Data[header.Len:len(p.Data)-16]...)
							var ih header.H
							if ih.Parse(inner) == nil && ih.Type == header.Message {
								to := b
								if p.Sender == b || (p.Sender != a && p.To == a.Addr) {
									to = a
								}
								from := a.Addr
								if to == a {
									from = b.Addr
								}
								ip := &vnPacket{From: from, To: to.Addr, Data: inner, HOK: true, H: ih}
								sched = append(sched, ip)
								r.Count("inner_packets_also_delivered_directly", 1)
							}
						}
					}
					rng.Shuffle(len(sched), func(x, y int) { sched[x], sched[y] = sched[y], sched[x] })
					for _, p := range sched {
						r.Eval(1)
						nw.DeliverCopy(p)
					}
				}
				_ = copiesOf
			}
			for _, node := range []*vnNode{a, b} {
				for _, out := range node.TunOut {
					if id, ok := vnPayloadID(out); ok {
						delivered[id]++
					}
				}
			}
			for id := range sent {
				d := delivered[id]
				r.Distinct(fmt.Sprintf("sc%d id=%x", sc, id[8:]))
				r.DistinctClass(fmt.Sprintf("relayed=%v delivered=%d", relayed, d))
				if d > 1 {
					r.Violation("C12/payload-delivered-twice", fmt.Sprintf("scenario %d relayed=%v: payload %x reached the tun %d times", sc, relayed, id[8:], d),
						map[string]any{"scenario": sc, "relayed": relayed, "payload_id": verifkit.Hex(id[:]), "delivered": d})
				}
				if d == 0 {
					r.Violation("C12/payload-lost-with-all-copies-delivered", fmt.Sprintf("scenario %d relayed=%v: payload %x never reached the tun although every packet was delivered at least once", sc, relayed, id[8:]),
						map[string]any{"scenario": sc, "relayed": relayed, "payload_id": verifkit.Hex(id[:])})
				}
			}
			for id := range delivered {
				if !sent[id] {
					r.Violation("C12/unknown-payload", "tun received a payload that was never sent", map[string]any{"payload_id": verifkit.Hex(id[:])})
				}
			}
			r.Count("payloads_sent", len(sent))
			if sc < 2 {
				r.Sample(map[string]any{"scenario": sc, "relayed": relayed, "payloads": len(sent), "udp_packets_seen": len(nw.Archive)})
			}
		})
	}
}
