package nebula

// C48 — calculated remotes splice mask and overlay bits exactly.
//
// Reference (written from the property statement and the `lighthouse.calculated_remotes` paragraph of
// examples/config.yml): for a mask prefix M/L and an overlay address A of the same family, bit i of the
// result (i counted from the most significant bit) is bit i of M for i < L and bit i of A otherwise. The port
// is the configured port. A result is produced for A only when A lies inside a configured range of A's family.
//
// Cells the documentation leaves open (named, not judged):
//   - nested ranges: the code uses the entries of the most specific containing range only. The oracle requires
//     the entries of the most specific range and tolerates entries of any other containing range.
//   - "Both CIDRs must have the same mask size" is documentation only; neither the statement nor the code
//     require it, the reference follows the statement (mask length decides the splice point).

import (
	"context"
	"encoding/binary"
	"fmt"
	"log/slog"
	"math/rand/v2"
	"net/netip"
	"sort"
	"strings"
	"testing"

	"github.com/gaissmai/bart"
	"github.com/slackhq/nebula/config"
	"github.com/slackhq/nebula/verifkit"
)

// c48RefSplice is the bit-by-bit reference.
func c48RefSplice(maskAddr, overlay []byte, l int) []byte {
	out := make([]byte, len(overlay))
	for i := 0; i < len(overlay)*8; i++ {
		src := overlay
		if i < l {
			src = maskAddr
		}
		bit := (src[i/8] >> (7 - uint(i%8))) & 1
		out[i/8] |= bit << (7 - uint(i%8))
	}
	return out
}

func c48RefAddr(maskAddr, overlay netip.Addr, l int) netip.Addr {
	a, _ := netip.AddrFromSlice(c48RefSplice(maskAddr.AsSlice(), overlay.AsSlice(), l))
	return a
}

// c48GenBytes draws an address with bias to patterns that make splice mistakes visible.
func c48GenBytes(rng *rand.Rand, n, l int) []byte {
	b := make([]byte, n)
	switch rng.IntN(8) {
	case 0: // zero
	case 1:
		for i := range b {
			b[i] = 0xff
		}
	case 2:
		for i := range b {
			b[i] = 0xaa
		}
	case 3: // single bit right before / at / after the splice point
		p := l - 1 + rng.IntN(3)
		if p >= 0 && p < n*8 {
			b[p/8] |= 1 << (7 - uint(p%8))
		}
	default:
		for i := range b {
			b[i] = byte(rng.UintN(256))
		}
	}
	return b
}

func c48Hash(parts ...[]byte) uint64 {
	h := uint64(1469598103934665603)
	for _, p := range parts {
		for _, c := range p {
			h ^= uint64(c)
			h *= 1099511628211
		}
		h ^= 0xff
		h *= 1099511628211
	}
	return h
}

func TestVerifC48Splice(t *testing.T) {
	r := verifkit.NewReporter(t, "C48", "splice",
		"every mask length 0..32 (IPv4) and 0..128 (IPv6) x PRNG (mask address, overlay address, port) triples biased to all-zero/all-one/alternating/single-bit-at-the-splice-point/complement patterns; real newCalculatedRemote+ApplyV4/ApplyV6 vs bit-by-bit reference; distinct = distinct (family, length, mask address, overlay address, port)")
	defer r.Done()
	per := verifkit.Scale(6000, 200_000)
	caseIdx := 0
	for _, fam := range []int{4, 16} {
		for l := 0; l <= fam*8; l++ {
			caseIdx++
			if !verifkit.Mine(caseIdx) {
				continue
			}
			rng := verifkit.SubRand("C48splice", caseIdx)
			for k := 0; k < per; k++ {
				mb := c48GenBytes(rng, fam, l)
				ob := c48GenBytes(rng, fam, l)
				if rng.IntN(6) == 0 { // complement: every misplaced bit shows
					for i := range ob {
						ob[i] = ^mb[i]
					}
				}
				port := []int{0, 1, 4242, 65535, rng.IntN(65536), rng.IntN(65536)}[rng.IntN(6)]
				maskAddr, _ := netip.AddrFromSlice(mb)
				overlay, _ := netip.AddrFromSlice(ob)
				maskPfx := netip.PrefixFrom(maskAddr, l)
				// the range itself is irrelevant for Apply; use a range of the same family that contains the overlay
				rangePfx := netip.PrefixFrom(overlay, rng.IntN(fam*8+1)).Masked()
				rec := func() any {
					return map[string]any{"range": rangePfx.String(), "mask": maskPfx.String(), "overlay": overlay.String(), "port": port}
				}
				if k%4096 == 0 { // cases are pure and regenerable from (seed, caseIdx, k); keep the syscall rate low
					r.Pre("splice caseIdx=%d k=%d fam=%d mask=%s overlay=%s port=%d", caseIdx, k, fam, maskPfx, overlay, port)
				}
				var cr *calculatedRemote
				var err error
				var gotAddr []byte
				var gotPort uint32
				if r.Guard("C48/panic", rec, func() {
					cr, err = newCalculatedRemote(rangePfx, maskPfx, port)
					if err != nil {
						return
					}
					if fam == 4 {
						g := cr.ApplyV4(overlay)
						if g != nil {
							gotAddr = binary.BigEndian.AppendUint32(nil, g.Addr)
							gotPort = g.Port
						}
					} else {
						g := cr.ApplyV6(overlay)
						if g != nil {
							gotAddr = binary.BigEndian.AppendUint64(nil, g.Hi)
							gotAddr = binary.BigEndian.AppendUint64(gotAddr, g.Lo)
							gotPort = g.Port
						}
					}
				}) {
					continue
				}
				r.Eval(1)
				r.DistinctU64(c48Hash([]byte{byte(fam), byte(l), byte(port), byte(port >> 8)}, mb, ob))
				if err != nil {
					r.Violation("C48/valid-config-refused", fmt.Sprintf("newCalculatedRemote(%s, %s, %d) refused: %v", rangePfx, maskPfx, port, err), rec())
					continue
				}
				if gotAddr == nil {
					r.Violation("C48/not-produced", fmt.Sprintf("no result for overlay %s inside its range with mask %s", overlay, maskPfx), rec())
					continue
				}
				want := c48RefSplice(mb, ob, l)
				if string(gotAddr) != string(want) {
					ga, _ := netip.AddrFromSlice(gotAddr)
					wa, _ := netip.AddrFromSlice(want)
					r.Violation("C48/splice-mismatch", fmt.Sprintf("mask %s overlay %s: got %s want %s", maskPfx, overlay, ga, wa), rec())
				}
				if gotPort != uint32(port) {
					r.Violation("C48/port-changed", fmt.Sprintf("mask %s port %d: got port %d", maskPfx, port, gotPort), rec())
				}
				if k == 0 && (l == 0 || l == 13 || l == fam*8) {
					ga, _ := netip.AddrFromSlice(gotAddr)
					r.Sample(map[string]any{"mask": maskPfx.String(), "overlay": overlay.String(), "port": port, "result": ga.String()})
				}
			}
			r.DistinctClass(fmt.Sprintf("ipv%d/len=%d", map[int]int{4: 4, 16: 6}[fam], l))
		}
	}
	r.Exhaustive("all mask prefix lengths 0..32 for IPv4 and 0..128 for IPv6 (addresses and ports sampled)")

	// constructor domain: family of mask and range must agree, port must be a UDP port
	if verifkit.Mine(0) {
		v4r, v6r := netip.MustParsePrefix("10.0.10.0/24"), netip.MustParsePrefix("fd00:10::/64")
		v4m, v6m := netip.MustParsePrefix("192.168.1.0/24"), netip.MustParsePrefix("2001:db8::/64")
		type cc struct {
			rng, mask netip.Prefix
			port      int
			ok        bool
		}
		var cases []cc
		for _, p := range []int{-65536, -1, 0, 1, 65535, 65536, 65537, 1 << 20, 1<<32 + 4242} {
			ok := p >= 0 && p <= 65535
			cases = append(cases, cc{v4r, v4m, p, ok}, cc{v6r, v6m, p, ok})
		}
		cases = append(cases, cc{v4r, v6m, 4242, false}, cc{v6r, v4m, 4242, false})
		for _, c := range cases {
			var err error
			var cr *calculatedRemote
			rec := func() any {
				return map[string]any{"range": c.rng.String(), "mask": c.mask.String(), "port": c.port}
			}
			if r.Guard("C48/panic", rec, func() { cr, err = newCalculatedRemote(c.rng, c.mask, c.port) }) {
				continue
			}
			r.Eval(1)
			r.DistinctClass(fmt.Sprintf("ctor range=%s mask=%s port=%d accepted=%v", c.rng, c.mask, c.port, err == nil))
			if (err == nil) != c.ok {
				key := "C48/port-out-of-range-accepted"
				if c.rng.Addr().BitLen() != c.mask.Addr().BitLen() {
					key = "C48/family-mismatch-accepted"
				} else if c.ok {
					key = "C48/valid-config-refused"
				}
				r.Violation(key, fmt.Sprintf("newCalculatedRemote(%s,%s,%d): err=%v, expected accepted=%v", c.rng, c.mask, c.port, err, c.ok), rec())
			} else if err == nil && cr.port != uint32(c.port) {
				r.Violation("C48/port-changed", fmt.Sprintf("port %d stored as %d", c.port, cr.port), rec())
			}
		}
	}
}

// ---- config + lighthouse level ----

type c48Entry struct {
	mask    netip.Prefix
	port    int
	portStr bool
}

type c48Range struct {
	cidr    netip.Prefix
	entries []c48Entry
}

func c48RandAddr(rng *rand.Rand, v6 bool) netip.Addr {
	if v6 {
		var b [16]byte
		binary.BigEndian.PutUint64(b[:8], rng.Uint64())
		binary.BigEndian.PutUint64(b[8:], rng.Uint64())
		if rng.IntN(2) == 0 {
			b[0], b[1] = 0xfd, 0x00 // keep several ranges close together so that nesting happens
			b[2], b[3], b[4], b[5] = 0, 0, 0, byte(rng.IntN(4))
		}
		return netip.AddrFrom16(b)
	}
	var b [4]byte
	binary.BigEndian.PutUint32(b[:], rng.Uint32())
	if rng.IntN(2) == 0 {
		b[0], b[1] = 10, byte(rng.IntN(4))
	}
	return netip.AddrFrom4(b)
}

func c48GenRanges(rng *rand.Rand) []c48Range {
	var out []c48Range
	seen := map[netip.Prefix]bool{}
	n := 1 + rng.IntN(5)
	for i := 0; i < n; i++ {
		v6 := rng.IntN(2) == 0
		bl := 32
		if v6 {
			bl = 128
		}
		var cidr netip.Prefix
		if len(out) > 0 && rng.IntN(3) == 0 {
			// nest inside / around an earlier range of any family
			p := out[rng.IntN(len(out))].cidr
			pb := p.Addr().BitLen()
			nb := p.Bits() + rng.IntN(pb-p.Bits()+1)
			if rng.IntN(3) == 0 {
				nb = rng.IntN(p.Bits() + 1)
			}
			a := p.Addr().AsSlice()
			for k := p.Bits(); k < nb; k++ {
				if rng.IntN(2) == 0 {
					a[k/8] |= 1 << (7 - uint(k%8))
				}
			}
			aa, _ := netip.AddrFromSlice(a)
			cidr = netip.PrefixFrom(aa, nb)
		} else {
			cidr = netip.PrefixFrom(c48RandAddr(rng, v6), []int{0, 1, 8, 16, 24, bl - 1, bl, rng.IntN(bl + 1), rng.IntN(bl + 1)}[rng.IntN(9)])
		}
		if rng.IntN(4) != 0 {
			cidr = cidr.Masked() // unmasked range keys are legal config too
		}
		if seen[cidr.Masked()] {
			continue
		}
		seen[cidr.Masked()] = true
		cv6 := cidr.Addr().Is6()
		cbl := cidr.Addr().BitLen()
		rg := c48Range{cidr: cidr}
		ne := rng.IntN(5)
		if rng.IntN(4) == 0 {
			ne = 1
		}
		for e := 0; e < ne; e++ {
			ml := cidr.Bits()
			if rng.IntN(3) == 0 {
				ml = rng.IntN(cbl + 1)
			}
			m := netip.PrefixFrom(c48RandAddr(rng, cv6), ml)
			// stay away from our own overlay networks (10.200.0.0/16, fd00:200::/64): results in there are filtered (C36)
			rg.entries = append(rg.entries, c48Entry{mask: m, port: []int{0, 4242, 65535, rng.IntN(65536)}[rng.IntN(4)], portStr: rng.IntN(4) == 0})
		}
		out = append(out, rg)
	}
	return out
}

func c48Yaml(ranges []c48Range) string {
	var sb strings.Builder
	sb.WriteString("listen:\n  port: 4242\nlighthouse:\n  am_lighthouse: true\n")
	if len(ranges) > 0 {
		sb.WriteString("  calculated_remotes:\n")
	}
	for _, rg := range ranges {
		if len(rg.entries) == 0 {
			fmt.Fprintf(&sb, "    %q: []\n", rg.cidr.String())
			continue
		}
		fmt.Fprintf(&sb, "    %q:\n", rg.cidr.String())
		for _, e := range rg.entries {
			fmt.Fprintf(&sb, "      - mask: %q\n", e.mask.String())
			if e.portStr {
				fmt.Fprintf(&sb, "        port: \"%d\"\n", e.port)
			} else {
				fmt.Fprintf(&sb, "        port: %d\n", e.port)
			}
		}
	}
	return sb.String()
}

// c48Expect: must = results of the most specific range of addr's family containing addr, may = results of
// every containing range; inRange says whether any configured range of the same family contains addr.
func c48Expect(ranges []c48Range, addr netip.Addr) (must, may map[netip.AddrPort]bool, inRange bool, mustEntries int) {
	must, may = map[netip.AddrPort]bool{}, map[netip.AddrPort]bool{}
	best := -1
	for i, rg := range ranges {
		if rg.cidr.Addr().BitLen() != addr.BitLen() {
			continue
		}
		if !rg.cidr.Masked().Contains(addr) {
			continue
		}
		inRange = true
		if best < 0 || rg.cidr.Bits() > ranges[best].cidr.Bits() {
			best = i
		}
		for _, e := range rg.entries {
			may[netip.AddrPortFrom(c48RefAddr(e.mask.Addr(), addr, e.mask.Bits()), uint16(e.port))] = true
		}
	}
	if best >= 0 {
		for _, e := range ranges[best].entries {
			must[netip.AddrPortFrom(c48RefAddr(e.mask.Addr(), addr, e.mask.Bits()), uint16(e.port))] = true
		}
		mustEntries = len(ranges[best].entries)
	}
	return
}

func c48Strs(m map[netip.AddrPort]bool) []string {
	out := make([]string, 0, len(m))
	for k := range m {
		out = append(out, k.String())
	}
	sort.Strings(out)
	return out
}

func TestVerifC48Lighthouse(t *testing.T) {
	r := verifkit.NewReporter(t, "C48", "lighthouse",
		"generated lighthouse.calculated_remotes YAML (1..5 IPv4/IPv6 ranges, nested and unmasked keys, 0..4 mask entries with int/string ports, occasional reload to a second config) loaded through config.C into a real LightHouse; addCalculatedRemotes for overlay addresses inside, just outside and far from the ranges and of the other family; the peer's remote list is compared with the reference splice set; distinct = distinct (config, overlay address) pairs")
	defer r.Done()
	l := slog.New(slog.DiscardHandler)
	myNets := []netip.Prefix{netip.MustParsePrefix("10.200.0.1/16"), netip.MustParsePrefix("fd00:200::1/64")}
	ownTable := new(bart.Lite)
	for _, p := range myNets {
		ownTable.Insert(p)
	}
	cs := &CertState{myVpnNetworks: myNets, myVpnNetworksTable: ownTable}
	inOwn := func(a netip.Addr) bool {
		for _, p := range myNets {
			if p.Masked().Contains(a) {
				return true
			}
		}
		return false
	}

	nCfg := verifkit.Scale(12_000, 400_000)
	for ci := 0; ci < nCfg; ci++ {
		if !verifkit.Mine(ci) {
			continue
		}
		rng := verifkit.SubRand("C48lh", ci)
		cfgs := [][]c48Range{c48GenRanges(rng)}
		if rng.IntN(4) == 0 {
			cfgs = append(cfgs, c48GenRanges(rng))
		}
		var lh *LightHouse
		var c *config.C
		used := map[netip.Addr]bool{}
		for gi, ranges := range cfgs {
			y := c48Yaml(ranges)
			r.Pre("lighthouse cfg %d gen %d yaml=%q", ci, gi, y)
			var err error
			if r.Guard("C48/panic", func() any { return y }, func() {
				if gi == 0 {
					c = config.NewC(l)
					if err = c.LoadString(y); err != nil {
						return
					}
					lh, err = NewLightHouseFromConfig(context.Background(), l, c, cs, nil, nil)
				} else {
					err = c.ReloadConfigString(y)
				}
			}) {
				break
			}
			if err != nil {
				r.Violation("C48/valid-config-refused", fmt.Sprintf("valid calculated_remotes config refused: %v", err), map[string]any{"yaml": y, "generation": gi})
				break
			}
			// probe addresses
			var probes []netip.Addr
			for _, rg := range ranges {
				p := rg.cidr.Masked()
				bl := p.Addr().BitLen()
				for k := 0; k < 3; k++ { // inside
					a := p.Addr().AsSlice()
					for b := p.Bits(); b < bl; b++ {
						if rng.IntN(2) == 0 {
							a[b/8] |= 1 << (7 - uint(b%8))
						}
					}
					aa, _ := netip.AddrFromSlice(a)
					probes = append(probes, aa)
				}
				if p.Bits() > 0 { // just outside: flip the last prefix bit
					a := p.Addr().AsSlice()
					b := p.Bits() - 1
					a[b/8] ^= 1 << (7 - uint(b%8))
					aa, _ := netip.AddrFromSlice(a)
					probes = append(probes, aa)
				}
			}
			probes = append(probes, c48RandAddr(rng, false), c48RandAddr(rng, true))
			for _, addr := range probes {
				if used[addr] || inOwn(addr) {
					continue
				}
				used[addr] = true
				must, may, inRange, mustEntries := c48Expect(ranges, addr)
				rec := func() any {
					return map[string]any{"yaml": y, "generation": gi, "overlay": addr.String(), "expected_must": c48Strs(must), "expected_may": c48Strs(may)}
				}
				var ret bool
				var got []netip.AddrPort
				if r.Guard("C48/panic", rec, func() {
					ret = lh.addCalculatedRemotes(addr)
					lh.RLock()
					rl := lh.addrMap[addr]
					lh.RUnlock()
					if rl != nil {
						got = rl.CopyAddrs(nil)
					}
				}) {
					continue
				}
				r.Eval(1)
				r.DistinctU64(c48Hash([]byte(y), addr.AsSlice()))
				nested := len(may) > len(must)
				r.DistinctClass(fmt.Sprintf("fam=%d inRange=%v entries=%d nested=%v reload=%v", addr.BitLen(), inRange, min(mustEntries, 2), nested, gi > 0))
				if !inRange {
					r.Count("outside_range", 1)
					if ret || len(got) > 0 {
						r.Violation("C48/produced-outside-range", fmt.Sprintf("overlay %s is in no configured range of its family but got %v (ret=%v)", addr, got, ret), rec())
					}
					continue
				}
				r.Count("inside_range", 1)
				if nested {
					r.Count("nested_ranges", 1)
				}
				if ret != (mustEntries > 0) {
					r.Violation("C48/return-value", fmt.Sprintf("overlay %s: addCalculatedRemotes returned %v with %d configured entries", addr, ret, mustEntries), rec())
				}
				gotSet := map[netip.AddrPort]bool{}
				for _, g := range got {
					gotSet[g] = true
					if !may[g] {
						r.Violation("C48/splice-mismatch", fmt.Sprintf("overlay %s: produced %s which no configured mask yields", addr, g), rec())
					}
				}
				for w := range must {
					if !gotSet[w] && !inOwn(w.Addr()) {
						r.Violation("C48/not-produced", fmt.Sprintf("overlay %s: expected calculated remote %s missing (got %v)", addr, w, got), rec())
					}
				}
				if r.WantSample() && len(must) > 0 {
					r.Sample(map[string]any{"yaml": y, "overlay": addr.String(), "result": c48Strs(gotSet)})
				}
			}
		}
	}

	// configurations that must be refused: mask of the other family, bad port
	if verifkit.Mine(0) {
		bad := map[string]string{
			"v4 range v6 mask":  "listen:\n  port: 4242\nlighthouse:\n  am_lighthouse: true\n  calculated_remotes:\n    \"10.0.10.0/24\":\n      - mask: \"2001:db8::/64\"\n        port: 4242\n",
			"v6 range v4 mask":  "listen:\n  port: 4242\nlighthouse:\n  am_lighthouse: true\n  calculated_remotes:\n    \"fd00::/64\":\n      - mask: \"192.168.1.0/24\"\n        port: 4242\n",
			"port 65536":        "listen:\n  port: 4242\nlighthouse:\n  am_lighthouse: true\n  calculated_remotes:\n    \"10.0.10.0/24\":\n      - mask: \"192.168.1.0/24\"\n        port: 65536\n",
			"port -1":           "listen:\n  port: 4242\nlighthouse:\n  am_lighthouse: true\n  calculated_remotes:\n    \"10.0.10.0/24\":\n      - mask: \"192.168.1.0/24\"\n        port: -1\n",
			"port string 70000": "listen:\n  port: 4242\nlighthouse:\n  am_lighthouse: true\n  calculated_remotes:\n    \"10.0.10.0/24\":\n      - mask: \"192.168.1.0/24\"\n        port: \"70000\"\n",
		}
		for name, y := range bad {
			var err error
			if r.Guard("C48/panic", func() any { return y }, func() {
				c := config.NewC(l)
				if err = c.LoadString(y); err != nil {
					err = nil // a yaml problem would be a harness bug; treated as accepted below
					return
				}
				_, err = NewLightHouseFromConfig(context.Background(), l, c, cs, nil, nil)
			}) {
				continue
			}
			r.Eval(1)
			r.DistinctClass("refused-config: " + name)
			if err == nil {
				key := "C48/port-out-of-range-accepted"
				if strings.Contains(name, "mask") {
					key = "C48/family-mismatch-accepted"
				}
				r.Violation(key, "invalid calculated_remotes config accepted: "+name, map[string]any{"yaml": y})
			}
		}
	}
}
