//go:build e2e_testing

package nebula

// C09 — tunnels are bound to the certified overlay address.
//
// Started nodes in a synctest bubble, serialized. Identities include multi-address v2 certificates, a v1 peer,
// a node sitting at another host's expected underlay address (wrong responder), and puppet peers whose
// certificates list the victim's own address (alone, or next to the address the victim asked for).
// The router delivers, drops, duplicates and misdelivers.
// Oracle at every quiescent point, for every node and every tunnel reachable from Hosts / moreHosts / Indexes:
//   - it carries a verified peer certificate that the harness issued (fingerprint ground truth) and that the node's
//     own CA pool accepts now;
//   - the addresses recorded for the tunnel are exactly the certificate's addresses, in order;
//   - every address it is filed under is listed in that certificate;
//   - none of its addresses is one of the node's own.
// Event oracle on every second handshake message delivered to an initiator: if the responder's certificate does not
// list the address the initiator asked for ("a different host answers"), no tunnel authenticated by that
// certificate may exist on the initiator afterwards.

import (
	"fmt"
	"net/netip"
	"slices"
	"testing"
	"time"

	"github.com/slackhq/nebula/cert"
	"github.com/slackhq/nebula/header"
	"github.com/slackhq/nebula/verifkit"
)

type c09World struct {
	r      *verifkit.Reporter
	sc     int
	nw     *vnNet
	idents map[string]*vnIdent // by fingerprint of any of its certs
}

func c09Fingerprints(id *vnIdent) []string {
	var out []string
	for _, c := range id.Certs {
		fp, _ := c.Fingerprint()
		out = append(out, fp)
	}
	return out
}

func (w *c09World) audit(when string) {
	r := w.r
	now := time.Now()
	for _, n := range w.nw.Nodes {
		if n.stopped {
			continue
		}
		hm := n.F.hostMap
		hm.RLock()
		filed := map[*HostInfo][]netip.Addr{}
		all := map[*HostInfo]bool{}
		for a, h := range hm.Hosts {
			filed[h] = append(filed[h], a)
			all[h] = true
		}
		for a, l := range hm.moreHosts {
			for _, h := range l {
				if !slices.Contains(filed[h], a) {
					filed[h] = append(filed[h], a)
				}
				all[h] = true
			}
		}
		for _, h := range hm.Indexes {
			all[h] = true
		}
		hm.RUnlock()
		own := n.Ident.Addrs()
		for h := range all {
			r.Eval(1)
			rec := func() map[string]any {
				return map[string]any{"scenario": w.sc, "when": when, "node": n.Name, "tunnel": vnHostinfoLine(h), "filed_under": fmt.Sprint(filed[h])}
			}
			if h.ConnectionState == nil || h.ConnectionState.peerCert == nil {
				r.Violation("C09/tunnel-without-verified-certificate", fmt.Sprintf("node %s holds a tunnel without a verified peer certificate", n.Name), rec())
				continue
			}
			pc := h.ConnectionState.peerCert
			id, known := w.idents[pc.Fingerprint]
			if !known {
				r.Violation("C09/tunnel-with-unknown-certificate", fmt.Sprintf("node %s holds a tunnel whose certificate was never issued by the harness", n.Name), rec())
				continue
			}
			if _, err := n.F.pki.GetCAPool().VerifyCertificate(now, pc.Certificate); err != nil {
				r.Violation("C09/tunnel-certificate-not-acceptable", fmt.Sprintf("node %s holds a tunnel whose certificate its own pool rejects: %v", n.Name, err), rec())
			}
			var certAddrs []netip.Addr
			for _, p := range pc.Certificate.Networks() {
				certAddrs = append(certAddrs, p.Addr())
			}
			if !slices.Equal(certAddrs, h.vpnAddrs) {
				r.Violation("C09/recorded-addresses-differ-from-certificate", fmt.Sprintf("node %s: tunnel records %v but its certificate (%s) lists %v", n.Name, h.vpnAddrs, id.Name, certAddrs), rec())
			}
			for _, a := range filed[h] {
				if !slices.Contains(certAddrs, a) {
					r.Violation("C09/filed-under-uncertified-address", fmt.Sprintf("node %s uses a tunnel for %s whose certificate (%s) lists only %v", n.Name, a, id.Name, certAddrs), rec())
				}
			}
			for _, a := range append(append([]netip.Addr{}, certAddrs...), h.vpnAddrs...) {
				if slices.Contains(own, a) {
					r.Violation("C09/tunnel-to-own-address", fmt.Sprintf("node %s installed a tunnel to its own address %s (certificate %s)", n.Name, a, id.Name), rec())
				}
			}
			r.DistinctClass(fmt.Sprintf("node=%s peer=%s filed=%d certaddrs=%d v=%d", n.Name, id.Name, len(filed[h]), len(certAddrs), pc.Certificate.Version()))
			r.Distinct(fmt.Sprintf("sc%d %s %d", w.sc, n.Name, h.localIndexId))
		}
	}
}

// certsOn returns how many tunnels on n are authenticated by one of the given fingerprints.
func c09CertsOn(n *vnNode, fps []string) int {
	c := 0
	n.F.hostMap.RLock()
	for _, h := range n.F.hostMap.Indexes {
		if h.ConnectionState != nil && h.ConnectionState.peerCert != nil && slices.Contains(fps, h.ConnectionState.peerCert.Fingerprint) {
			c++
		}
	}
	n.F.hostMap.RUnlock()
	return c
}

// deliver hands p to `to` (possibly not the addressed node) and applies the wrong-responder event oracle.
func (w *c09World) deliver(p *vnPacket, to *vnNode, senderIdent *vnIdent) {
	var intended netip.Addr
	check := false
	if p.HOK && p.H.Type == header.Handshake && p.H.MessageCounter == 2 && senderIdent != nil && !to.stopped {
		hsm := to.F.handshakeManager
		hsm.RLock()
		if hh, ok := hsm.indexes[p.H.RemoteIndex]; ok && len(hh.hostinfo.vpnAddrs) > 0 {
			intended = hh.hostinfo.vpnAddrs[0]
			check = true
		}
		hsm.RUnlock()
	}
	before := 0
	if check {
		before = c09CertsOn(to, c09Fingerprints(senderIdent))
	}
	w.nw.Inject(to, p.From, p.Data)
	w.nw.Settle()
	if check {
		listed := slices.Contains(senderIdent.Addrs(), intended)
		own := false
		for _, a := range senderIdent.Addrs() {
			if slices.Contains(to.Ident.Addrs(), a) {
				own = true
			}
		}
		w.r.DistinctClass(fmt.Sprintf("stage2 delivered: responder-lists-asked-address=%v responder-lists-initiators-own-address=%v", listed, own))
		if !listed || own {
			w.r.Count("replies_from_wrong_or_self_claiming_host", 1)
			if n := c09CertsOn(to, c09Fingerprints(senderIdent)) - before; n > 0 {
				key := "C09/tunnel-installed-although-different-host-answered"
				if own {
					key = "C09/tunnel-to-own-address"
				}
				w.r.Violation(key, fmt.Sprintf("scenario %d: %s asked for %s, %s (certified for %v) answered, and %s installed %d new tunnel(s) authenticated by that certificate", w.sc, to.Name, intended, senderIdent.Name, senderIdent.Addrs(), to.Name, n),
					map[string]any{"scenario": w.sc, "initiator": to.Name, "asked_for": intended.String(), "responder": senderIdent.Name, "responder_addrs": fmt.Sprint(senderIdent.Addrs()), "packet": p.String()})
			}
		} else {
			w.r.Count("replies_from_right_host", 1)
		}
	}
}

func TestVerifC09(t *testing.T) {
	r := verifkit.NewReporter(t, "C09", "bind",
		"6 real nodes (multi-address v2, v1-only, dual v1+v2 with equal and with different address sets per version) + 2 puppet peers certified for a victim's own address; PRNG schedules of tun traffic, poisoned lighthouse entries (peer's address mapped to another host's underlay address), puppet answers, drops, duplicates, misdelivery, virtual-time steps; distinct = tunnels audited (node, index) plus (node, peer, shape) and stage-2 outcome classes")
	defer r.Done()
	scen := verifkit.Scale(24, 600)
	for sc := 0; sc < scen; sc++ {
		if !verifkit.Mine(sc) {
			continue
		}
		rng := verifkit.SubRand("C09", sc)
		vnRunBubble(t, func(t *testing.T) {
			ca := vnNewCA(cert.Version2, cert.Curve_CURVE25519)
			nw := vnNewNet(t)
			w := &c09World{r: r, sc: sc, nw: nw, idents: map[string]*vnIdent{}}
			v2 := []cert.Version{cert.Version2}
			ids := []*vnIdent{
				ca.issue(v2, "a", "10.1.0.1/16,fd00:1::1/64", "", nil),
				ca.issue(v2, "b", "10.1.0.2/16,fd00:1::2/64", "", nil),
				ca.issue([]cert.Version{cert.Version1}, "c", "10.1.0.3/16", "", nil),
				ca.issue([]cert.Version{cert.Version1, cert.Version2}, "d", "10.1.0.4/16", "", nil),
				// dual-certificate peers whose two certificates list different address sets (v1: the IPv4 address only)
				ca.issue([]cert.Version{cert.Version1, cert.Version2}, "e", "10.1.0.5/16,fd00:1::5/64", "", nil),
				ca.issue([]cert.Version{cert.Version1, cert.Version2}, "f", "10.1.0.6/16,fd00:1::6/64", "", nil),
			}
			// puppets: one certified for a's own address only, one for b's address AND a's own address
			px := ca.issue(v2, "x-claims-a", "10.1.0.1/16", "", nil)
			py := ca.issue(v2, "y-claims-b-and-a", "10.1.0.2/16,fd00:1::1/64", "", nil)
			for _, id := range append(append([]*vnIdent{}, ids...), px, py) {
				for _, fp := range c09Fingerprints(id) {
					w.idents[fp] = id
				}
			}
			var nodes []*vnNode
			for i, id := range ids {
				n := nw.AddNode(id, []*vnCA{ca}, fmt.Sprintf("192.0.2.%d:4242", i+1), nil)
				nodes = append(nodes, n)
			}
			ppx := nw.AddPuppet(px, []*vnCA{ca}, "192.0.2.50:4242", cert.Version2)
			ppy := nw.AddPuppet(py, []*vnCA{ca}, "192.0.2.51:4242", cert.Version2)
			for _, n := range nodes {
				n.Start()
			}
			for _, n := range nodes {
				for _, o := range nodes {
					if n != o {
						n.lhAddStatic(o)
					}
				}
			}
			nw.Settle()
			defer nw.StopAll()

			identOfSender := func(p *vnPacket) *vnIdent {
				if p.Sender != nil {
					return p.Sender.Ident
				}
				return nil
			}
			pump := func(hostile bool) {
				for i := 0; i < 3000 && len(nw.Inflight) > 0; i++ {
					p := nw.Inflight[0]
					nw.Remove(p)
					if pp, ok := nw.Puppets[p.To]; ok {
						// a node is talking to a puppet: answer first handshake messages as that puppet
						if p.HOK && p.H.Type == header.Handshake && p.H.MessageCounter == 1 && p.Sender != nil {
							tun := pp.RespondNoDeliver(p)
							if tun != nil {
								rp := &vnPacket{From: pp.Addr, To: p.Sender.Addr, Data: tun.Stage2, HOK: true}
								rp.H.Parse(tun.Stage2)
								w.deliver(rp, p.Sender, pp.Ident)
								w.audit("after puppet reply")
							}
						}
						continue
					}
					to := nw.byAddr[p.To]
					if to == nil {
						continue
					}
					if hostile {
						switch rng.IntN(12) {
						case 0:
							continue // drop
						case 1:
							w.deliver(p, to, identOfSender(p)) // duplicate
						case 2:
							to = nodes[rng.IntN(len(nodes))] // misdeliver
						}
					}
					w.deliver(p, to, identOfSender(p))
					w.audit("after delivery")
				}
			}

			steps := verifkit.Scale(60, 120)
			for i := 0; i < steps; i++ {
				switch k := rng.IntN(15); {
				case k < 5:
					a, b := nodes[rng.IntN(len(nodes))], nodes[rng.IntN(len(nodes))]
					if a == b {
						continue
					}
					// any of the destination's addresses the source has a matching family for
					var pkt []byte
					das := b.Ident.Addrs()
					dst := das[rng.IntN(len(das))]
					if dst.Is6() {
						var src netip.Addr
						for _, x := range a.Ident.Addrs() {
							if x.Is6() {
								src = x
							}
						}
						if !src.IsValid() {
							dst = das[0]
						} else {
							pkt, _ = vnUDP6(src, dst, uint16(1000+i), 80, 0)
							r.Count("sends_to_a_secondary_ipv6_address", 1)
						}
					}
					if pkt == nil {
						pkt, _ = vnUDP4(a.Ident.Addr(), dst, uint16(1000+i), 80, 0)
					}
					nw.TunSend(a, pkt)
				case k < 7:
					// poison: victim believes `peer` lives where another node / a puppet listens
					victim := nodes[rng.IntN(len(nodes))]
					peer := nodes[rng.IntN(len(nodes))]
					if victim == peer {
						continue
					}
					where := []netip.AddrPort{nodes[rng.IntN(len(nodes))].Addr, ppx.Addr, ppy.Addr}[rng.IntN(3)]
					if rng.IntN(3) == 0 {
						// the answering host's certificate lists the dialled address first and one of the victim's own addresses
						// after it: node a dials b and y-claims-b-and-a answers
						victim, peer, where = nodes[0], nodes[1], ppy.Addr
						r.Count("dials_answered_by_a_certificate_listing_the_dialled_address_then_the_victims_own", 1)
					}
					if where == victim.Addr {
						continue
					}
					// forget what the victim has so the poisoned address is tried
					victim.C.CloseTunnel(peer.Ident.Addr(), true)
					victim.F.lightHouse.DeleteVpnAddrs(peer.Ident.Addrs())
					victim.C.InjectLightHouseAddr(peer.Ident.Addr(), where)
					pkt, _ := vnUDP4(victim.Ident.Addr(), peer.Ident.Addr(), uint16(2000+i), 80, 0)
					nw.TunSend(victim, pkt)
					r.Count("poisoned_lighthouse_entries", 1)
				case k < 9:
					// a puppet certified for somebody's own address initiates towards a node
					pp := []*vnPuppet{ppx, ppy}[rng.IntN(2)]
					tgt := nodes[rng.IntN(len(nodes))]
					before := c09CertsOn(tgt, c09Fingerprints(pp.Ident))
					tun := pp.Handshake(tgt)
					pp.TakeInbox()
					claimsOwn := false
					for _, a := range pp.Ident.Addrs() {
						if slices.Contains(tgt.Ident.Addrs(), a) {
							claimsOwn = true
						}
					}
					r.DistinctClass(fmt.Sprintf("puppet %s -> %s claims-targets-own-address=%v accepted=%v", pp.Ident.Name, tgt.Name, claimsOwn, tun != nil))
					if claimsOwn {
						r.Count("initiations_claiming_the_targets_own_address", 1)
						if tun != nil || c09CertsOn(tgt, c09Fingerprints(pp.Ident)) > before {
							r.Violation("C09/tunnel-to-own-address", fmt.Sprintf("scenario %d: %s accepted a handshake from a peer certified for %v, which includes %s's own address", sc, tgt.Name, pp.Ident.Addrs(), tgt.Name),
								map[string]any{"scenario": sc, "node": tgt.Name, "peer_addrs": fmt.Sprint(pp.Ident.Addrs())})
						}
					}
				case k < 11 && rng.IntN(2) == 0:
					// tunnel churn on one node: promote a non-primary tunnel the way the connection manager does, or drop the
					// primary for one of a peer's addresses locally
					n := nodes[rng.IntN(len(nodes))]
					hm := n.F.hostMap
					hm.RLock()
					var cands [][2]*HostInfo
					var addrs []netip.Addr
					for a, l := range hm.moreHosts {
						for _, h := range l[1:] {
							cands = append(cands, [2]*HostInfo{h, hm.Hosts[h.vpnAddrs[0]]})
						}
						addrs = append(addrs, a)
					}
					for a := range hm.Hosts {
						addrs = append(addrs, a)
					}
					hm.RUnlock()
					slices.SortFunc(addrs, func(x, y netip.Addr) int { return x.Compare(y) })
					slices.SortFunc(cands, func(x, y [2]*HostInfo) int { return int(x[0].localIndexId) - int(y[0].localIndexId) })
					if len(cands) > 0 && rng.IntN(2) == 0 {
						c := cands[rng.IntN(len(cands))]
						if c[1] != nil && c[1] != c[0] {
							n.F.connectionManager.swapPrimary(c[0], c[1])
							r.Count("non_primary_tunnels_promoted", 1)
							w.audit("after promotion")
						}
					} else if len(addrs) > 0 {
						n.C.CloseTunnel(addrs[rng.IntN(len(addrs))], true)
						r.Count("tunnels_closed_locally", 1)
						nw.Settle()
						w.audit("after local close")
					}
				case k < 11:
					nw.Advance(time.Duration(100+rng.IntN(2500)) * time.Millisecond)
				default:
					n := nodes[rng.IntN(len(nodes))]
					o := nodes[rng.IntN(len(nodes))]
					if n != o {
						n.C.ReHandshake(o.Ident.Addr())
						nw.Settle()
					}
				}
				pump(rng.IntN(3) != 0)
				w.audit("after step")
			}
			nw.AdvanceFlushing(6*time.Second, time.Second)
			w.audit("final")
			if sc < 2 {
				r.Sample(map[string]any{"scenario": sc, "udp_packets_seen": len(nw.Archive), "node_a_hostmap": vnTunnels(nodes[0])})
			}
		})
	}
}
