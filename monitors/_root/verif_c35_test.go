package nebula

// C35 — lighthouse information is accepted only from authorized senders.
//
// The monitor drives the real LightHouseHandler.HandleRequest on real LightHouse objects built from
// config (lighthouse, lighthouse with an upstream lighthouse, client with lighthouses, client without
// lighthouses) with a recording EncWriter, a recording udp.Conn for punches and a real Punchy whose
// timers run on the virtual clock of a testing/synctest bubble.
//
// Oracle (written from the statement, not from the handler):
//   F  = the overlay addresses the sending tunnel is authenticated as
//   LH = the lighthouses configured on the node
//   * a node that is a lighthouse may change what it holds for overlay address A only while handling a
//     HostUpdateNotification from a tunnel with A in F (and never when every address claimed in the
//     message is outside F); what it then holds must come from that message;
//   * only a lighthouse answers a HostQuery (reply to the asker, punch request to the host asked about),
//     and what it says about Q was reported by a tunnel authenticated as Q;
//   * a node that is not a lighthouse changes state only for a HostQueryReply from a tunnel with
//     F ∩ LH != {} (only for the address the reply is about, only with data from the reply), punches /
//     sends test packets only for a HostPunchNotification from such a tunnel (only to addresses in the
//     message), never sends a lighthouse message, ignores host updates and queries;
//   * every other message type, every undecodable message: no effect at all.

import (
	"context"
	"encoding/binary"
	"fmt"
	"log/slog"
	"math/rand/v2"
	"net/netip"
	"slices"
	"sort"
	"strings"
	"sync"
	"testing"
	"testing/synctest"
	"time"

	"github.com/gaissmai/bart"
	"github.com/slackhq/nebula/cert"
	"github.com/slackhq/nebula/cert_test"
	"github.com/slackhq/nebula/config"
	"github.com/slackhq/nebula/header"
	"github.com/slackhq/nebula/udp"
	"github.com/slackhq/nebula/verifkit"
)

// ---------------------------------------------------------------------------------------------
// recording collaborators

type c35Sent struct {
	Kind string // "vpn", "hostinfo", "via", "handshake"
	T    header.MessageType
	ST   header.MessageSubType
	To   netip.Addr
	P    []byte
}

type c35Enc struct {
	mu   sync.Mutex
	cs   *CertState
	his  map[netip.Addr]*HostInfo
	sent []c35Sent
}

func (e *c35Enc) SendVia(via *HostInfo, relay *Relay, ad, nb, out []byte, nocopy bool, q int) {
	e.mu.Lock()
	e.sent = append(e.sent, c35Sent{Kind: "via", P: slices.Clone(ad)})
	e.mu.Unlock()
}

func (e *c35Enc) SendMessageToVpnAddr(t header.MessageType, st header.MessageSubType, vpnAddr netip.Addr, p, nb, out []byte) {
	e.mu.Lock()
	e.sent = append(e.sent, c35Sent{Kind: "vpn", T: t, ST: st, To: vpnAddr, P: slices.Clone(p)})
	e.mu.Unlock()
}

func (e *c35Enc) SendMessageToHostInfo(t header.MessageType, st header.MessageSubType, hostinfo *HostInfo, p, nb, out []byte) {
	e.mu.Lock()
	s := c35Sent{Kind: "hostinfo", T: t, ST: st, P: slices.Clone(p)}
	if hostinfo != nil && len(hostinfo.vpnAddrs) > 0 {
		s.To = hostinfo.vpnAddrs[0]
	}
	e.sent = append(e.sent, s)
	e.mu.Unlock()
}

func (e *c35Enc) Handshake(vpnAddr netip.Addr) {
	e.mu.Lock()
	e.sent = append(e.sent, c35Sent{Kind: "handshake", To: vpnAddr})
	e.mu.Unlock()
}

func (e *c35Enc) GetHostInfo(vpnAddr netip.Addr) *HostInfo {
	e.mu.Lock()
	defer e.mu.Unlock()
	if hi, ok := e.his[vpnAddr]; ok {
		return hi
	}
	return nil
}

func (e *c35Enc) GetCertState() *CertState { return e.cs }

func (e *c35Enc) take() []c35Sent {
	e.mu.Lock()
	defer e.mu.Unlock()
	s := e.sent
	e.sent = nil
	return s
}

type c35Write struct {
	To netip.AddrPort
	B  []byte
	At time.Time
}

type c35Conn struct {
	udp.NoopConn
	mu     sync.Mutex
	writes []c35Write
}

func (c *c35Conn) WriteTo(b []byte, addr netip.AddrPort) error {
	c.mu.Lock()
	c.writes = append(c.writes, c35Write{To: addr, B: slices.Clone(b), At: time.Now()})
	c.mu.Unlock()
	return nil
}

func (c *c35Conn) WriteBatch(bufs [][]byte, addrs []netip.AddrPort) (int, error) {
	for i := range bufs {
		c.WriteTo(bufs[i], addrs[i])
	}
	return len(bufs), nil
}

func (c *c35Conn) LocalAddr() (netip.AddrPort, error) {
	return netip.MustParseAddrPort("192.0.2.1:4242"), nil
}

func (c *c35Conn) take() []c35Write {
	c.mu.Lock()
	defer c.mu.Unlock()
	w := c.writes
	c.writes = nil
	return w
}

// ---------------------------------------------------------------------------------------------
// the world: who can send, what the node is

type c35Ident struct {
	name  string
	addrs []netip.Addr
}

var c35OwnNets = []netip.Prefix{netip.MustParsePrefix("10.128.0.1/16"), netip.MustParsePrefix("fd00:128::1/64")}

func c35Idents() []c35Ident {
	a := netip.MustParseAddr
	return []c35Ident{
		{"lhA", []netip.Addr{a("10.128.0.2")}},
		{"lhB", []netip.Addr{a("10.128.0.3"), a("fd00:128::3")}},
		{"p1", []netip.Addr{a("10.128.0.10")}},
		{"p2", []netip.Addr{a("10.128.0.11")}},
		{"p6", []netip.Addr{a("fd00:128::12")}},
		{"m1", []netip.Addr{a("10.128.0.20"), a("fd00:128::20")}},
		{"m2", []netip.Addr{a("fd00:128::21"), a("10.128.0.21"), a("10.130.0.21")}},
	}
}

type c35Node struct {
	class       string // lighthouse, lighthouse+upstream, client, client-nolh
	amLH        bool
	lighthouses []netip.Addr
	lh          *LightHouse
	lhh         *LightHouseHandler
	punchy      *Punchy
	enc         *c35Enc
	conn        *c35Conn
	trigger     chan netip.Addr
	settings    map[string]any
}

func c35BuildNode(ctx context.Context, rng *rand.Rand, idents []c35Ident) (*c35Node, error) {
	l := slog.New(slog.DiscardHandler)
	n := &c35Node{}
	c := config.NewC(l)
	static := map[string]any{}
	lhSet := map[string]any{}
	switch k := rng.IntN(10); {
	case k < 3:
		n.class, n.amLH = "lighthouse", true
	case k < 4:
		n.class, n.amLH = "lighthouse+upstream", true
		n.lighthouses = []netip.Addr{idents[0].addrs[0]}
	case k < 9:
		n.class = "client"
		n.lighthouses = []netip.Addr{idents[0].addrs[0], idents[1].addrs[rng.IntN(2)]}
		if rng.IntN(4) == 0 {
			n.lighthouses = n.lighthouses[:1]
		}
	default:
		n.class = "client-nolh"
	}
	hosts := []any{}
	for _, a := range n.lighthouses {
		hosts = append(hosts, a.String())
		static[a.String()] = []any{fmt.Sprintf("198.51.100.%d:4242", 1+len(static))}
	}
	if rng.IntN(3) == 0 { // a static ordinary host
		static[idents[3].addrs[0].String()] = []any{"198.51.100.77:4242"}
	}
	lhSet["am_lighthouse"] = n.amLH
	lhSet["hosts"] = hosts
	switch rng.IntN(4) {
	case 0:
		lhSet["remote_allow_list"] = map[string]any{"100.64.0.0/16": false}
	case 1:
		lhSet["remote_allow_list"] = map[string]any{"0.0.0.0/0": true, "::/0": true, "2001:db8:1::/48": false}
	}
	c.Settings["lighthouse"] = lhSet
	c.Settings["listen"] = map[string]any{"port": 4242}
	c.Settings["static_host_map"] = static
	pun := map[string]any{"punch": rng.IntN(2) == 0, "respond": rng.IntN(3) != 0}
	pun["delay"] = []string{"1s", "100ms", "3s"}[rng.IntN(3)]
	pun["respond_delay"] = []string{"5s", "1s"}[rng.IntN(2)]
	c.Settings["punchy"] = pun
	n.settings = map[string]any{"lighthouse": lhSet, "static_host_map": static, "punchy": pun}

	nt := new(bart.Lite)
	for _, p := range c35OwnNets {
		nt.Insert(p.Masked())
	}
	cs := &CertState{myVpnNetworks: c35OwnNets, myVpnNetworksTable: nt, initiatingVersion: cert.Version(1 + rng.IntN(2))}
	n.conn = &c35Conn{}
	n.enc = &c35Enc{cs: cs, his: map[netip.Addr]*HostInfo{}}
	n.punchy = NewPunchyFromConfig(l, c, n.conn)
	lh, err := NewLightHouseFromConfig(ctx, l, c, cs, n.conn, n.punchy)
	if err != nil {
		return nil, err
	}
	lh.ifce = n.enc
	n.trigger = make(chan netip.Addr, 64)
	lh.handshakeTrigger = n.trigger
	n.punchy.Start(ctx, n.enc, nil, lh)
	n.lh = lh
	n.lhh = lh.NewRequestHandler()

	// some peers have an established tunnel (a hostinfo with a certificate), which changes how punch
	// requests are addressed
	for _, id := range idents {
		if rng.IntN(2) == 0 {
			continue
		}
		nets := make([]netip.Prefix, len(id.addrs))
		for i, a := range id.addrs {
			bits := 16
			if a.Is6() {
				bits = 64
			}
			nets[i] = netip.PrefixFrom(a, bits)
		}
		dc := &cert_test.DummyCert{Version_: cert.Version(1 + rng.IntN(2)), Networks_: nets, Name_: id.name}
		hi := &HostInfo{vpnAddrs: id.addrs, ConnectionState: &ConnectionState{peerCert: &cert.CachedCertificate{Certificate: dc}}}
		for _, a := range id.addrs {
			n.enc.his[a] = hi
		}
	}
	return n, nil
}

func (n *c35Node) isLH(addrs []netip.Addr) bool {
	for _, a := range addrs {
		if slices.Contains(n.lighthouses, a) {
			return true
		}
	}
	return false
}

// ---------------------------------------------------------------------------------------------
// messages

type c35Msg struct {
	typ   NebulaMeta_MessageType
	enc   string
	bytes []byte
	// independent view of what the bytes say (fresh decode)
	ok     bool
	claims []netip.Addr
	addrs  map[netip.AddrPort]bool
	relays map[netip.Addr]bool
}

func c35U32(a netip.Addr) uint32 {
	b := a.As4()
	return binary.BigEndian.Uint32(b[:])
}

func c35RandUnderlay(rng *rand.Rand, tag int, v6 bool) netip.AddrPort {
	port := uint16(1 + rng.IntN(65535))
	if rng.IntN(12) == 0 {
		port = 0
	}
	if v6 {
		var b [16]byte
		switch rng.IntN(8) {
		case 0: // inside the node's own overlay network
			b = netip.MustParseAddr("fd00:128::").As16()
		case 1:
			b = netip.MustParseAddr("2001:db8:1::").As16()
		default:
			b = netip.MustParseAddr("2001:db8:ff00::").As16()
			b[5] = byte(tag)
		}
		binary.BigEndian.PutUint32(b[12:], rng.Uint32())
		return netip.AddrPortFrom(netip.AddrFrom16(b), port)
	}
	var b [4]byte
	switch rng.IntN(8) {
	case 0:
		b = [4]byte{10, 128, byte(rng.IntN(256)), byte(rng.IntN(256))}
	case 1:
		b = [4]byte{100, 64, byte(rng.IntN(256)), byte(rng.IntN(256))}
	default:
		b = [4]byte{byte(11 + tag), byte(rng.IntN(256)), byte(rng.IntN(256)), byte(1 + rng.IntN(254))}
	}
	return netip.AddrPortFrom(netip.AddrFrom4(b), port)
}

// c35PickClaim chooses the overlay address a message talks about.
func c35PickClaim(rng *rand.Rand, idents []c35Ident, sender int) (netip.Addr, string) {
	switch rng.IntN(10) {
	case 0, 1, 2, 3:
		a := idents[sender].addrs
		i := rng.IntN(len(a))
		if i == 0 {
			return a[0], "own-primary"
		}
		return a[i], "own-secondary"
	case 4, 5, 6, 7:
		o := rng.IntN(len(idents))
		a := idents[o].addrs
		if o == sender {
			return a[0], "own-primary"
		}
		return a[rng.IntN(len(a))], "other-host"
	case 8:
		return c35OwnNets[0].Addr(), "the-node"
	default:
		if rng.IntN(2) == 0 {
			return netip.AddrFrom4([4]byte{10, 128, byte(rng.IntN(256)), byte(rng.IntN(256))}), "unknown"
		}
		return netip.MustParseAddr("fd00:128::abcd"), "unknown"
	}
}

func c35GenMsg(rng *rand.Rand, idents []c35Ident, sender int, amLH bool) (*c35Msg, string) {
	m := &c35Msg{}
	// message type: the four that matter most of the time, every other enum value and a few unknown ones
	switch k := rng.IntN(20); {
	case k < 5:
		m.typ = NebulaMeta_HostUpdateNotification
	case k < 9:
		m.typ = NebulaMeta_HostQuery
	case k < 13:
		m.typ = NebulaMeta_HostQueryReply
	case k < 17:
		m.typ = NebulaMeta_HostPunchNotification
	case k < 19:
		m.typ = NebulaMeta_MessageType(rng.IntN(11))
	default:
		m.typ = NebulaMeta_MessageType([]int32{11, 12, 99, 255, 1 << 20, -1}[rng.IntN(6)])
	}
	claim, rel := c35PickClaim(rng, idents, sender)
	d := &NebulaMetaDetails{}
	encs := []string{"v1", "v2", "v2", "hybrid", "blank"}
	m.enc = encs[rng.IntN(len(encs))]
	if m.enc == "v1" && !claim.Is4() {
		m.enc = "v2"
	}
	nrel := []int{0, 0, 1, 2, 3, 12}[rng.IntN(6)]
	relay := func() netip.Addr {
		id := idents[rng.IntN(len(idents))]
		return id.addrs[rng.IntN(len(id.addrs))]
	}
	switch m.enc {
	case "v1":
		d.OldVpnAddr = c35U32(claim)
		for i := 0; i < nrel; i++ {
			if a := relay(); a.Is4() {
				d.OldRelayVpnAddrs = append(d.OldRelayVpnAddrs, c35U32(a))
			}
		}
	case "v2":
		d.VpnAddr = netAddrToProtoAddr(claim)
		for i := 0; i < nrel; i++ {
			d.RelayVpnAddrs = append(d.RelayVpnAddrs, netAddrToProtoAddr(relay()))
		}
	case "hybrid":
		// both generations of fields present, possibly disagreeing
		c2, rel2 := c35PickClaim(rng, idents, sender)
		if claim.Is4() {
			d.OldVpnAddr = c35U32(claim)
			d.VpnAddr = netAddrToProtoAddr(c2)
			rel = rel + "+" + rel2
		} else {
			d.VpnAddr = netAddrToProtoAddr(claim)
			if c2.Is4() {
				d.OldVpnAddr = c35U32(c2)
				rel = rel2 + "+" + rel
			}
		}
		for i := 0; i < nrel; i++ {
			if a := relay(); a.Is4() && rng.IntN(2) == 0 {
				d.OldRelayVpnAddrs = append(d.OldRelayVpnAddrs, c35U32(a))
			} else {
				d.RelayVpnAddrs = append(d.RelayVpnAddrs, netAddrToProtoAddr(a))
			}
		}
	case "blank":
		rel = "none"
		for i := 0; i < nrel; i++ {
			d.RelayVpnAddrs = append(d.RelayVpnAddrs, netAddrToProtoAddr(relay()))
		}
	}
	n4 := []int{0, 1, 1, 2, 3, 5, 10, 11, 14}[rng.IntN(9)]
	n6 := []int{0, 0, 1, 2, 4, 10, 12}[rng.IntN(7)]
	for i := 0; i < n4; i++ {
		ap := c35RandUnderlay(rng, sender, false)
		d.V4AddrPorts = append(d.V4AddrPorts, &V4AddrPort{Addr: c35U32(ap.Addr()), Port: uint32(ap.Port())})
	}
	for i := 0; i < n6; i++ {
		ap := c35RandUnderlay(rng, sender, true)
		d.V6AddrPorts = append(d.V6AddrPorts, netAddrToProtoV6AddrPort(ap.Addr(), ap.Port()))
	}
	if rng.IntN(25) == 0 { // ports beyond 16 bit
		if len(d.V4AddrPorts) > 0 {
			d.V4AddrPorts[0].Port = 70000 + uint32(rng.IntN(1000))
		}
	}
	meta := &NebulaMeta{Type: m.typ, Details: d}
	if rng.IntN(30) == 0 {
		meta.Details = nil
		m.enc = "nodetails"
		rel = "none"
	}
	b, err := meta.Marshal()
	if err != nil {
		panic(err)
	}
	// hostile bytes: truncations, flips, trailing data
	switch rng.IntN(40) {
	case 0:
		if len(b) > 1 {
			b = b[:rng.IntN(len(b))]
			m.enc += "+truncated"
		}
	case 1:
		if len(b) > 0 {
			b = slices.Clone(b)
			b[rng.IntN(len(b))] ^= byte(1 << rng.IntN(8))
			m.enc += "+bitflip"
		}
	case 2:
		b = append(slices.Clone(b), byte(rng.IntN(256)), byte(rng.IntN(256)))
		m.enc += "+trailing"
	}
	m.bytes = b
	c35Decode(m)
	return m, rel
}

// c35Decode fills the oracle's view of the message from a fresh decode of the bytes.
func c35Decode(m *c35Msg) {
	m.addrs, m.relays = map[netip.AddrPort]bool{}, map[netip.Addr]bool{}
	fresh := &NebulaMeta{}
	if err := fresh.Unmarshal(m.bytes); err != nil {
		m.ok = false
		return
	}
	m.ok = true
	m.typ = fresh.Type
	d := fresh.Details
	if d == nil {
		return
	}
	if d.OldVpnAddr != 0 {
		var b [4]byte
		binary.BigEndian.PutUint32(b[:], d.OldVpnAddr)
		m.claims = append(m.claims, netip.AddrFrom4(b))
	}
	if d.VpnAddr != nil {
		var b [16]byte
		binary.BigEndian.PutUint64(b[:8], d.VpnAddr.Hi)
		binary.BigEndian.PutUint64(b[8:], d.VpnAddr.Lo)
		m.claims = append(m.claims, netip.AddrFrom16(b).Unmap())
	}
	for _, a := range d.V4AddrPorts {
		if a == nil {
			continue
		}
		var b [4]byte
		binary.BigEndian.PutUint32(b[:], a.Addr)
		m.addrs[netip.AddrPortFrom(netip.AddrFrom4(b), uint16(a.Port))] = true
	}
	for _, a := range d.V6AddrPorts {
		if a == nil {
			continue
		}
		var b [16]byte
		binary.BigEndian.PutUint64(b[:8], a.Hi)
		binary.BigEndian.PutUint64(b[8:], a.Lo)
		m.addrs[netip.AddrPortFrom(netip.AddrFrom16(b).Unmap(), uint16(a.Port))] = true
	}
	for _, r := range d.OldRelayVpnAddrs {
		var b [4]byte
		binary.BigEndian.PutUint32(b[:], r)
		m.relays[netip.AddrFrom4(b)] = true
	}
	for _, r := range d.RelayVpnAddrs {
		if r == nil {
			continue
		}
		var b [16]byte
		binary.BigEndian.PutUint64(b[:8], r.Hi)
		binary.BigEndian.PutUint64(b[8:], r.Lo)
		m.relays[netip.AddrFrom16(b).Unmap()] = true
	}
}

// ---------------------------------------------------------------------------------------------
// snapshots of the address map

type c35Entry struct {
	ptr    *RemoteList
	owners map[string]string // owner -> canonical text
	cache  CacheMap
}

func c35Snapshot(lh *LightHouse) map[netip.Addr]*c35Entry {
	lh.RLock()
	defer lh.RUnlock()
	out := make(map[netip.Addr]*c35Entry, len(lh.addrMap))
	seen := map[*RemoteList]*c35Entry{}
	for k, rl := range lh.addrMap {
		if e, ok := seen[rl]; ok {
			out[k] = e
			continue
		}
		e := &c35Entry{ptr: rl, owners: map[string]string{}}
		if rl != nil {
			e.cache = *rl.CopyCache()
			for o, c := range e.cache {
				e.owners[o] = fmt.Sprintf("L%v R%v Y%v", c.Learned, c.Reported, c.Relay)
			}
		}
		seen[rl] = e
		out[k] = e
	}
	return out
}

func c35EntryEqual(a, b *c35Entry) bool {
	if a.ptr != b.ptr || len(a.owners) != len(b.owners) {
		return false
	}
	for o, s := range a.owners {
		if t, ok := b.owners[o]; !ok || s != t {
			return false
		}
	}
	return true
}

// c35Delta is what one message changed: keys whose mapping changed (appeared, disappeared, now point
// to another list object) and list objects whose content changed (new objects count as changed
// against an empty list).
type c35Delta struct {
	keys  []netip.Addr
	lists []*c35Entry // after-state of lists with changed content
}

func c35Diff(before, after map[netip.Addr]*c35Entry) c35Delta {
	var d c35Delta
	prev := map[*RemoteList]*c35Entry{}
	for _, e := range before {
		prev[e.ptr] = e
	}
	for k, a := range after {
		if b, ok := before[k]; !ok || a.ptr != b.ptr {
			d.keys = append(d.keys, k)
		}
	}
	for k := range before {
		if _, ok := after[k]; !ok {
			d.keys = append(d.keys, k)
		}
	}
	slices.SortFunc(d.keys, func(a, b netip.Addr) int { return a.Compare(b) })
	seen := map[*RemoteList]bool{}
	for _, a := range after {
		if seen[a.ptr] {
			continue
		}
		seen[a.ptr] = true
		b, ok := prev[a.ptr]
		if !ok {
			if len(a.owners) > 0 {
				d.lists = append(d.lists, a)
			}
			continue
		}
		if !c35EntryEqual(a, b) {
			d.lists = append(d.lists, a)
		}
	}
	return d
}

// c35KeysOf returns the keys that point to list object p.
func c35KeysOf(m map[netip.Addr]*c35Entry, p *RemoteList) []netip.Addr {
	var out []netip.Addr
	for k, e := range m {
		if e.ptr == p {
			out = append(out, k)
		}
	}
	slices.SortFunc(out, func(a, b netip.Addr) int { return a.Compare(b) })
	return out
}

// ---------------------------------------------------------------------------------------------
// the monitor

type c35Rec struct {
	addrs  map[netip.AddrPort]bool
	relays map[netip.Addr]bool
}

type c35Step struct {
	Sender  string   `json:"sender"`
	From    []string `json:"from_vpn_addrs"`
	Type    string   `json:"type"`
	Enc     string   `json:"encoding"`
	Bytes   string   `json:"bytes_hex"`
	Learn   string   `json:"learn,omitempty"`
	Changed []string `json:"changed_keys,omitempty"`
}

func c35Strs[T fmt.Stringer](in []T) []string {
	out := make([]string, len(in))
	for i, v := range in {
		out[i] = v.String()
	}
	return out
}

func c35Intersects(a, b []netip.Addr) bool {
	for _, x := range a {
		if slices.Contains(b, x) {
			return true
		}
	}
	return false
}

func c35SubsetOf(a, b []netip.Addr) bool {
	for _, x := range a {
		if !slices.Contains(b, x) {
			return false
		}
	}
	return true
}

func TestVerifC35Handler(t *testing.T) {
	r := verifkit.NewReporter(t, "C35", "handler",
		"case = one lighthouse message handled by LightHouseHandler.HandleRequest inside a history of messages on one real LightHouse (classes: lighthouse, lighthouse with upstream lighthouse, client, client without lighthouses; random remote allow list, punchy settings, static hosts, established hostinfos); senders = configured lighthouses (single and multi-address), ordinary peers, multi-address peers; every message type incl. unknown values, v1 / v2 / hybrid / blank / missing-details encodings, truncated and bit-flipped bytes, claimed address = own primary / own secondary / other host / the node / unknown; distinct = distinct (node class, type, encoding, sender class, claim relation, observed effect) classes plus distinct message bytes x sender")
	defer r.Done()
	idents := c35Idents()
	histories := verifkit.Scale(2500, 250_000)
	steps := 40
	for h := 0; h < histories; h++ {
		if !verifkit.Mine(h) {
			continue
		}
		rng := verifkit.SubRand("C35hist", h)
		synctest.Test(t, func(t *testing.T) {
			c35History(t, r, rng, idents, h, steps)
		})
		if r.NViolations() > 12 {
			break
		}
	}
	r.Info("histories", histories)
	r.Info("steps_per_history", steps)
}

func c35History(t *testing.T, r *verifkit.Reporter, rng *rand.Rand, idents []c35Ident, h, steps int) {
	ctx, cancel := context.WithCancel(context.Background())
	defer func() {
		cancel()
		synctest.Wait()
	}()
	n, err := c35BuildNode(ctx, rng, idents)
	if err != nil {
		r.Inconclusive(fmt.Sprintf("history %d: cannot build lighthouse: %v", h, err))
		return
	}
	identOf := map[netip.Addr]int{}
	for i, id := range idents {
		for _, a := range id.addrs {
			identOf[a] = i
		}
	}
	rec := make([]*c35Rec, len(idents)) // what each identity itself reported / was seen at (lighthouse role)
	for i := range rec {
		rec[i] = &c35Rec{addrs: map[netip.AddrPort]bool{}, relays: map[netip.Addr]bool{}}
	}
	var hist []c35Step
	replay := func() any {
		return map[string]any{"history": h, "node_class": n.class, "settings": n.settings, "lighthouses": c35Strs(n.lighthouses),
			"cert_initiating_version": int(n.enc.cs.initiatingVersion), "steps": slices.Clone(hist)}
	}
	if h < 2 {
		r.Sample(map[string]any{"history": h, "node_class": n.class, "settings": n.settings})
	}

	for s := 0; s < steps; s++ {
		si := rng.IntN(len(idents))
		if n.class == "client" && rng.IntN(3) == 0 {
			si = rng.IntN(2) // more traffic from the lighthouses
		}
		sender := idents[si]
		F := sender.addrs

		// now and then the tunnel of the sender is (re)established: the node learns where it came from
		if rng.IntN(8) == 0 {
			u := c35RandUnderlay(rng, si, rng.IntN(3) == 0)
			if u.Port() != 0 {
				n.lh.QueryCache(F).LearnRemote(F[0], u)
				rec[si].addrs[u] = true
				hist = append(hist, c35Step{Sender: sender.name, Learn: u.String()})
			}
		}

		m, claimRel := c35GenMsg(rng, idents, si, n.amLH)
		rAddr := c35RandUnderlay(rng, si, false)
		step := c35Step{Sender: sender.name, From: c35Strs(F), Type: fmt.Sprint(int32(m.typ)), Enc: m.enc, Bytes: verifkit.Hex(m.bytes)}
		hist = append(hist, step)
		r.Pre("C35 history=%d step=%d class=%s sender=%s bytes=%x", h, s, n.class, sender.name, m.bytes)

		before := c35Snapshot(n.lh)
		n.enc.take()
		n.conn.take()
		if r.Guard("C35/panic", replay, func() { n.lhh.HandleRequest(rAddr, slices.Clone(F), slices.Clone(m.bytes), n.enc) }) {
			return
		}
		time.Sleep(10 * time.Second) // virtual: every scheduled punch / test packet is due by now
		synctest.Wait()
		after := c35Snapshot(n.lh)
		sent := n.enc.take()
		writes := n.conn.take()
		var triggers []netip.Addr
	drain:
		for {
			select {
			case a := <-n.trigger:
				triggers = append(triggers, a)
			default:
				break drain
			}
		}
		delta := c35Diff(before, after)
		changed := slices.Clone(delta.keys)
		for _, e := range delta.lists {
			changed = append(changed, c35KeysOf(after, e.ptr)...)
		}
		hist[len(hist)-1].Changed = c35Strs(changed)
		r.Eval(1)

		isLHSender := n.isLH(F)
		senderClass := "peer"
		if len(F) > 1 {
			senderClass = "multi-peer"
		}
		if isLHSender {
			senderClass = "lighthouse"
			if len(F) > 1 {
				senderClass = "multi-lighthouse"
				if !slices.Contains(n.lighthouses, F[0]) {
					senderClass = "multi-lighthouse-secondary"
				}
			}
		}

		// ---- what the statement permits for this message --------------------------------------
		var mayChange []netip.Addr // keys of the address map that may change
		var mayReplyTo []netip.Addr
		var mayPunchReqTo []netip.Addr
		mayAckTo := []netip.Addr(nil)
		mayPunch := false
		typName := "other"
		if m.ok {
			switch m.typ {
			case NebulaMeta_HostUpdateNotification:
				typName = "update"
				if n.amLH && (len(m.claims) == 0 || c35Intersects(m.claims, F)) {
					mayChange = F
					mayAckTo = F
				}
			case NebulaMeta_HostQuery:
				typName = "query"
				if n.amLH && len(m.claims) > 0 {
					mayReplyTo = F
					mayPunchReqTo = m.claims
				}
			case NebulaMeta_HostQueryReply:
				typName = "reply"
				if isLHSender && len(m.claims) > 0 {
					if !n.amLH {
						mayChange = m.claims
					} else {
						// a lighthouse records for A only from a tunnel authenticated as A
						for _, c := range m.claims {
							if slices.Contains(F, c) {
								mayChange = append(mayChange, c)
							}
						}
					}
				}
			case NebulaMeta_HostPunchNotification:
				typName = "punch"
				mayPunch = isLHSender && len(m.claims) > 0
			}
		} else {
			typName = "undecodable"
		}

		// ---- address map --------------------------------------------------------------------
		unauthorized := func(k netip.Addr, how string) {
			key, what := "C35/state-changed-by-other-message", fmt.Sprintf("%s node: address map entry %s %s while handling a %s message (type %d) from %v", n.class, k, how, typName, int32(m.typ), F)
			switch typName {
			case "update":
				if !n.amLH {
					key = "C35/non-lighthouse-accepted-host-update"
				} else {
					key = "C35/update-recorded-for-unauthenticated-address"
				}
				what = fmt.Sprintf("%s node: host update from tunnel authenticated as %v (claims %v): entry for %s %s", n.class, F, m.claims, k, how)
			case "reply":
				switch {
				case !isLHSender:
					key = "C35/reply-accepted-from-non-lighthouse"
				case n.amLH:
					key = "C35/lighthouse-records-from-upstream-reply"
				default:
					key = "C35/reply-changed-unrelated-address"
				}
				what = fmt.Sprintf("%s node: query reply about %v from tunnel authenticated as %v (configured lighthouses %v): entry for %s %s", n.class, m.claims, F, n.lighthouses, k, how)
			}
			r.Violation(key, what, replay())
		}
		for _, k := range delta.keys {
			if !slices.Contains(mayChange, k) {
				unauthorized(k, "appeared, disappeared or was pointed at another list")
			}
		}
		prevByPtr := map[*RemoteList]*c35Entry{}
		for _, e := range before {
			prevByPtr[e.ptr] = e
		}
		for _, a := range delta.lists {
			keys := c35KeysOf(after, a.ptr)
			if !c35Intersects(keys, mayChange) {
				unauthorized(keys[0], "changed content")
				continue
			}
			// what was recorded must come from this message and be attributed to the sender
			b := prevByPtr[a.ptr]
			for o, txt := range a.owners {
				if b != nil && b.owners[o] == txt {
					continue
				}
				oa, _ := netip.ParseAddr(o)
				if !slices.Contains(F, oa) {
					r.Violation("C35/recorded-under-foreign-owner", fmt.Sprintf("%s node: %s from %v changed what owner %s says about %v", n.class, typName, F, o, keys), replay())
					continue
				}
				c := a.cache[o]
				var prevLearned []netip.AddrPort
				if b != nil && b.cache[o] != nil {
					prevLearned = b.cache[o].Learned
				}
				if !slices.Equal(c.Learned, prevLearned) && !(len(c.Learned) == 0 && len(prevLearned) == 0) {
					r.Violation("C35/message-changed-learned-address", fmt.Sprintf("%s node: %s from %v changed the learned address of %v", n.class, typName, F, keys), replay())
				}
				for _, ap := range c.Reported {
					if !m.addrs[ap] {
						r.Violation("C35/recorded-data-not-in-message", fmt.Sprintf("%s node: after %s from %v the entry for %v holds %s which the message does not contain", n.class, typName, F, keys, ap), replay())
						break
					}
				}
				for _, ra := range c.Relay {
					if !m.relays[ra] {
						r.Violation("C35/recorded-data-not-in-message", fmt.Sprintf("%s node: after %s from %v the entry for %v holds relay %s which the message does not contain", n.class, typName, F, keys, ra), replay())
						break
					}
				}
			}
			if b != nil {
				for o := range b.owners {
					if _, ok := a.owners[o]; !ok {
						r.Violation("C35/recorded-under-foreign-owner", fmt.Sprintf("%s node: %s from %v removed what owner %s said about %v", n.class, typName, F, o, keys), replay())
					}
				}
			}
		}
		// model of what each identity itself told a lighthouse (a host update, or on a lighthouse that
		// has an upstream lighthouse a reply in which that lighthouse talks about itself)
		if n.amLH && len(mayChange) > 0 && (typName == "update" || typName == "reply") {
			for ap := range m.addrs {
				rec[si].addrs[ap] = true
			}
			for ra := range m.relays {
				rec[si].relays[ra] = true
			}
		}

		// ---- messages sent --------------------------------------------------------------------
		nReply, nPunchReq, nAck, nTest := 0, 0, 0, 0
		for _, sm := range sent {
			if sm.Kind != "vpn" {
				r.Violation("C35/unexpected-message", fmt.Sprintf("%s node: %s call while handling %s from %v", n.class, sm.Kind, typName, F), replay())
				continue
			}
			if sm.T == header.Test {
				nTest++
				if !mayPunch {
					key := "C35/unexpected-message"
					if typName == "punch" {
						key = "C35/punch-accepted-from-non-lighthouse"
					}
					r.Violation(key, fmt.Sprintf("%s node: test packet to %s after %s from %v (lighthouses %v)", n.class, sm.To, typName, F, n.lighthouses), replay())
				} else if !slices.Contains(m.claims, sm.To) {
					r.Violation("C35/punch-target-not-in-message", fmt.Sprintf("%s node: test packet to %s, punch request was about %v", n.class, sm.To, m.claims), replay())
				}
				continue
			}
			out := &c35Msg{bytes: sm.P}
			c35Decode(out)
			if sm.T != header.LightHouse || !out.ok {
				r.Violation("C35/unexpected-message", fmt.Sprintf("%s node: sent type %d/%d to %s while handling %s", n.class, sm.T, sm.ST, sm.To, typName), replay())
				continue
			}
			if !n.amLH {
				key := "C35/non-lighthouse-sent-lighthouse-message"
				if typName == "query" {
					key = "C35/non-lighthouse-answered-query"
				}
				r.Violation(key, fmt.Sprintf("%s node: sent lighthouse message type %d to %s while handling %s from %v", n.class, int32(out.typ), sm.To, typName, F), replay())
				continue
			}
			switch out.typ {
			case NebulaMeta_HostQueryReply:
				nReply++
				if !slices.Contains(mayReplyTo, sm.To) {
					r.Violation("C35/answer-to-wrong-host", fmt.Sprintf("lighthouse: query reply sent to %s while handling %s from %v", sm.To, typName, F), replay())
					break
				}
				if !c35SubsetOf(out.claims, m.claims) || len(out.claims) == 0 {
					r.Violation("C35/answer-about-other-address", fmt.Sprintf("lighthouse: asked about %v, answered about %v", m.claims, out.claims), replay())
					break
				}
				var src *c35Rec
				if id, ok := identOf[out.claims[0]]; ok {
					src = rec[id]
				}
				for ap := range out.addrs {
					if src == nil || !src.addrs[ap] {
						r.Violation("C35/answer-contains-foreign-data", fmt.Sprintf("lighthouse: answer about %v contains %s which no tunnel authenticated as that address reported", out.claims, ap), replay())
						break
					}
				}
				for ra := range out.relays {
					if src == nil || !src.relays[ra] {
						r.Violation("C35/answer-contains-foreign-data", fmt.Sprintf("lighthouse: answer about %v contains relay %s which no tunnel authenticated as that address reported", out.claims, ra), replay())
						break
					}
				}
			case NebulaMeta_HostPunchNotification:
				nPunchReq++
				if !slices.Contains(mayPunchReqTo, sm.To) {
					r.Violation("C35/unexpected-message", fmt.Sprintf("lighthouse: punch request sent to %s while handling %s about %v", sm.To, typName, m.claims), replay())
					break
				}
				if !c35SubsetOf(out.claims, F) || len(out.claims) == 0 {
					r.Violation("C35/punch-request-about-other-address", fmt.Sprintf("lighthouse: query from %v produced a punch request about %v", F, out.claims), replay())
					break
				}
				for ap := range out.addrs {
					if !rec[si].addrs[ap] {
						r.Violation("C35/answer-contains-foreign-data", fmt.Sprintf("lighthouse: punch request about %v contains %s which that tunnel never reported", F, ap), replay())
						break
					}
				}
				for ra := range out.relays {
					if !rec[si].relays[ra] {
						r.Violation("C35/answer-contains-foreign-data", fmt.Sprintf("lighthouse: punch request about %v contains relay %s which that tunnel never reported", F, ra), replay())
						break
					}
				}
			case NebulaMeta_HostUpdateNotificationAck:
				nAck++
				if !slices.Contains(mayAckTo, sm.To) {
					r.Violation("C35/unexpected-message", fmt.Sprintf("lighthouse: update ack sent to %s while handling %s from %v (claims %v)", sm.To, typName, F, m.claims), replay())
				}
			default:
				r.Violation("C35/unexpected-message", fmt.Sprintf("lighthouse: sent lighthouse message type %d to %s while handling %s", int32(out.typ), sm.To, typName), replay())
			}
		}
		if nReply > 1 || nPunchReq > 1 || nAck > 1 {
			r.Violation("C35/unexpected-message", fmt.Sprintf("more than one answer of a kind (%d replies, %d punch requests, %d acks) to one %s", nReply, nPunchReq, nAck, typName), replay())
		}

		// ---- punches ----------------------------------------------------------------------------
		for _, w := range writes {
			if !mayPunch {
				key := "C35/unexpected-udp-write"
				if typName == "punch" {
					key = "C35/punch-accepted-from-non-lighthouse"
				}
				r.Violation(key, fmt.Sprintf("%s node: udp write to %s after %s from %v (lighthouses %v)", n.class, w.To, typName, F, n.lighthouses), replay())
				break
			}
			if !m.addrs[w.To] {
				r.Violation("C35/punch-target-not-in-message", fmt.Sprintf("%s node: punched %s which the punch request does not contain", n.class, w.To), replay())
				break
			}
		}
		for _, a := range triggers {
			if !slices.Contains(mayChange, a) || typName != "reply" {
				if typName == "reply" && n.amLH && isLHSender {
					continue // same witness class as C35/lighthouse-records-from-upstream-reply, reported there
				}
				r.Violation("C35/handshake-triggered-by-unauthorized-message", fmt.Sprintf("%s node: handshake trigger for %s after %s from %v", n.class, a, typName, F), replay())
			}
		}

		// ---- evidence ---------------------------------------------------------------------------
		effect := []string{}
		if len(changed) > 0 {
			effect = append(effect, "map")
		}
		if nReply > 0 {
			effect = append(effect, "reply")
		}
		if nPunchReq > 0 {
			effect = append(effect, "punchreq")
		}
		if nAck > 0 {
			effect = append(effect, "ack")
		}
		if len(writes) > 0 {
			effect = append(effect, "punched")
		}
		if nTest > 0 {
			effect = append(effect, "test")
		}
		if len(effect) == 0 {
			effect = append(effect, "ignored")
		}
		sort.Strings(effect)
		encClass := m.enc
		if !m.ok {
			encClass = "undecodable"
		}
		tn := typName
		if tn == "other" {
			tn = fmt.Sprintf("other(%d)", int32(m.typ))
			if int32(m.typ) > 10 || int32(m.typ) < 0 {
				tn = "other(unknown)"
			}
		}
		r.DistinctClass(fmt.Sprintf("%s|%s|%s|%s|claim=%s|%s", n.class, tn, encClass, senderClass, claimRel, strings.Join(effect, "+")))
		r.Distinct(sender.name + string(m.bytes))
		authorized := len(mayChange) > 0 || len(mayReplyTo) > 0 || mayPunch
		switch typName {
		case "update":
			if len(changed) > 0 || nAck > 0 {
				r.Count("update_recorded", 1)
			} else if authorized {
				r.Count("update_authorized_noop", 1)
			} else {
				r.Count("update_refused", 1)
			}
		case "reply":
			if len(changed) > 0 || len(triggers) > 0 {
				r.Count("reply_accepted", 1)
			} else if authorized {
				r.Count("reply_authorized_noop", 1)
			} else {
				r.Count("reply_refused", 1)
			}
		case "query":
			if nReply > 0 {
				r.Count("query_answered", 1)
				if nPunchReq > 0 {
					r.Count("query_punch_request_sent", 1)
				}
			} else if authorized {
				r.Count("query_unknown_host", 1)
			} else {
				r.Count("query_refused", 1)
			}
		case "punch":
			if len(writes) > 0 || nTest > 0 {
				r.Count("punch_performed", 1)
				r.Count("punch_udp_writes", len(writes))
				r.Count("punch_test_packets", nTest)
			} else if authorized {
				r.Count("punch_authorized_noop", 1)
			} else {
				r.Count("punch_refused", 1)
			}
		case "undecodable":
			r.Count("undecodable", 1)
		default:
			r.Count("other_type", 1)
		}
		if r.NViolations() > 12 {
			return
		}
	}
}
