package nebula

// C28 — hostmap indexes stay consistent.
//
// The real HostMap is driven with generated operation histories (add through unlockedAddHostInfo,
// HandshakeManager.CheckAndComplete and HandshakeManager.Complete; DeleteHostInfo of live and of
// already removed tunnels; MakePrimary of live and removed tunnels; relay_manager.AddRelay on live
// and removed tunnels) over a handful of peers whose tunnels carry overlapping and divergent
// address sets, with far more than five tunnels per address. After every operation the complete
// state (Hosts, moreHosts, Indexes, RemoteIndexes, Relays) is walked.
//
// Oracles, from the property statement:
//   - Hosts[a] heads the list of a; the list holds at most five distinct tunnels, all live, all
//     owning a; every value in Indexes / RemoteIndexes / Relays is live and filed under its own id;
//   - a removed tunnel is referenced nowhere, also after later promotions / relay allocations on it;
//   - DeleteHostInfo returns true exactly when no other live tunnel holds any of its addresses;
//   - a live tunnel stays reachable: it is in Indexes under its local index, in the list of each
//     of its addresses, and each relay index it was given points to it.
//
// The sequential model (plain maps and slices) additionally predicts the list order
// (most recent first, promotion moves to the front, the oldest is retired beyond five) so that
// evictions can be followed; a disagreement on order alone has its own key.

import (
	"errors"
	"fmt"
	"log/slog"
	"math/rand/v2"
	"net/netip"
	"slices"
	"sort"
	"testing"
	"testing/cryptotest"

	"github.com/slackhq/nebula/verifkit"
)

type c28Model struct {
	lists   map[netip.Addr][]*HostInfo
	live    map[*HostInfo]bool
	removed map[*HostInfo]bool
	idx     map[uint32]*HostInfo
	relays  map[uint32]*HostInfo
	ridx    map[uint32]*HostInfo // remote index -> the most recently added live tunnel that carries it (peers choose these, they collide)
	name    map[*HostInfo]string
	order   []*HostInfo // every tunnel ever added, in order
}

func newC28Model() *c28Model {
	return &c28Model{lists: map[netip.Addr][]*HostInfo{}, live: map[*HostInfo]bool{}, removed: map[*HostInfo]bool{},
		idx: map[uint32]*HostInfo{}, relays: map[uint32]*HostInfo{}, ridx: map[uint32]*HostInfo{}, name: map[*HostInfo]string{}}
}

func c28Without(list []*HostInfo, h *HostInfo) []*HostInfo {
	out := make([]*HostInfo, 0, len(list))
	for _, x := range list {
		if x != h {
			out = append(out, x)
		}
	}
	return out
}

func (m *c28Model) remove(h *HostInfo) {
	if !m.live[h] {
		return
	}
	delete(m.live, h)
	m.removed[h] = true
	for _, a := range h.vpnAddrs {
		l := c28Without(m.lists[a], h)
		if len(l) == 0 {
			delete(m.lists, a)
		} else {
			m.lists[a] = l
		}
	}
	if m.idx[h.localIndexId] == h {
		delete(m.idx, h.localIndexId)
	}
	if m.ridx[h.remoteIndexId] == h {
		delete(m.ridx, h.remoteIndexId)
	}
	for k, v := range m.relays {
		if v == h {
			delete(m.relays, k)
		}
	}
}

// add returns the tunnels retired because an address exceeded five.
func (m *c28Model) add(h *HostInfo) (evicted []*HostInfo) {
	m.live[h] = true
	for _, a := range h.vpnAddrs {
		l := append([]*HostInfo{h}, c28Without(m.lists[a], h)...)
		m.lists[a] = l
		if len(l) > MaxHostInfosPerVpnIp {
			old := l[len(l)-1]
			evicted = append(evicted, old)
			m.remove(old)
		}
	}
	m.idx[h.localIndexId] = h
	m.ridx[h.remoteIndexId] = h
	return evicted
}

func (m *c28Model) promote(h *HostInfo) {
	if !m.live[h] {
		return
	}
	for _, a := range h.vpnAddrs {
		m.lists[a] = append([]*HostInfo{h}, c28Without(m.lists[a], h)...)
	}
}

// final is the statement's "no tunnel to the peer remains": no other live tunnel holds any of h's addresses.
func (m *c28Model) final(h *HostInfo) bool {
	for o := range m.live {
		if o == h {
			continue
		}
		for _, a := range h.vpnAddrs {
			if slices.Contains(o.vpnAddrs, a) {
				return false
			}
		}
	}
	return true
}

func (m *c28Model) names(l []*HostInfo) []string {
	out := make([]string, len(l))
	for i, h := range l {
		out[i] = m.nm(h)
	}
	return out
}

func (m *c28Model) nm(h *HostInfo) string {
	if h == nil {
		return "nil"
	}
	if n, ok := m.name[h]; ok {
		return n
	}
	return fmt.Sprintf("unknown(%p)", h)
}

type c28Run struct {
	r    *verifkit.Reporter
	hm   *HostMap
	m    *c28Model
	ops  []string
	stop bool
	hist int
}

func (c *c28Run) replay(extra map[string]any) any {
	rec := map[string]any{"history": c.hist, "ops": slices.Clone(c.ops), "hostmap": c.dump(),
		"note": "hN = N-th tunnel added in this history; replay by re-running the history with this seed"}
	for k, v := range extra {
		rec[k] = v
	}
	return rec
}

func (c *c28Run) dump() map[string]any {
	hosts := map[string][]string{}
	for a := range c.hm.Hosts {
		hosts[a.String()] = c.m.names(c.hm.unlockedGetHostList(a))
	}
	idx := map[string]string{}
	for k, v := range c.hm.Indexes {
		idx[fmt.Sprint(k)] = c.m.nm(v)
	}
	ridx := map[string]string{}
	for k, v := range c.hm.RemoteIndexes {
		ridx[fmt.Sprint(k)] = c.m.nm(v)
	}
	rel := map[string]string{}
	for k, v := range c.hm.Relays {
		rel[fmt.Sprint(k)] = c.m.nm(v)
	}
	model := map[string][]string{}
	for a, l := range c.m.lists {
		model[a.String()] = c.m.names(l)
	}
	return map[string]any{"Hosts(lists)": hosts, "Indexes": idx, "RemoteIndexes": ridx, "Relays": rel, "model_lists": model}
}

func (c *c28Run) bad(key, what string, extra map[string]any) {
	c.r.Violation(key, what, c.replay(extra))
	c.stop = true
}

// walk checks every invariant of the statement on the complete real state, then the model.
func (c *c28Run) walk() {
	hm, m := c.hm, c.m
	hm.RLock()
	defer hm.RUnlock()
	for a, head := range hm.Hosts {
		if head == nil {
			c.bad("C28/nil-primary", fmt.Sprintf("Hosts[%s] is nil", a), nil)
			return
		}
		list := []*HostInfo{head}
		if l, ok := hm.moreHosts[a]; ok {
			list = l
			if len(l) == 0 || l[0] != head {
				c.bad("C28/primary-not-head", fmt.Sprintf("Hosts[%s]=%s is not the head of its list %v", a, m.nm(head), m.names(l)), nil)
				return
			}
		}
		if len(list) > MaxHostInfosPerVpnIp {
			c.bad("C28/list-too-long", fmt.Sprintf("address %s has %d tunnels: %v", a, len(list), m.names(list)), nil)
			return
		}
		for i, h := range list {
			if h == nil {
				c.bad("C28/nil-in-list", fmt.Sprintf("list of %s has a nil member at %d", a, i), nil)
				return
			}
			if slices.Index(list, h) != i {
				c.bad("C28/duplicate-in-list", fmt.Sprintf("list of %s holds %s twice: %v", a, m.nm(h), m.names(list)), nil)
				return
			}
			if !m.live[h] {
				c.bad("C28/removed-tunnel-in-hosts", fmt.Sprintf("list of %s holds %s which is not live (removed=%v): %v", a, m.nm(h), m.removed[h], m.names(list)), nil)
				return
			}
			if !slices.Contains(h.vpnAddrs, a) {
				c.bad("C28/member-does-not-own-address", fmt.Sprintf("list of %s holds %s whose addresses are %v", a, m.nm(h), h.vpnAddrs), nil)
				return
			}
		}
	}
	for a, l := range hm.moreHosts {
		if _, ok := hm.Hosts[a]; !ok {
			c.bad("C28/list-without-primary", fmt.Sprintf("moreHosts[%s]=%v but Hosts has no entry", a, m.names(l)), nil)
			return
		}
	}
	for k, h := range hm.Indexes {
		if h == nil || !m.live[h] {
			c.bad("C28/removed-tunnel-in-indexes", fmt.Sprintf("Indexes[%d]=%s which is not live", k, m.nm(h)), nil)
			return
		}
		if h.localIndexId != k {
			c.bad("C28/index-key-mismatch", fmt.Sprintf("Indexes[%d]=%s whose local index is %d", k, m.nm(h), h.localIndexId), nil)
			return
		}
	}
	for k, h := range hm.RemoteIndexes {
		if h == nil || !m.live[h] {
			c.bad("C28/removed-tunnel-in-remote-indexes", fmt.Sprintf("RemoteIndexes[%d]=%s which is not live", k, m.nm(h)), nil)
			return
		}
		if h.remoteIndexId != k {
			c.bad("C28/remote-index-key-mismatch", fmt.Sprintf("RemoteIndexes[%d]=%s whose remote index is %d", k, m.nm(h), h.remoteIndexId), nil)
			return
		}
	}
	for k, h := range hm.Relays {
		if h == nil || !m.live[h] {
			c.bad("C28/removed-tunnel-in-relays", fmt.Sprintf("Relays[%d]=%s which is not live", k, m.nm(h)), nil)
			return
		}
		if _, ok := h.relayState.QueryRelayForByIdx(k); !ok {
			c.bad("C28/relay-index-not-owned", fmt.Sprintf("Relays[%d]=%s but that tunnel has no relay with this index", k, m.nm(h)), nil)
			return
		}
	}
	// live tunnels stay reachable
	for h := range m.live {
		if hm.Indexes[h.localIndexId] != h {
			c.bad("C28/live-tunnel-lost-from-indexes", fmt.Sprintf("live tunnel %s (local index %d) is not in Indexes (entry: %s)", m.nm(h), h.localIndexId, m.nm(hm.Indexes[h.localIndexId])), nil)
			return
		}
		for _, a := range h.vpnAddrs {
			if !slices.Contains(hm.unlockedGetHostList(a), h) {
				c.bad("C28/live-tunnel-lost-from-address", fmt.Sprintf("live tunnel %s is not in the list of its address %s: %v", m.nm(h), a, m.names(hm.unlockedGetHostList(a))), nil)
				return
			}
		}
	}
	for k, h := range m.relays {
		if hm.Relays[k] != h {
			c.bad("C28/live-relay-index-lost", fmt.Sprintf("relay index %d was allocated on live tunnel %s but Relays has %s", k, m.nm(h), m.nm(hm.Relays[k])), nil)
			return
		}
	}
	for k, h := range m.ridx {
		if hm.RemoteIndexes[k] != h {
			c.bad("C28/remote-indexes-differ-from-model", fmt.Sprintf("remote index %d was last claimed by live tunnel %s but RemoteIndexes has %s", k, m.nm(h), m.nm(hm.RemoteIndexes[k])), nil)
			return
		}
	}
	if len(hm.RemoteIndexes) != len(m.ridx) {
		c.bad("C28/remote-indexes-differ-from-model", fmt.Sprintf("RemoteIndexes has %d entries, model %d", len(hm.RemoteIndexes), len(m.ridx)), nil)
		return
	}
	if len(hm.Relays) != len(m.relays) || len(hm.Indexes) != len(m.idx) {
		c.bad("C28/index-maps-differ-from-model", fmt.Sprintf("Indexes has %d entries (model %d), Relays has %d (model %d)", len(hm.Indexes), len(m.idx), len(hm.Relays), len(m.relays)), nil)
		return
	}
	// order predicted by the model
	if len(hm.Hosts) != len(m.lists) {
		c.bad("C28/address-set-differs-from-model", fmt.Sprintf("Hosts has %d addresses, model %d", len(hm.Hosts), len(m.lists)), nil)
		return
	}
	for a, want := range m.lists {
		got := hm.unlockedGetHostList(a)
		if !slices.Equal(got, want) {
			gs, ws := slices.Clone(got), slices.Clone(want)
			sortHI := func(l []*HostInfo) {
				sort.Slice(l, func(i, j int) bool { return m.name[l[i]] < m.name[l[j]] })
			}
			sortHI(gs)
			sortHI(ws)
			key := "C28/list-order-differs-from-model"
			if !slices.Equal(gs, ws) {
				key = "C28/list-members-differ-from-model"
			}
			c.bad(key, fmt.Sprintf("address %s: real list %v, model %v", a, m.names(got), m.names(want)), nil)
			return
		}
	}
}

func c28NewHostInfo(addrs []netip.Addr, local, remote uint32, hsTime uint64, initiator bool, pkt []byte) *HostInfo {
	return &HostInfo{
		vpnAddrs:          addrs,
		localIndexId:      local,
		remoteIndexId:     remote,
		lastHandshakeTime: hsTime,
		HandshakePacket:   map[uint8][]byte{handshakePacketStage0: pkt},
		ConnectionState:   &ConnectionState{initiator: initiator},
		relayState: RelayState{
			relayForByAddr: map[netip.Addr]*Relay{},
			relayForByIdx:  map[uint32]*Relay{},
		},
	}
}

var c28Pool = []netip.Addr{
	netip.MustParseAddr("10.0.0.1"), netip.MustParseAddr("10.0.0.2"), netip.MustParseAddr("10.0.0.3"),
	netip.MustParseAddr("fd00::1"), netip.MustParseAddr("fd00::2"), netip.MustParseAddr("10.0.1.9"), netip.MustParseAddr("fd00:1::9"),
}

func c28PickAddrs(rng *rand.Rand, peers [][]netip.Addr) ([]netip.Addr, int) {
	p := rng.IntN(len(peers))
	base := peers[p]
	var out []netip.Addr
	switch rng.IntN(6) {
	case 0, 1, 2:
		out = slices.Clone(base)
	case 3: // the peer comes back with a subset of its addresses
		out = slices.Clone(base[:1+rng.IntN(len(base))])
	case 4: // ... with an extra address (divergent set)
		out = slices.Clone(base)
		x := c28Pool[rng.IntN(len(c28Pool))]
		if !slices.Contains(out, x) {
			out = append(out, x)
		}
	default: // ... in another order
		out = slices.Clone(base)
		rng.Shuffle(len(out), func(i, j int) { out[i], out[j] = out[j], out[i] })
	}
	return out, p
}

func TestVerifC28Hostmap(t *testing.T) {
	r := verifkit.NewReporter(t, "C28", "hostmap",
		"PRNG histories of add (unlockedAddHostInfo / CheckAndComplete / Complete), DeleteHostInfo (live, already removed, evicted), MakePrimary (live, removed), AddRelay (live, removed) over 3-5 peers drawing 1-3 addresses each from a pool of 7 (overlapping, divergent, reordered sets), address lists pushed far beyond five; full walk of all five maps against a maps/slices model after every op; one evaluation per op; distinct = (op, target state, result, list-length shape) signatures")
	defer r.Done()
	l := slog.New(slog.DiscardHandler)
	histories := verifkit.Scale(1200, 150000)
	for hi := 0; hi < histories; hi++ {
		if !verifkit.Mine(hi) {
			continue
		}
		rng := verifkit.SubRand("C28hostmap", hi)
		hm := newHostMap(l)
		pr := []netip.Prefix{}
		hm.preferredRanges.Store(&pr)
		hsm := NewHandshakeManager(l, hm, nil, nil, defaultHandshakeConfig)
		f := &Interface{hostMap: hm, handshakeManager: hsm, l: l}
		c := &c28Run{r: r, hm: hm, m: newC28Model(), hist: hi}
		r.Pre("C28 history %d", hi)

		// In a quarter of the histories a new tunnel may get the local index of a tunnel removed
		// earlier (the allocator only avoids indexes in use). In the others indexes are never reused,
		// so that everything else is explored without running into that witness class.
		reuse := hi%4 == 1
		npeers := 3 + rng.IntN(3)
		peers := make([][]netip.Addr, npeers)
		for p := range peers {
			n := 1 + rng.IntN(3)
			perm := rng.Perm(len(c28Pool))
			for i := 0; i < n; i++ {
				peers[p] = append(peers[p], c28Pool[perm[i]])
			}
		}
		usedIdx := map[uint32]bool{} // indexes carried by any tunnel ever created in this history
		nextIdx := uint32(1)
		hsClock := uint64(1000)
		steps := 60 + rng.IntN(300)
		pick := func(live bool) *HostInfo {
			var cand []*HostInfo
			for _, h := range c.m.order {
				if c.m.live[h] == live {
					cand = append(cand, h)
				}
			}
			if len(cand) == 0 {
				return nil
			}
			return cand[rng.IntN(len(cand))]
		}
		shape := func(h *HostInfo) string {
			s := ""
			for _, a := range h.vpnAddrs {
				s += fmt.Sprint(len(c.m.lists[a]))
			}
			return s
		}

		for s := 0; s < steps && !c.stop; s++ {
			x := rng.IntN(100)
			switch {
			case x < 45: // add
				addrs, p := c28PickAddrs(rng, peers)
				var local uint32
				if reuse && rng.IntN(2) == 0 {
					// any index not currently in use, small space -> frequent reuse of retired indexes
					for local = uint32(1 + rng.IntN(24)); c.m.idx[local] != nil; local = uint32(1 + rng.IntN(1<<16)) {
					}
				} else {
					for usedIdx[nextIdx] {
						nextIdx++
					}
					local = nextIdx + 1000
					for usedIdx[local] {
						local++
					}
				}
				via := rng.IntN(4)
				collide := false
				if via == 2 && rng.IntN(8) == 0 && len(c.m.idx) > 0 {
					// CheckAndComplete must refuse a local index that is in use
					if v := pick(true); v != nil {
						local, collide = v.localIndexId, true
					}
				}
				usedIdx[local] = true
				remote := uint32(1 + rng.IntN(12)) // remote indexes are chosen by peers and do collide
				hsClock += uint64(rng.IntN(3))
				hst := hsClock
				if rng.IntN(6) == 0 {
					hst = hsClock - uint64(rng.IntN(50))
				}
				pkt := []byte{byte(hi), byte(s), byte(s >> 8), byte(p), 1}
				if rng.IntN(10) == 0 {
					if v := pick(true); v != nil {
						pkt = v.HandshakePacket[handshakePacketStage0] // a delayed duplicate of an earlier handshake
					}
				}
				h := c28NewHostInfo(addrs, local, remote, hst, rng.IntN(2) == 0, pkt)
				name := fmt.Sprintf("h%d", len(c.m.order))
				c.m.name[h] = name
				pre := shape(h)
				var err error
				viaName := ""
				switch via {
				case 0, 1:
					viaName = "unlockedAddHostInfo"
					hm.Lock()
					hm.unlockedAddHostInfo(h, f)
					hm.Unlock()
				case 2:
					viaName = "CheckAndComplete"
					_, err = hsm.CheckAndComplete(h, handshakePacketStage0, f)
				default:
					viaName = "Complete"
					hsm.Complete(h, f)
				}
				c.ops = append(c.ops, fmt.Sprintf("%s = add via %s peer=%d addrs=%v local=%d remote=%d hsTime=%d -> err=%v", name, viaName, p, addrs, local, remote, hst, err))
				ev := 0
				if err == nil {
					if collide {
						c.bad("C28/add-overwrote-index-in-use", fmt.Sprintf("CheckAndComplete accepted %s with local index %d which belongs to a live tunnel", name, local), nil)
						break
					}
					c.m.order = append(c.m.order, h)
					ev = len(c.m.add(h))
					r.Count("adds", 1)
					r.Count("evictions", ev)
				} else {
					if !errors.Is(err, ErrAlreadySeen) && !errors.Is(err, ErrExistingHostInfo) && !errors.Is(err, ErrLocalIndexCollision) {
						c.bad("C28/unexpected-add-error", fmt.Sprintf("CheckAndComplete returned %v", err), nil)
						break
					}
					// refused: the hostmap must be untouched (the walk compares with the unchanged model).
					// A refused hostinfo never was a tunnel of this hostmap; it is not used again.
					r.Count("adds_refused", 1)
				}
				r.DistinctClass(fmt.Sprintf("add via=%s naddrs=%d err=%v evicted=%d reuse=%v", viaName, len(addrs), err, ev, reuse))
				r.Distinct(fmt.Sprintf("add/%s/%s/%d/%v", viaName, pre, ev, err))
			case x < 65: // delete a live tunnel
				h := pick(true)
				if h == nil {
					continue
				}
				want := c.m.final(h)
				pre := shape(h)
				got := hm.DeleteHostInfo(h)
				c.m.remove(h)
				c.ops = append(c.ops, fmt.Sprintf("delete %s -> final=%v", c.m.nm(h), got))
				r.Count("deletes", 1)
				if got != want {
					c.bad("C28/final-wrong-on-delete", fmt.Sprintf("DeleteHostInfo(%s) returned %v, but other live tunnels hold one of its addresses %v: %v", c.m.nm(h), got, h.vpnAddrs, !want), nil)
				}
				r.DistinctClass(fmt.Sprintf("delete live final=%v naddrs=%d", got, len(h.vpnAddrs)))
				r.Distinct("del/" + pre + fmt.Sprint(got))
			case x < 75: // delete again (or delete an evicted / refused tunnel)
				h := pick(false)
				if h == nil {
					continue
				}
				want := c.m.final(h)
				pre := shape(h)
				idxOwner := c.m.idx[h.localIndexId]
				got := hm.DeleteHostInfo(h)
				c.ops = append(c.ops, fmt.Sprintf("delete-again %s (local=%d) -> final=%v", c.m.nm(h), h.localIndexId, got))
				r.Count("double_deletes", 1)
				if idxOwner != nil {
					r.Count("double_deletes_index_reused", 1)
					if hm.Indexes[h.localIndexId] != idxOwner {
						c.bad("C28/double-delete-removes-reused-index", fmt.Sprintf("deleting the already removed %s again erased Indexes[%d], which belongs to the live tunnel %s (the index was re-allocated after the first delete)",
							c.m.nm(h), h.localIndexId, c.m.nm(idxOwner)), map[string]any{"victim": c.m.nm(idxOwner), "deleted_twice": c.m.nm(h)})
						break
					}
				}
				if got != want {
					c.bad("C28/final-wrong-on-double-delete", fmt.Sprintf("DeleteHostInfo(%s) (already removed) returned %v, but other live tunnels hold one of its addresses %v: %v", c.m.nm(h), got, h.vpnAddrs, !want), nil)
				}
				r.DistinctClass(fmt.Sprintf("delete removed final=%v index_reused=%v", got, idxOwner != nil))
				r.Distinct("deldel/" + pre + fmt.Sprint(got, idxOwner != nil))
			case x < 83: // promote a live tunnel
				h := pick(true)
				if h == nil {
					continue
				}
				pre := shape(h)
				wasPrimary := c.m.lists[h.vpnAddrs[0]][0] == h
				hm.MakePrimary(h)
				c.m.promote(h)
				c.ops = append(c.ops, fmt.Sprintf("make-primary %s", c.m.nm(h)))
				r.Count("promotions", 1)
				r.DistinctClass(fmt.Sprintf("promote live was_primary=%v", wasPrimary))
				r.Distinct("prom/" + pre + fmt.Sprint(wasPrimary))
			case x < 90: // promote a removed tunnel
				h := pick(false)
				if h == nil {
					continue
				}
				pre := shape(h)
				hm.MakePrimary(h)
				c.ops = append(c.ops, fmt.Sprintf("make-primary(removed) %s", c.m.nm(h)))
				r.Count("promotions_of_removed", 1)
				r.DistinctClass(fmt.Sprintf("promote removed index_reused=%v", c.m.idx[h.localIndexId] != nil))
				r.Distinct("promrm/" + pre)
			default: // AddRelay
				live := rng.IntN(4) != 0
				h := pick(live)
				if h == nil {
					continue
				}
				pre := shape(h)
				peer := c28Pool[rng.IntN(len(c28Pool))]
				typ := []int{TerminalType, ForwardingType}[rng.IntN(2)]
				st := []int{Requested, PeerRequested, Established}[rng.IntN(3)]
				var ridx *uint32
				if rng.IntN(2) == 0 {
					v := rng.Uint32()
					ridx = &v
				}
				if rng.IntN(3) == 0 {
					h.relayState.InsertRelayTo(c28Pool[rng.IntN(len(c28Pool))])
				}
				idx, err := AddRelay(l, h, hm, peer, ridx, typ, st)
				c.ops = append(c.ops, fmt.Sprintf("AddRelay on %s (live=%v) for %s -> idx=%d err=%v", c.m.nm(h), live, peer, idx, err))
				if live {
					r.Count("relays_added", 1)
					if err != nil {
						c.bad("C28/add-relay-failed-on-live", fmt.Sprintf("AddRelay on live tunnel %s failed: %v", c.m.nm(h), err), nil)
						break
					}
					c.m.relays[idx] = h
					c.m.promote(h)
				} else {
					r.Count("relays_on_removed", 1)
					if err == nil {
						c.bad("C28/relay-on-removed-tunnel", fmt.Sprintf("AddRelay on removed tunnel %s succeeded with index %d", c.m.nm(h), idx), nil)
						break
					}
				}
				r.DistinctClass(fmt.Sprintf("addrelay live=%v err=%v", live, err != nil))
				r.Distinct(fmt.Sprintf("relay/%s/%v", pre, live))
			}
			r.Eval(1)
			if !c.stop {
				c.walk()
			}
			if len(c.ops) > 0 && !c.stop {
				maxl := 0
				for _, l := range c.m.lists {
					maxl = max(maxl, len(l))
				}
				if maxl == MaxHostInfosPerVpnIp {
					r.Count("steps_with_a_full_list", 1)
				}
			}
		}
		// tear everything down: the last delete for each address group must report final
		if !c.stop {
			for _, h := range slices.Clone(c.m.order) {
				if !c.m.live[h] {
					continue
				}
				want := c.m.final(h)
				got := hm.DeleteHostInfo(h)
				c.m.remove(h)
				c.ops = append(c.ops, fmt.Sprintf("teardown delete %s -> final=%v", c.m.nm(h), got))
				r.Eval(1)
				if got != want {
					c.bad("C28/final-wrong-on-delete", fmt.Sprintf("DeleteHostInfo(%s) returned %v, model says %v", c.m.nm(h), got, want), nil)
					break
				}
				c.walk()
				if c.stop {
					break
				}
			}
			if !c.stop && (len(hm.Hosts)+len(hm.moreHosts)+len(hm.Indexes)+len(hm.RemoteIndexes)+len(hm.Relays) != 0) {
				c.bad("C28/residue-after-removing-everything", "maps not empty after every tunnel was removed", nil)
			}
		}
		r.Count("histories", 1)
		if r.WantSample() {
			r.Sample(map[string]any{"history": hi, "peers": fmt.Sprint(peers), "index_reuse": reuse, "first_ops": c.ops[:min(len(c.ops), 10)]})
		}
		if r.NViolations() > 8 {
			break
		}
	}
}

// TestVerifC28RelayIndexReuse drives the real AddRelay with a re-seeded process-wide random source
// (testing/cryptotest), so that the allocator hands out the same relay index twice: once to a
// tunnel that is then removed, once to a live tunnel. Removing the first tunnel again must not
// touch the live tunnel's relay index.
func TestVerifC28RelayIndexReuse(t *testing.T) {
	r := verifkit.NewReporter(t, "C28", "relayreuse",
		"scenarios with a re-seeded crypto/rand so that AddRelay re-allocates a relay index that a removed tunnel still remembers; variants: victim on the same / another address, one or several relays, removed tunnel deleted 1..3 times, promoted in between; distinct = variant tuples")
	defer r.Done()
	l := slog.New(slog.DiscardHandler)
	n := verifkit.Scale(60, 400)
	rng := verifkit.NewRand("C28relayreuse")
	for i := 0; i < n; i++ {
		sameAddr := rng.IntN(2) == 0
		nrel := 1 + rng.IntN(3)
		extraDeletes := rng.IntN(3) // 0 = control: the removed tunnel is not deleted again
		promote := rng.IntN(2) == 0
		seed := rng.Uint64()
		if !verifkit.Mine(i) {
			continue
		}
		hm := newHostMap(l)
		pr := []netip.Prefix{}
		hm.preferredRanges.Store(&pr)
		f := &Interface{hostMap: hm, l: l}
		c := &c28Run{r: r, hm: hm, m: newC28Model(), hist: i}
		a1, a2 := c28Pool[0], c28Pool[1]
		if sameAddr {
			a2 = a1
		}
		h1 := c28NewHostInfo([]netip.Addr{a1}, 11, 21, 1, false, []byte{1})
		h2 := c28NewHostInfo([]netip.Addr{a2}, 12, 22, 2, false, []byte{2})
		c.m.name[h1], c.m.name[h2] = "h0", "h1"
		c.m.order = []*HostInfo{h1, h2}
		hm.Lock()
		hm.unlockedAddHostInfo(h1, f)
		hm.Unlock()
		c.m.add(h1)
		cryptotest.SetGlobalRandom(t, seed)
		var first []uint32
		for k := 0; k < nrel; k++ {
			idx, err := AddRelay(l, h1, hm, c28Pool[2+k], nil, TerminalType, Established)
			if err != nil {
				c.bad("C28/add-relay-failed-on-live", err.Error(), nil)
			}
			c.m.relays[idx] = h1
			first = append(first, idx)
		}
		c.ops = append(c.ops, fmt.Sprintf("add h0 addrs=%v; AddRelay x%d on h0 -> %v", h1.vpnAddrs, nrel, first))
		c.walk()
		final := hm.DeleteHostInfo(h1)
		c.m.remove(h1)
		c.ops = append(c.ops, fmt.Sprintf("delete h0 -> final=%v", final))
		c.walk()
		hm.Lock()
		hm.unlockedAddHostInfo(h2, f)
		hm.Unlock()
		c.m.add(h2)
		cryptotest.SetGlobalRandom(t, seed) // same stream again: the allocator produces the same indexes
		var second []uint32
		for k := 0; k < nrel; k++ {
			idx, err := AddRelay(l, h2, hm, c28Pool[2+k], nil, TerminalType, Established)
			if err != nil {
				c.bad("C28/add-relay-failed-on-live", err.Error(), nil)
			}
			c.m.relays[idx] = h2
			second = append(second, idx)
		}
		c.ops = append(c.ops, fmt.Sprintf("add h1 addrs=%v; AddRelay x%d on h1 -> %v", h2.vpnAddrs, nrel, second))
		if !slices.Equal(first, second) {
			r.Count("index_not_reproduced", 1)
			continue
		}
		r.Count("relay_index_reused", 1)
		c.walk()
		if promote {
			hm.MakePrimary(h1)
			c.ops = append(c.ops, "make-primary(removed) h0")
			c.walk()
		}
		for k := 0; k < extraDeletes && !c.stop; k++ {
			want := c.m.final(h1)
			got := hm.DeleteHostInfo(h1)
			c.ops = append(c.ops, fmt.Sprintf("delete-again h0 -> final=%v", got))
			r.Count("double_deletes", 1)
			for _, idx := range second {
				if hm.Relays[idx] != h2 && !c.stop {
					c.bad("C28/double-delete-removes-reused-relay-index", fmt.Sprintf("deleting the already removed h0 again erased Relays[%d], which belongs to the live tunnel h1 (AddRelay re-allocated the index after the first delete)", idx),
						map[string]any{"relay_indexes": second})
				}
			}
			if c.stop {
				break
			}
			if got != want {
				c.bad("C28/final-wrong-on-double-delete", fmt.Sprintf("DeleteHostInfo(h0) again returned %v, want %v", got, want), nil)
			}
			c.walk()
		}
		r.Eval(1)
		r.DistinctClass(fmt.Sprintf("same_addr=%v relays=%d extra_deletes=%d promote_removed=%v", sameAddr, nrel, extraDeletes, promote))
		if r.WantSample() {
			r.Sample(map[string]any{"scenario": i, "ops": c.ops})
		}
	}
	if r.Counter("relay_index_reused") == 0 {
		r.Inconclusive("re-seeding crypto/rand never reproduced a relay index")
	}
}

// TestVerifC28Scripted runs a few short fixed scenarios (the shapes the statement names) through the
// same walk, so that a witness for a class also found by the PRNG histories exists in minimal form.
func TestVerifC28Scripted(t *testing.T) {
	r := verifkit.NewReporter(t, "C28", "scripted",
		"fixed short scenarios: delete twice with and without a re-allocated local index (victim on the same / another address), six tunnels on one address with multi-address members, promotion of a removed tunnel, AddRelay on a removed tunnel; distinct = scenarios")
	defer r.Done()
	if !verifkit.Mine(0) {
		r.Eval(1) // scenarios run in shard 0 only
		r.DistinctClass("not-my-shard")
		return
	}
	l := slog.New(slog.DiscardHandler)
	a, b, cc := c28Pool[0], c28Pool[1], c28Pool[3]
	type scen struct {
		name string
		run  func(c *c28Run, add func(name string, local uint32, addrs ...netip.Addr) *HostInfo, del func(h *HostInfo, again bool))
	}
	scens := []scen{
		{"delete-twice-index-reallocated-other-address", func(c *c28Run, add func(string, uint32, ...netip.Addr) *HostInfo, del func(*HostInfo, bool)) {
			h0 := add("h0", 7, a)
			del(h0, false)
			add("h1", 7, b)
			del(h0, true)
		}},
		{"delete-twice-index-reallocated-same-address", func(c *c28Run, add func(string, uint32, ...netip.Addr) *HostInfo, del func(*HostInfo, bool)) {
			h0 := add("h0", 7, a)
			del(h0, false)
			add("h1", 7, a)
			del(h0, true)
		}},
		{"delete-twice-no-reuse", func(c *c28Run, add func(string, uint32, ...netip.Addr) *HostInfo, del func(*HostInfo, bool)) {
			h0 := add("h0", 7, a, b)
			add("h1", 8, b)
			del(h0, false)
			del(h0, true)
			c.hm.MakePrimary(h0)
			c.ops = append(c.ops, "make-primary(removed) h0")
			c.walk()
		}},
		{"six-on-one-address", func(c *c28Run, add func(string, uint32, ...netip.Addr) *HostInfo, del func(*HostInfo, bool)) {
			h0 := add("h0", 1, a, b)
			add("h1", 2, a)
			add("h2", 3, a, cc)
			add("h3", 4, a)
			add("h4", 5, a, b)
			add("h5", 6, b, a) // h0 is retired from a and b
			c.hm.MakePrimary(h0)
			c.ops = append(c.ops, "make-primary(removed) h0")
			c.walk()
			if _, err := AddRelay(l, h0, c.hm, cc, nil, TerminalType, Requested); err == nil {
				c.bad("C28/relay-on-removed-tunnel", "AddRelay on the retired h0 succeeded", nil)
			}
			c.ops = append(c.ops, "AddRelay on (removed) h0")
			c.walk()
			del(h0, true)
		}},
	}
	for i, sc := range scens {
		hm := newHostMap(l)
		pr := []netip.Prefix{}
		hm.preferredRanges.Store(&pr)
		f := &Interface{hostMap: hm, l: l}
		c := &c28Run{r: r, hm: hm, m: newC28Model(), hist: i}
		add := func(name string, local uint32, addrs ...netip.Addr) *HostInfo {
			h := c28NewHostInfo(addrs, local, 100+local, uint64(len(c.m.order)), false, []byte(name))
			c.m.name[h] = name
			c.m.order = append(c.m.order, h)
			hm.Lock()
			hm.unlockedAddHostInfo(h, f)
			hm.Unlock()
			c.m.add(h)
			c.ops = append(c.ops, fmt.Sprintf("%s = add addrs=%v local=%d", name, addrs, local))
			if !c.stop {
				c.walk()
			}
			return h
		}
		del := func(h *HostInfo, again bool) {
			if c.stop {
				return
			}
			want := c.m.final(h)
			owner := c.m.idx[h.localIndexId]
			got := hm.DeleteHostInfo(h)
			c.m.remove(h)
			c.ops = append(c.ops, fmt.Sprintf("delete %s (again=%v) -> final=%v", c.m.nm(h), again, got))
			if again && owner != nil && hm.Indexes[h.localIndexId] != owner {
				c.bad("C28/double-delete-removes-reused-index", fmt.Sprintf("deleting the already removed %s again erased Indexes[%d], which belongs to the live tunnel %s; QueryIndex(%d)=%v although Hosts still lists %s",
					c.m.nm(h), h.localIndexId, c.m.nm(owner), h.localIndexId, hm.QueryIndex(h.localIndexId) != nil, c.m.nm(owner)), nil)
				return
			}
			if got != want {
				c.bad("C28/final-wrong-on-delete", fmt.Sprintf("DeleteHostInfo(%s) returned %v, want %v", c.m.nm(h), got, want), nil)
				return
			}
			c.walk()
		}
		sc.run(c, add, del)
		r.Eval(1)
		r.DistinctClass(sc.name)
		r.Sample(map[string]any{"scenario": sc.name, "ops": c.ops})
	}
}
